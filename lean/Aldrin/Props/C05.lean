/-
C05 — Channels: in-order exactly-once delivery under capacity flow control.

Statement (properties.jsonl): items sent on an established channel reach the receiver exactly once
and in send order, and the broker never forwards more items than the receiver has granted capacity
for (initial plus added); a sender that stays within the capacity announced to it is never cut off,
one that exceeds it loses only its own end. Claiming and closing follow the end state machine: an
end can be claimed once, only its owner (or anyone, if unclaimed) can close it, and the peer is told
exactly once when the other end is claimed, closed or its owner disconnects. A capacity grant that
would overflow closes only the receiver.

What is proved here, about the model of `broker/src/broker/channel.rs` and the channel handlers of
`broker/src/broker.rs` (M4):
* for ALL histories of broker events (any connections, any interleaving, disconnects included) every
  channel in the broker's map satisfies the channel invariant `Chan.OK` (`chan_inv_all_histories`);
* under that invariant none of the eight panic sites of `channel.rs` is reachable from a channel
  operation on a stored channel, with the one documented exception of `close` on an end that is
  already closed, which the handlers exclude through `check_close` (`*_no_panic`);
* credit accounting for ALL histories of sends and grants on an established channel
  (`credit_accounting`, `forwarded_le_granted`);
* the per-request decision logic (`send_*`, `claim_*`, `close_*`, `grant_overflow`).
* for ALL histories, between two events: a claimed end is claimed by a connection that is still there and lists the
  channel among its senders / receivers, and what a connection lists there is an end it has claimed
  (`claimed_end_is_listed_by_its_connected_owner`, `connection_lists_only_ends_it_claimed`; the ownership invariant
  `Lemmas/Broker/{XOwn,OwnView,OwnFrame,Own}.lean`). So the teardown of a connection closes exactly the ends it
  holds, each of which is claimed — never the `close`-on-closed arm — and "the peer is told when the owner
  disconnects" is the `remove_channel_end` of a claimed end.
Partial: the client-side `Sender`/`Receiver` of the `aldrin` crate are not modelled.
-/
import Aldrin.Lemmas.Broker.Handlers
import Aldrin.Lemmas.Broker.Own
import Aldrin.Lemmas.ClientChan
import Aldrin.Lemmas.ClientChanAsync
import Aldrin.Lemmas.ClientChanRefine

namespace Aldrin.Broker

/-- Every channel the broker holds, after any history that does not panic, has at least one claimed
end, a sender credit that never exceeds the receiver's, and equal credits at or below the low-water
mark. -/
theorem chan_inv_all_histories (es : List Event) (b : Broker) (w : Work) (outs : List (List Out))
    (h : run {} {} es = .ok (b, w, outs)) (ck : Cookie) (ch : Chan) (hc : AL.find? ck b.channels = some ch) :
    ch.OK :=
  AllV_find (run_CLInv es _ _ _ _ _ CLInv_init h).1 hc

/-- Credit accounting, for all histories of sends and grants on an established channel: no panic, and
at every point  forwarded ≤ announced-to-sender ≤ granted-by-receiver; the stored capacities are the
unspent parts. `cap` is the capacity the receiver claimed or created its end with. -/
theorem credit_accounting (s r : ConnId) (cap : Nat) (ops : List COp) :
    ∃ c g, crun s r ⟨.claimed s cap, .claimed r cap⟩ ⟨cap, cap, 0⟩ ops = .ok (c, g) ∧ Acct s r c g :=
  crun_acct s r ops _ _ ⟨cap, cap, rfl, by simp, by simp, Nat.le_refl _, fun _ => rfl⟩

theorem forwarded_le_granted (s r : ConnId) (cap : Nat) (ops : List COp) (c : Chan) (g : Ghost)
    (h : crun s r ⟨.claimed s cap, .claimed r cap⟩ ⟨cap, cap, 0⟩ ops = .ok (c, g)) :
    g.forwarded ≤ g.announced ∧ g.announced ≤ g.granted := by
  obtain ⟨c', g', h1, h2⟩ := credit_accounting s r cap ops
  rw [h] at h1; cases h1
  exact acct_bounds h2

/-- a sender within its announced credit is never refused -/
theorem send_within_credit {c : Chan} {s r : ConnId} {sc rc : Nat} (h : c.OK)
    (hs : c.sender = .claimed s sc) (hr : c.receiver = .claimed r rc) (hpos : 0 < sc) :
    ∃ c' add, c.sendItem s = .ok (.ok (c', r, add)) := sendItem_within_credit h hs hr hpos

/-- a sender without credit is refused with `capacityExhausted` (the handler then closes the sender's end only) -/
theorem send_beyond_credit {c : Chan} {s r : ConnId} {rc : Nat} (h : c.OK)
    (hs : c.sender = .claimed s 0) (hr : c.receiver = .claimed r rc) :
    c.sendItem s = .ok (.error .capacityExhausted) := sendItem_no_credit h hs hr

/-- exactly one `ItemReceived`, payload unchanged, appended to the receiver's queue in send order -/
theorem send_delivers_once {s : St} {id r : ConnId} {cookie : Cookie} {p : Payload} {sender rconn : Conn} {sc rc : Nat}
    (hs : AL.find? id s.b.conns = some sender) (hr : AL.find? r s.b.conns = some rconn)
    (hsa : sender.alive = true) (hra : rconn.alive = true)
    (hch : AL.find? cookie s.b.channels = some ⟨.claimed id sc, .claimed r rc⟩)
    (hok : ChInv s) (hpos : 0 < sc) :
    ∃ s' credit, sendItem s id cookie p = .ok (s', true) ∧
      s'.out = s.out ++ [⟨r, .itemReceived cookie p, some sender.version⟩] ++ credit ∧
      (credit = [] ∨ ∃ n, credit = [⟨id, .addChannelCapacity cookie n, none⟩]) :=
  sendItem_delivers hs hr hsa hra hch hok hpos

/-- a grant is refused exactly when the receiver's credit would exceed `u32::MAX` -/
theorem grant_overflow {c : Chan} {r : ConnId} {rc cap : Nat} (h : c.OK)
    (hr : c.receiver = .claimed r rc) (hc : cap ≠ 0) :
    (c.addCapacity r cap = .ok none ↔ rc + cap > u32Max) := addCapacity_overflow h hr hc

/-- claiming: each end can be claimed exactly once, a closed end never -/
theorem claim_sender_once (c : Chan) (conn : ConnId) (h : c.WF) :
    (c.sender = .unclaimed → ∃ o cap, c.receiver = .claimed o cap ∧
        c.claimSender conn = .ok (.ok ({ c with sender := .claimed conn cap }, o, cap))) ∧
    ((∃ o k, c.sender = .claimed o k) → c.claimSender conn = .ok (.error .alreadyClaimed)) ∧
    (c.sender = .closed → c.claimSender conn = .ok (.error .invalidChannel)) := claimSender_result c conn h

theorem claim_receiver_once (c : Chan) (conn : ConnId) (cap : Nat) (h : c.WF) :
    (c.receiver = .unclaimed → ∃ o k, c.sender = .claimed o k ∧
        c.claimReceiver conn cap = .ok (.ok (⟨.claimed o cap, .claimed conn cap⟩, o))) ∧
    ((∃ o k, c.receiver = .claimed o k) → c.claimReceiver conn cap = .ok (.error .alreadyClaimed)) ∧
    (c.receiver = .closed → c.claimReceiver conn cap = .ok (.error .invalidChannel)) := claimReceiver_result c conn cap h

/-- closing: allowed for the owner or on an unclaimed end, foreign for another owner, invalid once closed -/
theorem close_permission (c : Chan) (conn : ConnId) (e : ChanEnd) :
    ((c.checkClose conn e).1 = .ok ↔ (c.endState e = .unclaimed ∨ ∃ k, c.endState e = .claimed conn k)) ∧
    ((c.checkClose conn e).1 = .foreignChannel ↔ ∃ o k, c.endState e = .claimed o k ∧ o ≠ conn) ∧
    ((c.checkClose conn e).1 = .invalidChannel ↔ c.endState e = .closed) ∧
    ((c.checkClose conn e).2 = true ↔ (c.endState e).isClaimed = true) := checkClose_spec c conn e

/-- closing an end that is not closed never panics; the peer to notify is returned exactly when the
other end is claimed, and only then does the channel stay in the map -/
theorem close_no_panic {c : Chan} {e : ChanEnd} (h : c.OK) (he : c.endState e ≠ .closed) :
    okAnd (c.close e) (fun r => r.1.endState e = .closed ∧ r.1.endState e.other = c.endState e.other ∧
      (∀ o, r.2 = some o → r.1.OK ∧ ∃ k, c.endState e.other = .claimed o k) ∧
      (r.2 = none ↔ (c.endState e.other).isClaimed = false)) := close_ok h he

theorem send_no_panic {c : Chan} {conn : ConnId} (h : c.OK) :
    okAnd (c.sendItem conn) (fun r => ∀ c' o add, r = .ok (c', o, add) → c'.OK) := sendItem_ok h
theorem grant_no_panic {c : Chan} {conn : ConnId} {cap : Nat} (h : c.OK) :
    okAnd (c.addCapacity conn cap) (fun r => ∀ c' f, r = some (c', f) → c'.OK) := addCapacity_ok h
theorem claim_sender_no_panic {c : Chan} {conn : ConnId} (h : c.OK) :
    okAnd (c.claimSender conn) (fun r => ∀ c' o cap, r = .ok (c', o, cap) → c'.OK) := claimSender_ok h
theorem claim_receiver_no_panic {c : Chan} {conn : ConnId} {cap : Nat} (h : c.OK) :
    okAnd (c.claimReceiver conn cap) (fun r => ∀ c' o, r = .ok (c', o) → c'.OK) := claimReceiver_ok h

/-- for ALL histories: an end that is claimed is claimed by a connection that is still there, and that connection
lists the channel among its senders resp. receivers -/
theorem claimed_end_is_listed_by_its_connected_owner (es : List Event) (b : Broker) (w : Work) (outs : List (List Out))
    (h : run {} {} es = .ok (b, w, outs)) {ck : Cookie} {ch : Chan} (hc : AL.find? ck b.channels = some ch) :
    (∀ o cap, ch.sender = .claimed o cap → ∃ conn, AL.find? o b.conns = some conn ∧ ck ∈ conn.senders) ∧
    (∀ o cap, ch.receiver = .claimed o cap → ∃ conn, AL.find? o b.conns = some conn ∧ ck ∈ conn.receivers) := by
  have hown := run_own es _ _ _ _ _ G2_init Own.init h
  have key : ∀ (x : Hold) (o : ConnId), own ⟨b, w, []⟩ x = some o → ∃ conn, AL.find? o b.conns = some conn ∧
      x ∈ holds (conn.senders, conn.receivers, conn.busListeners) := by
    intro x o hx
    rcases hown.o1 x o hx with ⟨L, hl, hm⟩ | ⟨L, hp, _⟩
    · simp only [co, cv] at hl
      split at hl
      · rename_i conn hconn; simp at hl; subst hl; exact ⟨conn, hconn, hm⟩
      · simp at hl
    · simp at hp
  obtain ⟨os, or⟩ := own_chan (s := ⟨b, w, []⟩) hc
  constructor
  · intro o cap hs
    obtain ⟨conn, h1, h2⟩ := key (.snd, ck) o (by rw [os, hs]; rfl)
    rw [mem_holds] at h2; simp at h2; exact ⟨conn, h1, h2⟩
  · intro o cap hs
    obtain ⟨conn, h1, h2⟩ := key (.rcv, ck) o (by rw [or, hs]; rfl)
    rw [mem_holds] at h2; simp at h2; exact ⟨conn, h1, h2⟩

/-- for ALL histories: what a connection lists among its senders resp. receivers is an end it has claimed -/
theorem connection_lists_only_ends_it_claimed (es : List Event) (b : Broker) (w : Work) (outs : List (List Out))
    (h : run {} {} es = .ok (b, w, outs)) {id : ConnId} {conn : Conn} (hc : AL.find? id b.conns = some conn) :
    (∀ ck, ck ∈ conn.senders → ∃ ch cap, AL.find? ck b.channels = some ch ∧ ch.sender = .claimed id cap) ∧
    (∀ ck, ck ∈ conn.receivers → ∃ ch cap, AL.find? ck b.channels = some ch ∧ ch.receiver = .claimed id cap) := by
  have hown := run_own es _ _ _ _ _ G2_init Own.init h
  have hco := co_find (s := ⟨b, w, []⟩) hc
  constructor
  · intro ck hm
    have := hown.o2 id _ (.snd, ck) hco (by rw [mem_holds]; exact Or.inl ⟨rfl, hm⟩)
    simp only [own] at this
    split at this
    · rename_i ch hch
      cases hs : ch.sender <;> simp [hs, endOwner] at this
      exact ⟨ch, _, hch, by rw [hs, this]⟩
    · simp at this
  · intro ck hm
    have := hown.o2 id _ (.rcv, ck) hco (by rw [mem_holds]; exact Or.inr (Or.inl ⟨rfl, hm⟩))
    simp only [own] at this
    split at this
    · rename_i ch hch
      cases hs : ch.receiver <;> simp [hs, endOwner] at this
      exact ⟨ch, _, hch, by rw [hs, this]⟩
    · simp at this

/-! ### client level: the real `Sender` / `Receiver` composed with the broker's channel (`Model/ClientChan.lean`) -/

/-- **All schedules of a producer and a consumer.** A channel established with any capacity `1 ≤ max ≤ u32::MAX`; any
sequence of: the sender sends if `poll_send_ready` lets it, the receiver takes an item, the sender polls
`receiver_closed`, the sender polls `send_ready` — the system at rest in between. Then: no `debug_assert!` of `Sender`,
`Receiver` or `Channel` fails; the broker never refuses an item or a grant (a sender that stays within the capacity
announced to it is never cut off, and no grant overflows); the items waiting at the receiver are exactly those sent
and not yet taken; the sender's capacity together with the announcements waiting in its queue is the broker's credit
of the sender, the receiver's remaining capacity is the broker's credit of the receiver plus the waiting items; and a
sender whose receiver has taken everything is allowed to send. -/
theorem client_channel_all_schedules (max : Nat) (h1 : 0 < max) (h2 : max ≤ u32Max) (ops : List ClientChan.Op) :
    ∃ s os, ClientChan.run (ClientChan.init max) ops = .ok (s, os) ∧ ClientChan.Obs.cutOff ∉ os ∧
      s.rcv.items + ClientChan.count .item os = ClientChan.count .sent os ∧
      (∃ sc rc, s.chan = ⟨.claimed ClientChan.sid sc, .claimed ClientChan.rid rc⟩ ∧
        s.snd.capacity + s.snd.queue.sum = sc ∧ s.rcv.cur = rc + s.rcv.items ∧ sc ≤ rc) ∧
      0 < s.rcv.cur ∧ s.rcv.cur ≤ max ∧
      (s.rcv.items = 0 → 0 < s.snd.drain.capacity) := by
  obtain ⟨s, os, hr, hi, hc⟩ := ClientChan.run_inv (ClientChan.init_inv h1 h2) ops
  have hitems := ClientChan.run_items hr
  have hmax : s.rcv.max = max := by
    have : ∀ (ops : List ClientChan.Op) (a b : ClientChan.Sys) (os : List ClientChan.Obs),
        ClientChan.run a ops = .ok (b, os) → ClientChan.Inv a → b.rcv.max = a.rcv.max := by
      intro ops
      induction ops with
      | nil => intro a b os h _; simp only [ClientChan.run, Except.ok.injEq, Prod.mk.injEq] at h; rw [← h.1]
      | cons op ops ih =>
        intro a b os h ha
        obtain ⟨a1, o, e1, i1, _⟩ := ClientChan.step_inv ha op
        simp only [ClientChan.run, e1] at h
        split at h
        · simp at h
        · rename_i b' os' e2
          simp only [Except.ok.injEq, Prod.mk.injEq] at h
          obtain ⟨rfl, _⟩ := h
          rw [ih _ _ _ e2 i1]
          cases op <;> simp only [ClientChan.step] at e1
          · repeat' split at e1
            all_goals (simp only [Except.ok.injEq, Prod.mk.injEq, reduceCtorEq] at e1)
            all_goals (try (exact e1.elim))
            all_goals (obtain ⟨rfl, _⟩ := e1; rfl)
          · repeat' split at e1
            all_goals (simp only [Except.ok.injEq, Prod.mk.injEq, reduceCtorEq] at e1)
            all_goals (try (exact e1.elim))
            all_goals (obtain ⟨rfl, _⟩ := e1; rfl)
          · obtain ⟨rfl, _⟩ := Prod.mk.inj (Except.ok.inj e1); rfl
          · obtain ⟨rfl, _⟩ := Prod.mk.inj (Except.ok.inj e1); rfl
    exact this ops _ _ _ hr (ClientChan.init_inv h1 h2)
  obtain ⟨sc, rc, e1, e2, e3, e4, _⟩ := hi.ex
  refine ⟨s, os, hr, hc, ?_, ⟨sc, rc, e1, e2, e3, e4⟩, hi.curPos, hmax ▸ hi.curLe, ClientChan.ready_of_caught_up hi⟩
  simpa [ClientChan.init] using hitems

/-- **All interleavings, with messages in flight.** The same three parties, but every message waits in a FIFO queue
until the schedule moves it (sender's client → broker, broker → receiver's queue, receiver's client → broker, broker →
sender's queue); the schedule is any sequence of application operations and of moves of the four queues. Then: no
`debug_assert!` fails; the broker refuses no item (it never sees one without credit) and no grant (none overflows);
the sender's capacity plus the announcements in its queue and on their way plus the items on their way is the broker's
credit of the sender; the receiver's `cur_capacity` is the broker's credit of the receiver plus the grants on their way
plus the items waiting and on their way; what has been forwarded and not taken never exceeds the receiver's capacity;
and when nothing is in flight and the receiver has taken everything, the sender may send. -/
theorem client_channel_all_interleavings (max : Nat) (h1 : 0 < max) (h2 : max ≤ u32Max) (ops : List ClientChan.AOp) :
    ∃ s os, ClientChan.arun (ClientChan.ASys.ofSys (ClientChan.init max)) ops = .ok (s, os) ∧ ClientChan.AObs.cutOff ∉ os ∧
      (∃ sc rc, s.chan = ⟨.claimed ClientChan.sid sc, .claimed ClientChan.rid rc⟩ ∧
        sc = s.snd.capacity + s.snd.queue.sum + s.bs.sum + s.sb ∧
        s.rcv.cur = rc + s.rb.sum + s.rcv.items + s.br ∧ sc ≤ rc) ∧
      0 < s.rcv.cur ∧ s.rcv.items + s.br ≤ s.rcv.max ∧
      (s.sb = 0 → s.br = 0 → s.rb = [] → s.bs = [] → s.rcv.items = 0 → 0 < s.snd.drain.capacity) := by
  obtain ⟨s, os, hr, hi, hc⟩ := ClientChan.arun_inv (ClientChan.AInv.ofSys (ClientChan.init_inv h1 h2)) ops
  obtain ⟨sc, rc, e1, e2, e3, e4, _⟩ := hi.ex
  exact ⟨s, os, hr, hc, ⟨sc, rc, e1, e2, e3, e4⟩, hi.curPos, hi.outstanding_le, hi.ready_at_rest⟩

/-- **The system at rest is the system with messages in flight under a particular schedule.** Every run of the at-rest
model — the one the `chan` harness compares with two real clients on a real broker — is the run of the in-flight model
under the schedule that delivers everything after each operation (`expand`): the same observations of the applications,
the same resulting state, nothing left in flight, and the broker refuses nothing. So the correspondence runs tie the
in-flight model's steps under those schedules as well. -/
theorem at_rest_runs_are_in_flight_runs (max : Nat) (h1 : 0 < max) (h2 : max ≤ u32Max) (ops : List ClientChan.Op) :
    ∃ s os aos, ClientChan.run (ClientChan.init max) ops = .ok (s, os) ∧
      ClientChan.arun (ClientChan.ASys.ofSys (ClientChan.init max)) (ops.flatMap ClientChan.expand) = .ok (ClientChan.ASys.ofSys s, aos) ∧
      ClientChan.AObs.cutOff ∉ aos ∧
      aos.filterMap (fun o => match o with | .app x => some x | _ => none) = os :=
  ClientChan.run_refines ops _ (ClientChan.init_inv h1 h2)

/-! non-vacuity: capacity 1; the item is sent, the sender polls `receiver_closed` while the item, then the grant, then
the announcement are still on their way, and is ready again once the announcement has arrived -/
example : (match ClientChan.arun (ClientChan.ASys.ofSys (ClientChan.init 1))
      [.app .send, .app .ready, .brokerItem, .deliverItem, .app .take, .app .pollClosed, .brokerGrant, .app .ready, .deliverAnn, .app .ready] with
    | .ok (s, os) => (os, s.snd.capacity, s.rcv.cur) | .error _ => ([], 0, 0)) =
    ([.app .sent, .app .blocked, .moved, .moved, .app .item, .app .pending, .moved, .app .blocked, .moved, .app .isReady], 1, 1) := by decide

/-! non-vacuity: capacity 2; two items go, the third send is blocked; one take tops the receiver up and the announcement
reaches the sender, which `poll_receiver_closed` counts as well as `poll_send_ready` does -/
example : (match ClientChan.run (ClientChan.init 2) [.send, .send, .send, .take, .pollClosed, .send] with
    | .ok (s, os) => (os, s.snd.capacity, s.rcv.cur, s.rcv.items) | .error _ => ([], 0, 0, 0)) =
    ([.sent, .sent, .blocked, .item, .pending, .sent], 0, 2, 2) := by decide

/-! non-vacuity: a concrete history that establishes a channel with capacity 5 and sends an item -/
example : (match run {} {} [.newConn 0 20, .newConn 1 20, .msg 0 (.createChannel 1 .sender 0),
      .msg 1 (.claimChannelEnd 2 0 .receiver 5), .msg 0 (.sendItem 0 [3, 7])] with
    | .ok (b, _, outs) => (AL.find? 0 b.channels, outs.getLast?) | .error _ => (none, none)) =
    (some ⟨.claimed 0 4, .claimed 1 4⟩, some [⟨1, .itemReceived 0 [3, 7], some 20⟩]) := by decide

end Aldrin.Broker
