/-
C18 — the formatter preserves the schema and is idempotent.

Models: `Model/Schema/Parse.lean` is `parser/grammar.pest` as the PEG pest executes plus the AST construction;
`Model/Schema/Fmt.lean` is `parser/src/fmt.rs` function by function. Both are tied to the real parser and
formatter on every run (canonical AST dump and formatted text of generated and damaged sources).

Proved here, for all inputs:
* `type_roundtrip` — the text the formatter writes for a type is parsed back to that type, for every type the
  grammar can produce (`ValidType`: well-formed identifiers, no reference starting with a parameterless
  type keyword, which the PEG would commit to) and whatever may follow a type;
* `ref_roundtrip`, `int_roundtrip`, `uuid_roundtrip`, `string_roundtrip`, `ident_roundtrip` — the same for the
  leaves of the grammar;
* `comment_line_roundtrip`, `doc_line_roundtrip`, `inline_doc_line_roundtrip` — a written comment / doc line is
  read back as one line of the same kind (never as another kind), and `line_inner_stable`: its inner text is
  the one that was written, so writing it again gives the same line (idempotence of line formatting).
The round trip of whole definitions and of the blank-line state machine is tied by the correspondence runs and
the implementation-only oracles (formatted text parses, to the same schema, idempotent, same diagnostics).
-/
import Aldrin.Lemmas.Schema.Types
import Aldrin.Lemmas.Schema.Lines

namespace Aldrin.Schema

/-- A type written by the formatter is read back as the same type. -/
theorem type_roundtrip (t : TypeName) (ht : ValidType t) (fuel : Nat) (rest : Str) (hd : t.depth ≤ fuel)
    (hf : TypeFollow rest) : typeNameP fuel (typeText t ++ rest) = some (t, rest) :=
  typeNameP_typeText t ht fuel rest hd hf

theorem ref_roundtrip (r : NamedRef) (hr : ValidRef r) (rest : Str) (hf : TypeFollow rest) :
    namedRefP (namedRefText r ++ rest) = some (r, rest) :=
  namedRefP_text hr hf

theorem ident_roundtrip (n rest : Str) (hn : ValidIdent n) (hr : NoCont rest) : identP (n ++ rest) = some (n, rest) :=
  identP_append hn hr

theorem int_roundtrip (v rest : Str) (hv : ValidInt v) (hr : NoDigit rest) : litIntP (v ++ rest) = some (v, rest) :=
  litIntP_append hv hr

theorem uuid_roundtrip (u rest : Str) (hu : ValidUuid u) : litUuidP (u ++ rest) = some (u, rest) :=
  litUuidP_append hu

theorem string_roundtrip (v rest : Str) (hv : ValidLitString v) : litStringP (v ++ rest) = some (v, rest) :=
  litStringP_append hv

theorem comment_line_roundtrip (i rest : Str) (hn : '\n' ∉ i) :
    commentP (canonLine (chars! "//") i ++ rest) = some (canonLine (chars! "//") i, rest) ∧
    docP (canonLine (chars! "//") i ++ rest) = none :=
  ⟨commentP_canon i rest hn, docP_comment i rest⟩

theorem doc_line_roundtrip (i rest : Str) (hn : '\n' ∉ i) :
    docP (canonLine (chars! "///") i ++ rest) = some (canonLine (chars! "///") i, rest) ∧
    commentP (canonLine (chars! "///") i ++ rest) = none :=
  ⟨docP_canon i rest hn, commentP_doc i rest⟩

theorem inline_doc_line_roundtrip (i rest : Str) (hn : '\n' ∉ i) :
    docInlineP (canonLine (chars! "//!") i ++ rest) = some (canonLine (chars! "//!") i, rest) ∧
    commentP (canonLine (chars! "//!") i ++ rest) = none :=
  ⟨docInlineP_canon i rest hn, commentP_docInline i rest⟩

/-- Formatting a line that was already formatted changes nothing: the inner text of a written line is the
inner text it was written from. -/
theorem line_inner_stable (k : Nat) (pre : Str) (hk : pre.length = k) (raw : Line) :
    inner k (canonLine pre (inner k raw)) = inner k raw :=
  canonLine_inner_idem pre k raw hk

/-! ### the premises are satisfiable -/

example : ValidType (.map (.prim .string) (.array (.option (.ref (.extern (chars! "other") (chars! "Thing")))) (.lit (chars! "4")))) := by
  refine ⟨trivial, ⟨⟨⟨'o', chars! "ther", rfl, by decide, by decide⟩, ⟨'T', chars! "hing", rfl, by decide, by decide⟩⟩, ?_⟩,
    ⟨chars! "4", by simp, by decide, Or.inl rfl⟩⟩
  intro p hp
  simp only [allPrims, List.mem_cons, List.not_mem_nil, or_false] at hp
  rcases hp with h | h | h | h | h | h | h | h | h | h | h | h | h | h | h | h | h | h | h <;> subst h <;> decide

example : typeText (.map (.prim .string) (.array (.option (.ref (.extern (chars! "other") (chars! "Thing")))) (.lit (chars! "4"))))
    = chars! "map<string -> [option<other::Thing>; 4]>" := by decide

-- the PEG commits to `bool` in `boolean`: such a reference is not something the grammar produces
example : typeNameP 5 (chars! "boolean;") = some (.prim .bool, chars! "ean;") := by decide

end Aldrin.Schema
