/-
C18 — the formatter preserves the schema and is idempotent.

Models: `Model/Schema/Parse.lean` is `parser/grammar.pest` as the PEG pest executes plus the AST construction;
`Model/Schema/Fmt.lean` is `parser/src/fmt.rs` function by function. Both are tied to the real parser and
formatter on every run (canonical AST dump and formatted text of generated and damaged sources).

Proved here, for all inputs:
* `parse_format_parse` — the property for the models with nothing assumed: for EVERY source text the grammar accepts,
  the formatted text of its schema is accepted again, with the parser's own fuel, as the same schema in canonical
  form, and formatting that result gives the same text again. It rests on the three theorems below and on
  `formatted_text_carries_its_fuel` (the nesting budget of the parser model, input length + 2, always suffices for
  text the formatter wrote);
* `formatting_a_parsed_schema` — the property for the models with no premise on the schema: for EVERY source text the
  grammar accepts, the formatted text of its AST reads back as the canonical form of that AST and formatting that
  again changes nothing. It combines `parsed_schemas_are_well_formed` (every AST the parser model returns is
  `ValidSchema`; one lemma per grammar rule) with the next two theorems;
* `format_parses_back` — for every schema AST that is well formed (`ValidSchema`: identifiers and literals of the shape
  the grammar matches, one-line comment texts, schema comments only together with schema docs, no type reference
  whose first identifier starts with a parameterless type keyword) the formatted text parses, with the PEG of
  `grammar.pest`, to exactly the same schema with every comment / doc line in canonical form and the imports in
  the formatter's (stable, by name) order: same definitions in the same order with the same names, ids, types,
  attributes, comments and doc comments. This covers structs, enums, newtypes, consts of all kinds, services with
  functions in all three body forms, events, inline structs and enums, both fallbacks, file prelude, and the
  formatter's complete blank-line state machine (shown to write blank runs only);
* `formatting_again_changes_nothing` — the schema read back from the formatted text is formatted to the same text
  (`format_of_canonical_form`: the formatter sees lines only through their inner text and sorts imports stably);
* `struct_def_roundtrip`, `enum_def_roundtrip`, `service_def_roundtrip`, `const_def_roundtrip`,
  `newtype_def_roundtrip`, `definition_roundtrip` — the same per definition, whatever follows it;
* `type_roundtrip` — the text the formatter writes for a type is parsed back to that type, for every type the
  grammar can produce (`ValidType`: well-formed identifiers, no reference starting with a parameterless
  type keyword, which the PEG would commit to) and whatever may follow a type;
* `ref_roundtrip`, `int_roundtrip`, `uuid_roundtrip`, `string_roundtrip`, `ident_roundtrip` — the same for the
  leaves of the grammar;
* `comment_line_roundtrip`, `doc_line_roundtrip`, `inline_doc_line_roundtrip` — a written comment / doc line is
  read back as one line of the same kind (never as another kind), and `line_inner_stable`: its inner text is
  the one that was written, so writing it again gives the same line (idempotence of line formatting).
Not theorems (tied by the correspondence runs and the implementation-only oracles): that models and code agree (AST
dumps and formatted text on generated and damaged sources; the `sval` lines re-evaluate premises and conclusion of
the theorems on every parsed input); the validator (equal errors and warnings).
-/
import Aldrin.Lemmas.Schema.Types
import Aldrin.Lemmas.Schema.Lines
import Aldrin.Lemmas.Schema.Schema
import Aldrin.Lemmas.Schema.ValidSound
import Aldrin.Lemmas.Schema.Idem
import Aldrin.Lemmas.Schema.ParseValid
import Aldrin.Lemmas.Schema.FuelBound

namespace Aldrin.Schema

/-- Formatting a (well-formed) schema yields text that parses, without syntax error, to the same schema: lines
in canonical form, imports in the formatter's order, everything else identical. -/
theorem format_parses_back (s : Schema) (hv : ValidSchema s) (fuel : Nat) (hf : schemaFuel s ≤ fuel) :
    fileP fuel (format s) = some (canonSchema s) :=
  fileP_format s hv fuel hf

/-- Everything the grammar accepts is well formed: the premise of `format_parses_back` holds for every AST that
comes from a source text (60 lemmas, one per rule of the grammar model, `Lemmas/Schema/ParseValid.lean`). -/
theorem parsed_schemas_are_well_formed (src : Str) (s : Schema) (h : parseSchema src = some s) : ValidSchema s :=
  parseSchema_valid h

/-- The property for the model, without a premise on the schema: whatever source the grammar accepts, the text the
formatter writes for its AST reads back (given fuel for the nesting of that AST) as the canonical form of the same
AST - same definitions in the same order, names, ids, types, attributes, comments and docs, imports sorted -, and
formatting what was read back changes nothing. -/
theorem formatting_a_parsed_schema (src : Str) (s : Schema) (h : parseSchema src = some s) :
    fileP (schemaFuel s) (format s) = some (canonSchema s) ∧ format (canonSchema s) = format s :=
  ⟨fileP_format s (parseSchema_valid h) _ (Nat.le_refl _), format_canon s⟩

/-- The fuel `parseSchema` takes for a text (its length + 2) is enough for the schema the text was written for:
every unit of `schemaFuel` stands for something the formatter writes at least one character for. -/
theorem formatted_text_carries_its_fuel (s : Schema) (hv : ValidSchema s) : schemaFuel s ≤ (format s).length + 2 :=
  schemaFuel_le_format s hv

/-- C18 for the models, with nothing assumed: whatever source text the grammar accepts, formatting its schema
yields text that the grammar accepts again - with the parser's own fuel - as the same schema in canonical form
(same definitions in the same order, names, ids, types, attributes, comments, docs; imports sorted), and formatting
that result again gives the same text. -/
theorem parse_format_parse (src : Str) (s : Schema) (h : parseSchema src = some s) :
    parseSchema (format s) = some (canonSchema s) ∧ (parseSchema (format s)).map format = some (format s) := by
  have hv := parseSchema_valid h
  have hp : parseSchema (format s) = some (canonSchema s) :=
    fileP_format s hv _ (schemaFuel_le_format s hv)
  exact ⟨hp, by rw [hp, Option.map_some, format_canon]⟩

/-- The same with the executable well-formedness check (`Model/Schema/Valid.lean`), which the driver evaluates on
every AST the model parser produces in the correspondence runs. -/
theorem format_parses_back_checked (s : Schema) (hv : validSchemaB s = true) (fuel : Nat) (hf : schemaFuel s ≤ fuel) :
    fileP fuel (format s) = some (canonSchema s) :=
  fileP_format s (validSchemaB_sound hv) fuel hf

/-- Formatting the result again changes nothing: the schema read back from the formatted text is formatted to the
same text. -/
theorem formatting_again_changes_nothing (s : Schema) (hv : ValidSchema s) (fuel : Nat) (hf : schemaFuel s ≤ fuel) :
    (fileP fuel (format s)).map format = some (format s) := by
  rw [fileP_format s hv fuel hf, Option.map_some, format_canon]

/-- The formatter sees comment and doc lines only through their inner text, and sorts imports stably by name:
a schema and its canonical form are formatted alike. -/
theorem format_of_canonical_form (s : Schema) : format (canonSchema s) = format s := format_canon s

/-- The imports of the schema read back are sorted by name. -/
theorem imports_sorted (s : Schema) : SortedI (sortImports s.imports) := sortImports_sorted s.imports

theorem definition_roundtrip (d : Definition) (hv : ValidDef d) (fuel : Nat) (hf : defFuel d ≤ fuel) (txt : Str)
    (ht : DefTexts d txt) (w rest : Str) (hw : Blank w) : defP fuel (skipWs (w ++ (txt ++ rest))) = some (canonDef d, rest) :=
  defP_text d hv fuel hf txt ht w rest hw

/-- Whatever the formatter state, a definition is written as a blank run, one of its texts and a line end. -/
theorem definition_written (d : Definition) : Emits (definitionF d) (DefTexts d) := emits_definitionF d

theorem struct_def_roundtrip (d : StructDef) (hv : ValidStruct d) (fuel : Nat) (hf : structFuel d ≤ fuel) (t : Str)
    (ht : StructTexts d t) (w rest : Str) (hw : Blank w) :
    structDefP fuel (skipWs (w ++ (t ++ rest))) = some (canonStruct d, rest) := structDefP_text d hv fuel hf t ht w rest hw

theorem enum_def_roundtrip (d : EnumDef) (hv : ValidEnum d) (fuel : Nat) (hf : enumFuel d ≤ fuel) (t : Str)
    (ht : EnumTexts d t) (w rest : Str) (hw : Blank w) :
    enumDefP fuel (skipWs (w ++ (t ++ rest))) = some (canonEnum d, rest) := enumDefP_text d hv fuel hf t ht w rest hw

theorem service_def_roundtrip (d : ServiceDef) (hv : ValidService d) (fuel : Nat) (hf : serviceFuel d ≤ fuel) (t : Str)
    (ht : ServiceTexts d t) (w rest : Str) (hw : Blank w) :
    serviceDefP fuel (skipWs (w ++ (t ++ rest))) = some (canonService d, rest) := serviceDefP_text d hv fuel hf t ht w rest hw

theorem const_def_roundtrip (d : ConstDef) (hv : ValidConst d) (fuel : Nat) (hf : d.comment.length + d.doc.length < fuel)
    (w rest : Str) (hw : Blank w) : constDefP fuel (skipWs (w ++ (constText d ++ rest))) = some (canonConst d, rest) :=
  constDefP_text d hv fuel hf w rest hw

theorem newtype_def_roundtrip (d : NewtypeDef) (hv : ValidNewtype d) (fuel : Nat) (hf : newtypeFuel d ≤ fuel)
    (w rest : Str) (hw : Blank w) : newtypeDefP fuel (skipWs (w ++ (newtypeText d ++ rest))) = some (canonNewtype d, rest) :=
  newtypeDefP_text d hv fuel hf w rest hw

/-- A type written by the formatter is read back as the same type. -/
theorem type_roundtrip (t : TypeName) (ht : ValidType t) (fuel : Nat) (rest : Str) (hd : t.depth ≤ fuel)
    (hf : TypeFollow rest) : typeNameP fuel (typeText t ++ rest) = some (t, rest) :=
  typeNameP_typeText t ht fuel rest hd hf

theorem ref_roundtrip (r : NamedRef) (hr : ValidRef r) (rest : Str) (hf : TypeFollow rest) :
    namedRefP (namedRefText r ++ rest) = some (r, rest) :=
  namedRefP_text hr hf

theorem ident_roundtrip (n rest : Str) (hn : ValidIdent n) (hr : NoCont rest) : identP (n ++ rest) = some (n, rest) :=
  identP_append hn hr

theorem int_roundtrip (v rest : Str) (hv : ValidInt v) (hr : NoDigit rest) : litIntP (v ++ rest) = some (v, rest) :=
  litIntP_append hv hr

theorem uuid_roundtrip (u rest : Str) (hu : ValidUuid u) : litUuidP (u ++ rest) = some (u, rest) :=
  litUuidP_append hu

theorem string_roundtrip (v rest : Str) (hv : ValidLitString v) : litStringP (v ++ rest) = some (v, rest) :=
  litStringP_append hv

theorem comment_line_roundtrip (i rest : Str) (hn : '\n' ∉ i) :
    commentP (canonLine (chars! "//") i ++ rest) = some (canonLine (chars! "//") i, rest) ∧
    docP (canonLine (chars! "//") i ++ rest) = none :=
  ⟨commentP_canon i rest hn, docP_comment i rest⟩

theorem doc_line_roundtrip (i rest : Str) (hn : '\n' ∉ i) :
    docP (canonLine (chars! "///") i ++ rest) = some (canonLine (chars! "///") i, rest) ∧
    commentP (canonLine (chars! "///") i ++ rest) = none :=
  ⟨docP_canon i rest hn, commentP_doc i rest⟩

theorem inline_doc_line_roundtrip (i rest : Str) (hn : '\n' ∉ i) :
    docInlineP (canonLine (chars! "//!") i ++ rest) = some (canonLine (chars! "//!") i, rest) ∧
    commentP (canonLine (chars! "//!") i ++ rest) = none :=
  ⟨docInlineP_canon i rest hn, commentP_docInline i rest⟩

/-- Formatting a line that was already formatted changes nothing: the inner text of a written line is the
inner text it was written from. -/
theorem line_inner_stable (k : Nat) (pre : Str) (hk : pre.length = k) (raw : Line) :
    inner k (canonLine pre (inner k raw)) = inner k raw :=
  canonLine_inner_idem pre k raw hk

/-! ### the premises are satisfiable -/

example : ValidType (.map (.prim .string) (.array (.option (.ref (.extern (chars! "other") (chars! "Thing")))) (.lit (chars! "4")))) := by
  refine ⟨trivial, ⟨⟨⟨'o', chars! "ther", rfl, by decide, by decide⟩, ⟨'T', chars! "hing", rfl, by decide, by decide⟩⟩, ?_⟩,
    ⟨chars! "4", by simp, by decide, Or.inl rfl⟩⟩
  intro p hp
  simp only [allPrims, List.mem_cons, List.not_mem_nil, or_false] at hp
  rcases hp with h | h | h | h | h | h | h | h | h | h | h | h | h | h | h | h | h | h | h <;> subst h <;> decide

example : typeText (.map (.prim .string) (.array (.option (.ref (.extern (chars! "other") (chars! "Thing")))) (.lit (chars! "4"))))
    = chars! "map<string -> [option<other::Thing>; 4]>" := by decide

-- the PEG commits to `bool` in `boolean`: such a reference is not something the grammar produces
example : typeNameP 5 (chars! "boolean;") = some (.prim .bool, chars! "ean;") := by decide

-- a schema for which every premise of `format_parses_back` holds, with what it is formatted to
def exSchema : Schema :=
  { comment := [chars! "//c\n"], doc := [chars! "//!  d \n"],
    imports := [{ comment := [], name := chars! "zeta" }, { comment := [chars! "//   about a\n"], name := chars! "alpha" }],
    defs := [.newtype { comment := [], doc := [chars! "///x\n"], attrs := [{ name := chars! "a", options := [chars! "b", chars! "c"] }],
                        name := chars! "N", target := .map (.prim .string) (.ref (.intern (chars! "Foo"))) },
             .struct { comment := [], doc := [], attrs := [], name := chars! "S",
                       fields := [{ comment := [chars! "//f\n"], doc := [], required := true, name := chars! "required", id := chars! "-1",
                                    ty := .option (.prim .u8) }],
                       fallback := some { comment := [], doc := [], name := chars! "rest" } }] }

set_option maxRecDepth 8192 in
example : format exSchema = chars! "// c\n\n//!  d\n\n//   about a\nimport alpha;\n\nimport zeta;\n\n/// x\n#[a(b, c)]\nnewtype N = map<string -> Foo>;\n\nstruct S {\n    // f\n    required required @ -1 = option<u8>;\n\n    rest = fallback;\n}\n" := by
  decide

set_option maxRecDepth 8192 in
example : parseSchema (format exSchema) = some (canonSchema exSchema) := by decide

theorem exSchema_valid : ValidSchema exSchema := validSchemaB_sound (by decide)

set_option maxRecDepth 8192 in
example : schemaFuel exSchema ≤ (format exSchema).length + 2 := by decide

end Aldrin.Schema
