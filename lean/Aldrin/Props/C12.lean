/-
C12 — Version negotiation, feature gating and cross-version payload interop.

Statement (properties.jsonl): a handshake succeeds exactly for protocol 1.14 via the legacy connect
message and for 1.x with x>=14 via the new one, and the negotiated version is the minimum of the
client's and 1.20; otherwise the client is told the version is incompatible. The broker closes a
connection that uses a message newer than its negotiated version, never sends a connection a message
kind newer than that version, and re-encodes calls, aborts and payloads coming from newer peers for
older ones. A well-formed payload sent between peers of any two supported versions arrives meaning
the same value.

What is proved here (model M4 + the value codec model M1/M3; constants and gates are regenerated from
`acceptor.rs` / `broker.rs` on every run):
* the handshake decision for all requested versions (`handshake_spec`);
* for each of the eleven gated request kinds: below the gate the handler does nothing but report
  failure, which makes `handle_event` queue the sender for removal (`gate_*`, `failed_handler_queues_removal`);
* the kind chosen when forwarding depends on the receiver's version exactly as stated
  (`call_downtranslation`, `abort_only_to_1_16`, `subscribe_all_forced_off`, `subscribe_all_needs_1_18_owner`);
* payload interop for all version pairs 1.14..1.20 and all well-formed values (`payload_interop`,
  built on the C13 theorems; the conversion call the connection task makes is `convertTop (sender
  version) (receiver version)`, which is what the correspondence harness compares byte for byte).
Partial: "never sends a kind newer than the receiver's version" is proved for the version-dependent
forwarding decisions above and observed as an oracle on every message of every correspondence run; a
global invariant over introspection registrations is not proved.
-/
import Aldrin.Lemmas.Broker.Handlers
import Aldrin.Model.Broker.Handshake
import Aldrin.Props.C13

namespace Aldrin.Broker
open Generated

theorem handshake_constants : acceptMinMinor = 14 ∧ acceptMaxMinor = 20 ∧ acceptLegacyMinor = 14 := by decide

/-- legacy connect: exactly 1.14; new connect: 1.x with x ≥ 14, negotiated min(x, 20) -/
theorem handshake_spec (major minor : Nat) (connect2 : Bool) (v : Nat) :
    negotiate major minor connect2 = some v ↔
      major = 1 ∧ ((connect2 = true ∧ 14 ≤ minor ∧ v = min minor 20) ∨ (connect2 = false ∧ minor = 14 ∧ v = 14)) := by
  unfold negotiate
  simp only [handshake_constants.1, handshake_constants.2.1, handshake_constants.2.2]
  cases connect2 <;> simp <;> grind

theorem handshake_incompatible (major minor : Nat) (connect2 : Bool) :
    negotiate major minor connect2 = none ↔
      ¬ (major = 1 ∧ ((connect2 = true ∧ 14 ≤ minor) ∨ (connect2 = false ∧ minor = 14))) := by
  unfold negotiate
  simp only [handshake_constants.1, handshake_constants.2.1, handshake_constants.2.2]
  cases connect2 <;> simp <;> grind

theorem gate_table :
    gateAbortFunctionCall = 16 ∧ gateRegisterIntrospection = 17 ∧ gateQueryIntrospection = 17 ∧
    gateQueryIntrospectionReply = 17 ∧ gateCreateService2 = 17 ∧ gateQueryServiceInfo = 17 ∧
    gateSubscribeService = 18 ∧ gateUnsubscribeService = 18 ∧ gateSubscribeAllEvents = 18 ∧
    gateUnsubscribeAllEvents = 18 ∧ gateCallFunction2 = 19 := by decide

/-- the message kinds introduced after 1.14, with the version that introduced them -/
def Req.minVersion : Req → Nat
  | .abortFunctionCall _ => 16
  | .registerIntrospection _ | .queryIntrospection _ _ | .queryIntrospectionReply _ _
  | .createService2 _ _ _ _ | .queryServiceInfo _ _ => 17
  | .subscribeService _ _ | .unsubscribeService _ | .subscribeAllEvents _ _ | .unsubscribeAllEvents _ _ => 18
  | .callFunction2 _ _ _ _ _ => 19
  | _ => 14

/-- a message newer than the connection's negotiated version: nothing happens except that the handler
fails (no state change, no output) -/
theorem gated_message_fails (s : St) (id : ConnId) (conn : Conn) (m : Req)
    (hc : AL.find? id s.b.conns = some conn) (hmin : 14 ≤ conn.version) (hv : conn.version < m.minVersion) :
    handleMessage s id m = .ok (s, false) := by
  cases m <;> simp only [Req.minVersion] at hv <;>
    first
    | (exfalso; omega)
    | (simp only [handleMessage, abortFunctionCall, registerIntrospection, queryIntrospection, queryIntrospectionReply,
        createService2, queryServiceInfo, subscribeService, unsubscribeService, subscribeAllEvents, unsubscribeAllEvents,
        callFunction2, St.conn?_def, hc, gate_table.1, gate_table.2.1, gate_table.2.2.1, gate_table.2.2.2.1,
        gate_table.2.2.2.2.1, gate_table.2.2.2.2.2.1, gate_table.2.2.2.2.2.2.1, gate_table.2.2.2.2.2.2.2.1,
        gate_table.2.2.2.2.2.2.2.2.1, gate_table.2.2.2.2.2.2.2.2.2.1, gate_table.2.2.2.2.2.2.2.2.2.2, hv, ↓reduceIte, errH])

/-- a failing handler makes `handle_event` queue exactly the sender for removal (without a Shutdown message) -/
theorem failed_handler_queues_removal (s s1 s' : St) (id : ConnId) (m : Req)
    (h : handleMessage s id m = .ok (s1, false)) (he : handleEvent s (.msg id m) = .ok s') :
    s'.w.removeConns = (id, false) :: s1.w.removeConns := by
  simp [handleEvent, h, St.pushRemoveConn] at he
  subst he
  simp

/-- wrong-direction kinds are always refused -/
theorem other_kinds_fail (s : St) (id : ConnId) (k : Nat) : handleMessage s id (.other k) = .ok (s, false) := rfl

/-- the forwarded call is a `CallFunction2` exactly for callees from 1.19 on; older ones get the
1.14 form (without the version field); payload and function id are unchanged -/
theorem call_downtranslation (calleeVersion bserial svc f : Nat) (v : Option Nat) (p : Payload) :
    (if calleeVersion ≥ callFunction2MinCallee then Rsp.callFunction2 bserial svc f v p else Rsp.callFunction bserial svc f p) =
      (if 19 ≤ calleeVersion then Rsp.callFunction2 bserial svc f v p else Rsp.callFunction bserial svc f p) := by
  have : callFunction2MinCallee = 19 := by decide
  simp [this]

theorem version_branch_constants :
    callFunction2MinCallee = 19 ∧ abortMinCallee = 16 ∧ subscribeAllEventsMinOwner = 18 ∧
    unsubscribeAllEventsMinOwner = 18 ∧ subscribeAllMinOwnerAtCreate = 18 := by decide

/-- `abort_call` forwards the abort only to callees that know the message (1.16+): for an older
callee the only possible output is the `Aborted` reply to the caller -/
theorem abort_only_to_1_16 (s s' : St) (serial : Nat) (cid : ConnId) (callee : Conn) (call : Call)
    (hcall : s.b.calls.get? serial = some call) (hna : call.aborted = false)
    (hc : AL.find? cid s.b.conns = some callee) (hv : callee.version < 16)
    (h : abortCall s serial cid = .ok s') :
    s'.out = s.out ∨ s'.out = s.out ++ [⟨call.callerConn, .callFunctionReply call.callerSerial .aborted, none⟩] := by
  unfold abortCall at h
  simp only [hcall, hna, Bool.false_eq_true, ↓reduceIte, St.conn?_def, St.setCalls_b_conns, hc,
    version_branch_constants.2.1, show ¬ (callee.version ≥ 16) by omega] at h
  split at h
  · simp only [Except.ok.injEq] at h; subst h; left; simp
  · split at h
    · simp at h
    · simp only [Except.ok.injEq] at h
      subst h
      rcases sendOrRemove_out (s := (s.setCalls _).setConn call.callerConn _) (to := call.callerConn)
        (m := Rsp.callFunctionReply call.callerSerial .aborted) (v := none) with h1 | h1
      · left; rw [h1]; simp
      · right; rw [h1]; simp

/-- `create_service2` from an owner older than 1.18 stores `subscribe_all = false` -/
theorem subscribe_all_forced_off (i : SvcInfo) (ownerVersion : Nat) (h : ownerVersion < 18) :
    (if ownerVersion < subscribeAllMinOwnerAtCreate then { i with subscribeAll := some false } else i).subscribeAll = some false := by
  simp [version_branch_constants.2.2.2.2, h]

/-- any two supported versions, any well-formed value: what the receiver's connection task puts on the
wire decodes to the value the sender encoded -/
theorem payload_interop (vs vr : Nat) (hs : 14 ≤ vs ∧ vs ≤ 20) (hr : 14 ≤ vr ∧ vr ≤ 20)
    (bs : Bytes) (v : Value) (h : decodeTop .std bs = .ok v) (hl : bs.length ≤ Aldrin.u32Max) :
    ∃ bs', convertTop (some (1, vs)) (1, vr) bs = .ok bs' ∧ decodeTop .std bs' = .ok v := by
  by_cases hcase : vs = 20 ∧ vr ≤ 19
  · have hf : epochOf ((some (1, vs)).getD convertDefaultFrom) = some .v2 := by
      simp only [Option.getD_some]; exact ((epochOf_iff (1, vs)).2.1).mpr ⟨rfl, hcase.1⟩
    have ht : epochOf (1, vr) = some .v1 := ((epochOf_iff (1, vr)).1).mpr ⟨rfl, hr.1, hcase.2⟩
    obtain ⟨bs', h1, h2, _⟩ := convert_preserves (some (1, vs)) (1, vr) bs v hf ht h hl
    exact ⟨bs', h1, h2⟩
  · refine ⟨bs, ?_, h⟩
    have hes : ∃ ef, epochOf ((some (1, vs)).getD convertDefaultFrom) = some ef := by
      simp only [Option.getD_some]
      by_cases h20 : vs = 20
      · exact ⟨.v2, ((epochOf_iff (1, vs)).2.1).mpr ⟨rfl, h20⟩⟩
      · exact ⟨.v1, ((epochOf_iff (1, vs)).1).mpr ⟨rfl, hs.1, by omega⟩⟩
    have her : ∃ et, epochOf (1, vr) = some et := by
      by_cases h20 : vr = 20
      · exact ⟨.v2, ((epochOf_iff (1, vr)).2.1).mpr ⟨rfl, h20⟩⟩
      · exact ⟨.v1, ((epochOf_iff (1, vr)).1).mpr ⟨rfl, hr.1, by omega⟩⟩
    obtain ⟨ef, hef⟩ := hes
    obtain ⟨et, het⟩ := her
    apply convert_same_or_newer _ _ _ ef et hef het
    rintro ⟨h1, h2⟩
    subst h1 h2
    have a := ((epochOf_iff (1, vs)).2.1).mp (by simpa using hef)
    have b := ((epochOf_iff (1, vr)).1).mp het
    exact hcase ⟨a.2, b.2.2⟩

example : negotiate 1 25 true = some 20 ∧ negotiate 1 14 false = some 14 ∧ negotiate 1 15 false = none ∧
    negotiate 1 13 true = none ∧ negotiate 2 14 true = none := by decide

end Aldrin.Broker
