/-
C19 — Client-side discovery and lifetime views converge to the bus state.

Statement (properties.jsonl): once bus activity stops and pending notifications are consumed, a discoverer
reports for each of its entries exactly the objects that currently exist, match the entry and carry all
services the entry requires, with their current ids, and it emitted a created/destroyed event for each
transition in order. A bound lifetime resolves iff its scope has ended or never existed, and never while
the scope is alive; waiting for or finding an object returns one that existed at some point during the wait.

Model (M7, `Model/Discoverer.lean`): the three entry state machines of `aldrin/src/discoverer/` (any object,
specific object with services, bare object) as folds over bus events, with every `debug_assert!` of that
code as an explicit failure. The bus itself is specified as the fold of its events (`Bus`), and a history
is admissible (`okHist`) when it creates what does not exist, destroys what exists and keeps services
inside their object's lifetime — which is what the broker produces (C03, C10).

Proved here, for ALL admissible histories of any length:
* none of the entries' `debug_assert!`s can fail and after the history every entry is exactly the view of
  the final bus state it is meant to be (`entry_converges`, from the per-event lemmas for the three kinds);
* what that view is: a bare entry reports its object iff it exists, with the current cookie
  (`bare_entry_view`); an object-with-services entry reports it iff every required service is live, with
  the object's current cookie and the services' current cookies (`services_entry_view`); an any-object entry
  reports exactly the existing objects that have every required service, again with current cookies
  (`any_entry_view`);
* every event an entry emits is the transition of what it reports for one object — Created when the object
  enters, Destroyed (with the cookie it had) when it leaves, nothing otherwise — and no other object's
  report changes in that step (`events_are_transitions`).
* lifetimes (`Model/Lifetime.lean`: the loop of `Lifetime::poll_ended` as a fold over the events of its listener,
  the history of the scope's UUID on the bus as creations with fresh cookies and destructions): for EVERY history
  and every point of it at which the lifetime is bound — to the living id, an id of the past, or one that never
  existed — once the events so far are handled the lifetime has ended iff its scope does not live
  (`lifetime_ended_iff_scope_gone`; since it holds for every prefix, it never ends while the scope lives).
Partial: `Handle::find_object` / `wait_for_object` are one-shot uses of a discoverer and are checked by an oracle on the
real code only; that the bus listener delivers exactly the admissible history (filters, current enumeration on
(re)start, stop draining) is tied by the correspondence runs against a real broker and client, not proved.
-/
import Aldrin.Lemmas.Discoverer
import Aldrin.Lemmas.Lifetime

namespace Aldrin.Disc
open Aldrin.Broker

theorem entry_converges (es : List BusEv) (en : Entry) (b : Bus) (hr : Rel en b) (hi : b.Inv) (ho : okHist b es) :
    ∃ en' devs, en.run es = .ok (en', devs) ∧ Rel en' (b.run es) ∧ (b.run es).Inv := entry_run es en b hr hi ho

/-- a freshly built (or reset) discoverer entry is the view of the empty bus, so `entry_converges` applies to
every history from the start -/
theorem new_entries_related (k : Nat) (o : Uuid) (services : List Uuid) (hn : services.Nodup) :
    Rel (Entry.mkAny k services) {} ∧ Rel (Entry.mkSpecific k o services) {} :=
  ⟨rel_new_any k services hn, rel_new_specific k o services hn⟩

theorem events_are_transitions {en : Entry} {b : Bus} {e : BusEv} (hr : Rel en b) (hi : b.Inv) (ho : b.okEv e) :
    ∃ en' dev, en.handle e = .ok (en', dev) ∧ Rel en' (b.apply e) ∧ en'.key = en.key ∧
      (∃ ou, dev = transition en.key ou (en.reports ou) (en'.reports ou) ∧ ∀ x, x ≠ ou → en'.reports x = en.reports x) :=
  entry_step hr hi ho

theorem bare_entry_view {k : Nat} {o : Uuid} {cookie : Option Cookie} {b : Bus} (h : Rel (.bare k o cookie) b) (ou : Uuid) :
    (Entry.bare k o cookie).reports ou = if ou = o then AL.find? o b.objs else none := bare_reports h ou

theorem services_entry_view {k : Nat} {o : Uuid} {cookie : Option Cookie} {svcs : List (Uuid × Option Cookie)} {b : Bus}
    (h : Rel (.withSvcs k o cookie svcs) b) :
    (cookie = if svcs.all (fun p => (AL.find? (o, p.1) b.svcs).isSome) then AL.find? o b.objs else none) ∧
    ∀ s c, AL.find? s svcs = some c → c = (AL.find? (o, s) b.svcs).map (·.2) := with_reports h

theorem any_entry_view {k : Nat} {svcs : List (Uuid × List (Uuid × Cookie))} {created : List (Uuid × Cookie)} {b : Bus}
    (h : Rel (.any k svcs created) b) (ou : Uuid) :
    (Entry.any k svcs created).reports ou = (if hasAll svcs b ou then AL.find? ou b.objs else none) ∧
    ∀ s m, AL.find? s svcs = some m → AL.find? ou m = (AL.find? (ou, s) b.svcs).map (·.2) := any_reports h ou

/-- A bound lifetime resolves iff its scope has ended or never existed: `pre` is what happened to the scope's UUID
before the lifetime was bound, `post` what has happened since; `t` is the cookie the lifetime is bound to. -/
theorem lifetime_ended_iff_scope_gone (t : Nat) (pre post : List Lifetime.BOp) (b1 b2 : Lifetime.Bus)
    (h1 : ({} : Lifetime.Bus).run pre = some b1) (h2 : b1.run post = some b2) (ht : t ∈ b1.used ∨ t ∉ b2.used) :
    (Lifetime.run t {} (Lifetime.currentEvents b1 ++ Lifetime.eventsFrom b1 post)).ended = true ↔ b2.alive ≠ some t :=
  Lifetime.ended_iff_scope_gone t pre post b1 b2 h1 h2 ht

/-! non-vacuity: a scope that lives when the lifetime is bound and ends later; one of the past; one re-created -/
example : (({} : Lifetime.Bus).run [.create 1]).bind (fun b1 => (b1.run [.destroy, .create 2]).map (fun b2 =>
    ((Lifetime.run 1 {} (Lifetime.currentEvents b1 ++ Lifetime.eventsFrom b1 [.destroy, .create 2])).ended, b2.alive))) =
    some (true, some 2) := by decide
example : (({} : Lifetime.Bus).run [.create 1]).map (fun b1 =>
    (Lifetime.run 1 {} (Lifetime.currentEvents b1 ++ Lifetime.eventsFrom b1 [])).ended) = some false := by decide
example : (({} : Lifetime.Bus).run [.create 1, .destroy, .create 2]).map (fun b1 =>
    (Lifetime.run 1 {} (Lifetime.currentEvents b1 ++ Lifetime.eventsFrom b1 [])).ended) = some true := by decide

/-! non-vacuity: object 1 gets services 5 and 6, is re-created under a new cookie with only service 5 -/
example : (match (Entry.mkAny 0 [5, 6]).run [.objCreated ⟨1, 10⟩, .svcCreated ⟨⟨1, 10⟩, 5, 11⟩, .svcCreated ⟨⟨1, 10⟩, 6, 12⟩,
      .svcDestroyed ⟨⟨1, 10⟩, 5, 11⟩, .svcDestroyed ⟨⟨1, 10⟩, 6, 12⟩, .objDestroyed ⟨1, 10⟩,
      .objCreated ⟨1, 20⟩, .svcCreated ⟨⟨1, 20⟩, 5, 21⟩] with
    | .ok (en, devs) => (en.found, devs) | .error _ => ([], [])) =
    ([], [⟨0, .created, ⟨1, 10⟩⟩, ⟨0, .destroyed, ⟨1, 10⟩⟩]) := by decide

end Aldrin.Disc
