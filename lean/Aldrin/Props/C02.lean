/-
C02 — Every accepted call gets exactly one correctly routed reply.

Statement (properties.jsonl): for every function call a connected client sends, that client receives
exactly one reply carrying its own serial, as long as it stays connected and one of these happens: the
service owner answers, the caller aborts, the service does not exist or it (or its object) is
destroyed, or the owner disconnects. The reply carries the owner's result and payload unchanged when
the owner answered first, otherwise the synthesized outcome (invalid-service or aborted); replies from
non-owners, duplicate replies and replies after an abort are never delivered.

What is proved here (model M4).

*Every history* (`Broker.run`, any interleaving of requests of any connections, connects, disconnects in the four
ways, shutdown), from any state:
* `call_replies_balance`: for a connection `c` that is there at the end with its task running and a caller serial
  `n`: replies with serial `n` put into `c`'s queue + (1 if a call `(c, n)` is pending at the end) = (1 if one was
  pending at the start) + the calls `(c, n)` the broker took. No invariant is assumed: the law holds from any state.
* `replies_never_exceed_calls`: so never more replies than calls — a reply from a non-owner, a second reply, a reply
  after an abort, an abort of an unknown call, the destruction of services and objects, disconnects of anyone never
  add a reply `c` did not ask for.
* `well_behaved_caller_exactly_once`: if `c` sends a call with serial `n` only while no earlier one with that serial
  is pending (and `CallFunction2` only with a version that has it), replies + pending = calls: each call is answered
  exactly once, except that the last may still be pending. Reuse of a serial after a reply or an abort is covered.
* `fresh_connection_balance`: a connection starts with no pending call.

*Every reachable state* (`Reachable`: states of `Broker::run` between two events, fewer than 2³² calls pending at a
time — with 2³² the implementation's `SerialMap::insert` does not return), by the invariant `XrefP`
(`Lemmas/Broker/XP.lean`, `Xref.lean`, `Xref2.lean`) between the per-connection call tables, `function_calls` and
the two deferred lists:
* `pending_entry_is_live_call`, `live_call_is_pending_at_its_caller`: an entry `n ↦ bs` of connection `c` is the
  pending, not aborted call `bs` of `(c, n)`, and every call that is not aborted is in the table of its caller, which
  is still connected;
* `owner_reply_delivered`: when the owner of the called object answers `bs` with result `r`, the turn of the broker
  puts exactly one message into a queue: `CallFunctionReply(n, r)` for `c` — the caller's serial, the owner's result
  and payload — and the call is gone from both tables;
* `foreign_reply_not_delivered`: a reply from any other connection puts nothing into any queue and the call stays;
* `abort_is_answered`: when `c` aborts its pending call `(c, n)` and is still served after the turn, exactly one
  `CallFunctionReply` with serial `n` was put into its queue in that turn, it says `Aborted`, and the call is no longer
  pending at `c` — whatever else the turn does (a callee whose task is gone is removed with all it owns).

*Every state, one handler* (as before): `no_service`, `owner_reply_forwarded`, `unknown_reply_ignored`,
`foreign_reply_ignored`, `abort_answers_once`, `reply_after_abort_is_dropped`, `abort_twice_silent`.

*Every reachable state, the callee's side* (`Lemmas/Broker/{XCallee,CalView,CalFrame,Callee}.lean`: the invariant `Cal`
between `function_calls` and `Service::function_calls`, together with the registry invariant of C03):
* `pending_call_has_live_callee`: every call in the broker's table is held by the service entry it is for; that
  service is registered, its object exists and lists it, and the owner of the object is connected;
* `pending_entry_has_live_callee`: hence a call that is still pending at its caller has a live callee. Read the other
  way round: once the service has been destroyed, or its object, or the owner has disconnected (in any of the four
  ways), the call is no longer pending at the caller — and by `well_behaved_caller_exactly_once` (replies + pending =
  calls) exactly one reply has then been delivered for it (`ended_callee_means_answered` spells out the arithmetic);
* `service_holds_only_live_calls`: what a service entry holds is a call in the table for that very service, once.

Partial: that the synthesized reply says `InvalidService` (rather than being the owner's or `Aborted`) is tied by the
correspondence runs (all interleavings the harness generates, with serial reuse, also right after an abort).
-/
import Aldrin.Lemmas.Broker.Events
import Aldrin.Lemmas.Broker.Xref2
import Aldrin.Lemmas.Broker.RepExt
import Aldrin.Lemmas.Broker.Callee
import Aldrin.Lemmas.Broker.SvcCalls

set_option linter.unusedSimpArgs false
set_option linter.unusedVariables false
namespace Aldrin.Broker
open Generated


theorem no_service {s : St} {id serial svc f v p} {c : Conn}
    (hc : AL.find? id s.b.conns = some c) (hs : AL.find? svc s.b.svcUuids = none) :
    callFunctionImpl s id serial svc f v p = .ok (s.send id (.callFunctionReply serial .invalidService)) :=
  call_invalid_service hc hs

theorem unknown_reply_ignored {s : St} {id serial r} (hn : s.b.calls.get? serial = none) :
    callFunctionReply s id serial r = .ok (s, true) := reply_unknown_ignored hn

theorem foreign_reply_ignored {s : St} {id serial r} {call : Call} {o : Obj} {c : Conn}
    (hc : AL.find? id s.b.conns = some c) (hcall : s.b.calls.get? serial = some call)
    (ho : AL.find? call.calleeObj s.b.objs = some o) (hne : o.conn ≠ id) :
    callFunctionReply s id serial r = .ok (s, true) := reply_foreign_ignored hc hcall ho hne

theorem owner_reply_forwarded {s : St} {id serial r} {call : Call} {o : Obj} {c caller : Conn} {sv : Svc} {x}
    (hc : AL.find? id s.b.conns = some c) (hcall : s.b.calls.get? serial = some call)
    (ho : AL.find? call.calleeObj s.b.objs = some o) (hown : o.conn = id)
    (hsv : AL.find? (call.calleeObj, call.calleeSvc) s.b.svcs = some sv)
    (hna : call.aborted = false)
    (hcaller : AL.find? call.callerConn s.b.conns = some caller) (halive : caller.alive = true)
    (hreg : AL.find? call.callerSerial caller.calls = some x) :
    ∃ s', callFunctionReply s id serial r = .ok (s', true) ∧
      s'.b.calls.get? serial = none ∧
      s'.out = s.out ++ [⟨call.callerConn, .callFunctionReply call.callerSerial r, some c.version⟩] :=
  reply_owner_forwarded hc hcall ho hown hsv hna hcaller halive hreg

theorem reply_after_abort_is_dropped {s : St} {id serial r} {call : Call} {o : Obj} {c : Conn} {sv : Svc}
    (hc : AL.find? id s.b.conns = some c) (hcall : s.b.calls.get? serial = some call)
    (ho : AL.find? call.calleeObj s.b.objs = some o) (hown : o.conn = id)
    (hsv : AL.find? (call.calleeObj, call.calleeSvc) s.b.svcs = some sv) (ha : call.aborted = true) :
    ∃ s', callFunctionReply s id serial r = .ok (s', true) ∧ s'.out = s.out ∧ s'.b.calls.get? serial = none :=
  reply_after_abort_dropped hc hcall ho hown hsv ha

theorem abort_answers_once {s s' : St} {serial cid} {call : Call} {caller : Conn} {x}
    (hcall : s.b.calls.get? serial = some call) (hna : call.aborted = false)
    (hcaller : AL.find? call.callerConn s.b.conns = some caller) (hreg : AL.find? call.callerSerial caller.calls = some x)
    (hnc : AL.find? cid s.b.conns = none) (h : abortCall s serial cid = .ok s') :
    s'.b.calls.get? serial = some { call with aborted := true } ∧
    (caller.alive = true → s'.out = s.out ++ [⟨call.callerConn, .callFunctionReply call.callerSerial .aborted, none⟩]) :=
  abort_marks_and_answers hcall hna hcaller hreg hnc h

/-- an already aborted call is not answered again -/
theorem abort_twice_silent {s : St} {serial cid} {call : Call}
    (hcall : s.b.calls.get? serial = some call) (ha : call.aborted = true) : abortCall s serial cid = .ok s := by
  unfold abortCall; simp [hcall, ha]

/-! non-vacuity: call, abort by the caller, late reply by the owner (callee is 1.14: no abort forwarded) -/
example : (match run {} {} [.newConn 0 14, .newConn 1 20, .msg 0 (.createObject 1 5), .msg 0 (.createService 2 0 6 1),
      .msg 1 (.callFunction 9 1 0 [3, 7]), .msg 1 (.abortFunctionCall 9), .msg 0 (.callFunctionReply 0 (.ok [3, 8]))] with
    | .ok (b, _, outs) => (b.calls.elems.length, outs.drop 4) | .error _ => (99, [])) =
    (0, [[⟨0, .callFunction 0 1 0 [3, 7], some 20⟩], [⟨1, .callFunctionReply 9 .aborted, none⟩], []]) := by decide


/-! ### every history: the balance of calls and replies -/


/-- the connection is known to the broker and its task still takes messages -/
def Live (b : Broker) (c : ConnId) : Prop := ∃ conn, AL.find? c b.conns = some conn ∧ conn.alive = true

/-- 1 if the broker holds a pending call of connection `c` under the caller's serial `n`, else 0 -/
def pendingCall (b : Broker) (c n : Nat) : Nat :=
  match AL.find? c b.conns with
  | some conn => if (AL.find? n conn.calls).isSome then 1 else 0
  | none => 0

/-- how many `CallFunctionReply` messages with serial `n` were put into the queue of connection `c` -/
def callReplies (c n : Nat) (outs : List (List Out)) : Nat := reps c n outs.flatten

theorem live_iff_ck {b : Broker} {w : Work} {c : ConnId} : Live b c ↔ ∃ t, ck ⟨b, w, []⟩ c = some (t, true) := by
  unfold Live ck
  constructor
  · rintro ⟨conn, h1, h2⟩; exact ⟨conn.calls, by simp [h1, h2]⟩
  · rintro ⟨t, h⟩
    split at h
    · rename_i conn hc; exact ⟨conn, hc, by simp at h; exact h.2⟩
    · simp at h

theorem pendingCall_of_ck {b : Broker} {w : Work} {c n : Nat} {t : CallTbl} {a : Bool} (h : ck ⟨b, w, []⟩ c = some (t, a)) :
    pendingCall b c n = pendC t n := by
  unfold ck at h; unfold pendingCall pendC
  split at h
  · rename_i conn hc; simp at h; simp [hc, h.1]
  · simp at h

theorem pendingCall_le_one (b : Broker) (c n : Nat) : pendingCall b c n ≤ 1 := by
  unfold pendingCall; split
  · split <;> omega
  · omega

/-- **Balance of calls and replies, every history.** Start in any state of the broker and run any history in which
connection `c` does not arrive anew. If `c` is there at the end with its task running, it was so all along, and the
replies with serial `n` put into its queue, plus the call `(c, n)` still pending at the end, are exactly the call that
was pending at the start plus the calls `(c, n)` the broker took. -/
theorem call_replies_balance (es : List Event) (b : Broker) (w : Work) (b' : Broker) (w' : Work) (outs : List (List Out))
    (hr : run b w es = .ok (b', w', outs)) (c n : Nat) (hn : ∀ v, Event.newConn c v ∉ es) (hl : Live b' c) :
    Live b c ∧ callReplies c n outs + pendingCall b' c n = pendingCall b c n + taken c n b w es := by
  obtain ⟨t', ht⟩ := (live_iff_ck (w := w')).1 hl
  obtain ⟨t, e, q⟩ := run_bal (n := n) es b w b' w' outs hr hn t' ht
  exact ⟨(live_iff_ck (w := w)).2 ⟨t, e⟩, by rw [pendingCall_of_ck ht, pendingCall_of_ck e]; exact q⟩

/-- Never more replies than calls: whatever the owners of services, other connections and `c` itself do — replies from
connections that do not own the service, second replies, replies after an abort, aborts of unknown calls, destruction
of services and objects, disconnects — the number of replies with serial `n` that reach `c` is at most the number of
calls it sent with that serial (plus the one that was pending at the start). -/
theorem replies_never_exceed_calls (es : List Event) (b : Broker) (w : Work) (b' : Broker) (w' : Work) (outs : List (List Out))
    (hr : run b w es = .ok (b', w', outs)) (c n : Nat) (hn : ∀ v, Event.newConn c v ∉ es) (hl : Live b' c) :
    callReplies c n outs + pendingCall b' c n ≤ pendingCall b c n + callReqs c n es := by
  have := (call_replies_balance es b w b' w' outs hr c n hn hl).2
  have := taken_le c n es b w
  omega

/-- **Exactly one reply per call.** If `c` keeps to the protocol for serial `n` (it sends a call with serial `n` only
while no earlier call with that serial is pending; `wellBehaved`), then replies + the pending call = calls: every call
`(c, n)` but possibly the last has been answered exactly once, the last one is answered or still pending, and nothing
else with that serial was delivered. Serial reuse after a reply or an abort is covered: the statement counts. -/
theorem well_behaved_caller_exactly_once (es : List Event) (b : Broker) (w : Work) (b' : Broker) (w' : Work)
    (outs : List (List Out)) (hr : run b w es = .ok (b', w', outs)) (c n : Nat) (hn : ∀ v, Event.newConn c v ∉ es)
    (hl : Live b' c) (hwb : wellBehaved c n b w es = true) :
    callReplies c n outs + pendingCall b' c n = pendingCall b c n + callReqs c n es := by
  obtain ⟨t', ht⟩ := (live_iff_ck (w := w')).1 hl
  have h1 := (call_replies_balance es b w b' w' outs hr c n hn hl).2
  have h2 := taken_eq_callReqs (n := n) es b w b' w' outs hr hn hwb t' ht
  omega

/-- a connection starts with no pending call: for a history that begins with the arrival of `c` -/
theorem fresh_connection_balance (v : Nat) (es : List Event) (b : Broker) (w : Work) (b' : Broker) (w' : Work) (outs : List (List Out))
    (hr : run b w (.newConn c v :: es) = .ok (b', w', outs)) (n : Nat) (hn : ∀ v, Event.newConn c v ∉ es) (hl : Live b' c) :
    callReplies c n outs + pendingCall b' c n = taken c n b w (.newConn c v :: es) ∧
    taken c n b w (.newConn c v :: es) ≤ callReqs c n es := by
  simp only [run] at hr
  split at hr
  · simp at hr
  · rename_i b1 w1 out hstep
    split at hr
    · simp at hr
    · rename_i b2 w2 outs' hrun
      simp only [Except.ok.injEq, Prod.mk.injEq] at hr
      obtain ⟨rfl, rfl, rfl⟩ := hr
      obtain ⟨hl1, q⟩ := call_replies_balance es b1 w1 _ _ _ hrun c n hn hl
      obtain ⟨t1, e1⟩ := (live_iff_ck (w := w1)).1 hl1
      -- the turn that adds `c`
      have hfirst : reps c n out + pendingCall b1 c n = 0 := by
        unfold step at hstep
        split at hstep
        · simp at hstep
        · rename_i s1 h1
          split at hstep
          · simp at hstep
          · rename_i s2 h2
            simp only [Except.ok.injEq, Prod.mk.injEq] at hstep
            obtain ⟨rfl, rfl, rfl⟩ := hstep
            simp only [handleEvent] at h1
            split at h1
            · simp at h1
            · simp only [Except.ok.injEq] at h1; subst h1
              obtain ⟨t0, e0, q0⟩ := processLoop_bal (c := c) (n := n) _ _ _ h2 t1 e1
              simp only [ck_stat, ck_setConn, ↓reduceIte, Option.some.injEq, Prod.mk.injEq] at e0
              rw [pendingCall_of_ck e1]
              rw [← e0.1] at q0
              simpa [pendC, AL.find?] using q0
      have ht : taken c n b w (.newConn c v :: es) = taken c n b1 w1 es := by simp [taken, takes, hstep]
      refine ⟨?_, ht ▸ taken_le c n es b1 w1⟩
      simp only [callReplies, List.flatten_cons, reps_append] at q ⊢
      omega


/-! non-vacuity: connection 1 calls with serial 9, aborts, calls again with serial 9 while the owner (1.20, so the abort is
forwarded) still holds the first call; the owner then answers the first call (dropped) and the second (delivered) -/
def reuseHist : List Event :=
  [.newConn 0 20, .newConn 1 20, .msg 0 (.createObject 1 5), .msg 0 (.createService 2 0 6 1),
   .msg 1 (.callFunction 9 1 0 [3, 7]), .msg 1 (.abortFunctionCall 9), .msg 1 (.callFunction 9 1 0 [3, 8]),
   .msg 0 (.callFunctionReply 0 (.ok [3, 1])), .msg 0 (.callFunctionReply 1 (.ok [3, 2]))]

example : (match run {} {} reuseHist with
    | .ok (b, _, outs) => (callReplies 1 9 outs, pendingCall b 1 9, callReqs 1 9 reuseHist, taken 1 9 {} {} reuseHist,
        (outs.flatten.filter (isRep 1 9)).map (·.msg))
    | .error _ => (99, 99, 99, 99, [])) =
    (2, 0, 2, 2, [.callFunctionReply 9 .aborted, .callFunctionReply 9 (.ok [3, 2])]) := by decide

example : wellBehaved 1 9 {} {} reuseHist = true := by decide

/-! ### every reachable state: the tables agree, the owner's reply reaches the caller -/


/-- **The caller's table and the broker's table agree, every reachable state.** An entry `n ↦ bs` in the table of
connection `c` is the pending call `bs` of `(c, n)`, not aborted … -/
theorem pending_entry_is_live_call {b : Broker} {w : Work} (h : Reachable b w) {c : ConnId} {conn : Conn} {n bs : Nat} {callee : ConnId}
    (hc : AL.find? c b.conns = some conn) (he : AL.find? n conn.calls = some (bs, callee)) :
    ∃ call, b.calls.get? bs = some call ∧ call.callerSerial = n ∧ call.callerConn = c ∧ call.aborted = false := by
  have hi := h.idle
  have hk : ck ⟨b, w, []⟩ c = some (conn.calls, conn.alive) := ck_of_find hc
  rcases hi.x.a c _ _ n bs callee hk he with h1 | ⟨_, r, hr⟩
  · exact h1
  · rw [hi.r] at hr; simp at hr

/-- … and a call that is not aborted is in the table of its caller, which is still there, under the caller's serial. -/
theorem live_call_is_pending_at_its_caller {b : Broker} {w : Work} (h : Reachable b w) {bs : Nat} {call : Call}
    (hg : b.calls.get? bs = some call) (hna : call.aborted = false) :
    ∃ conn callee, AL.find? call.callerConn b.conns = some conn ∧ AL.find? call.callerSerial conn.calls = some (bs, callee) := by
  have hi := h.idle
  rcases hi.x.b bs call hg hna with ⟨t, al, callee, hk, hf⟩ | ⟨_, y, hy⟩ | ⟨_, _, _, h3, _⟩
  · unfold ck at hk
    split at hk
    · rename_i conn hconn
      simp at hk
      exact ⟨conn, callee, hconn, by rw [hk.1]; exact hf⟩
    · simp at hk
  · rw [hi.a] at hy; simp at hy
  · simp at h3

/-- `reply_owner_forwarded` with everything the turn needs -/
theorem reply_owner_forwarded_full {s : St} {id serial r} {call : Call} {o : Obj} {c caller : Conn} {sv : Svc} {x}
    (hc : AL.find? id s.b.conns = some c) (hcall : s.b.calls.get? serial = some call)
    (ho : AL.find? call.calleeObj s.b.objs = some o) (hown : o.conn = id)
    (hsv : AL.find? (call.calleeObj, call.calleeSvc) s.b.svcs = some sv)
    (hna : call.aborted = false)
    (hcaller : AL.find? call.callerConn s.b.conns = some caller) (halive : caller.alive = true)
    (hreg : AL.find? call.callerSerial caller.calls = some x) :
    ∃ s', callFunctionReply s id serial r = .ok (s', true) ∧
      s'.b.calls.get? serial = none ∧
      s'.out = s.out ++ [⟨call.callerConn, .callFunctionReply call.callerSerial r, some c.version⟩] ∧
      s'.w = s.w ∧
      AL.find? call.callerConn s'.b.conns = some { caller with calls := AL.erase call.callerSerial caller.calls } := by
  unfold callFunctionReply
  simp only [St.conn?_def, hc, hcall, ho, hown, ne_eq, not_true_eq_false, ↓reduceIte, St.setCalls_b_svcs, hsv,
    hna, Bool.false_eq_true, St.setSvcs_b_conns, St.setCalls_b_conns, hcaller, hreg, Option.isNone_some, okH]
  have hcc : AL.find? call.callerConn (((s.setCalls (s.b.calls.remove serial)).setSvcs
      (AL.insert (call.calleeObj, call.calleeSvc) { sv with calls := sremove serial sv.calls } s.b.svcs)).setConn call.callerConn
        { caller with calls := AL.erase call.callerSerial caller.calls }).b.conns =
      some { caller with calls := AL.erase call.callerSerial caller.calls } := by simp
  have hsd := send_alive (m := Rsp.callFunctionReply call.callerSerial r) (v := some c.version) hcc halive
  refine ⟨_, rfl, ?_, ?_, ?_, ?_⟩
  · unfold St.sendOrRemove
    simp only [hsd.2, ↓reduceIte]
    simp [SerialMap.get?, SerialMap.remove]
  · unfold St.sendOrRemove
    simp only [hsd.2, ↓reduceIte, hsd.1]
    simp
  · unfold St.sendOrRemove
    simp only [hsd.2, ↓reduceIte]
    simp [St.send, St.setConn, St.setSvcs, St.setCalls, St.setConns, St.stat, St.setOut]
    split <;> (try split) <;> rfl
  · simp

theorem loopFuel_pos (s : St) : ∃ k, loopFuel s = k + 1 := by
  have : 0 < loopFuel s := by unfold loopFuel; exact Nat.lt_of_lt_of_le (by decide : 0 < 1000) (Nat.le_add_right _ _)
  exact ⟨loopFuel s - 1, by omega⟩

/-- **The owner's reply reaches the caller, unchanged.** In a reachable state let connection `c` (task running) have
the pending call `n ↦ bs`. If the connection that owns the called object sends `CallFunctionReply(bs, r)`, the turn
of the broker puts exactly one message into a queue: `CallFunctionReply(n, r)` for `c` — the caller's serial, the
owner's result — and the call is gone from both tables. -/
theorem owner_reply_delivered {b b' : Broker} {w w' : Work} (h : Reachable b w) {c : ConnId} {conn : Conn} {n bs : Nat} {callee : ConnId}
    (hc : AL.find? c b.conns = some conn) (hal : conn.alive = true) (he : AL.find? n conn.calls = some (bs, callee))
    {id : ConnId} {sender : Conn} {r : CallResult} {call : Call} {obj : Obj} {out : List Out}
    (hid : AL.find? id b.conns = some sender) (hg : b.calls.get? bs = some call)
    (ho : AL.find? call.calleeObj b.objs = some obj) (hown : obj.conn = id)
    (hs : step b w (.msg id (.callFunctionReply bs r)) = .ok (b', w', out)) :
    out = [⟨c, .callFunctionReply n r, some sender.version⟩] ∧ pendingCall b' c n = 0 ∧ b'.calls.get? bs = none := by
  obtain ⟨call', hg', h1, h2, h3⟩ := pending_entry_is_live_call h hc he
  rw [hg] at hg'; simp at hg'; subst hg'
  have hi := h.idle
  unfold step at hs
  simp only [handleEvent, handleMessage] at hs
  cases hsv : AL.find? (call.calleeObj, call.calleeSvc) b.svcs with
  | none =>
    simp [callFunctionReply, St.conn?, hid, hg, ho, hown, hsv] at hs
  | some svc =>
    obtain ⟨s1, hcf, hget, hout, hw, hconn'⟩ := reply_owner_forwarded_full (s := ⟨b, w, []⟩) (r := r) hid hg ho hown hsv h3
      (by rw [h2]; exact hc) hal (by rw [h1]; exact he)
    simp only [hcf, ↓reduceIte] at hs
    generalize hS : (s1.stat fun st => { st with messagesReceived := st.messagesReceived + 1 }) = S at hs
    have hSw : S.w.idle := by rw [← hS]; simp only [St.stat]; rw [hw]; exact hi.i
    obtain ⟨k, hk⟩ := loopFuel_pos S
    rw [hk, processLoop_of_idle hSw] at hs
    simp only [Except.ok.injEq, Prod.mk.injEq] at hs
    obtain ⟨rfl, rfl, rfl⟩ := hs
    subst hS
    refine ⟨by simp [hout, h1, h2], ?_, by simpa using hget⟩
    rw [h2] at hconn'
    simp [pendingCall, hconn', h1, AL.find?_erase]

/-- **A reply from a connection that does not own the called object is not delivered**: nothing is put into any queue
and the call stays pending. -/
theorem foreign_reply_not_delivered {b b' : Broker} {w w' : Work} (h : Reachable b w) {bs : Nat}
    {id : ConnId} {sender : Conn} {r : CallResult} {call : Call} {obj : Obj} {out : List Out}
    (hid : AL.find? id b.conns = some sender) (hg : b.calls.get? bs = some call)
    (ho : AL.find? call.calleeObj b.objs = some obj) (hown : obj.conn ≠ id)
    (hs : step b w (.msg id (.callFunctionReply bs r)) = .ok (b', w', out)) :
    out = [] ∧ b'.calls.get? bs = some call ∧ b'.conns = b.conns := by
  have hi := h.idle
  unfold step at hs
  simp only [handleEvent, handleMessage] at hs
  rw [reply_foreign_ignored (s := ⟨b, w, []⟩) hid hg ho hown] at hs
  simp only [↓reduceIte] at hs
  generalize hS : (({ b := b, w := w, out := [] } : St).stat fun st => { st with messagesReceived := st.messagesReceived + 1 }) = S at hs
  have hSw : S.w.idle := by rw [← hS]; exact hi.i
  obtain ⟨k, hk⟩ := loopFuel_pos S
  rw [hk, processLoop_of_idle hSw] at hs
  simp only [Except.ok.injEq, Prod.mk.injEq] at hs
  obtain ⟨rfl, rfl, rfl⟩ := hs
  subst hS
  exact ⟨rfl, by simpa using hg, rfl⟩



/-! ### every reachable state: an abort is answered in the same turn -/

/-- what `abort_call` does to a live call whose caller is there with its task running -/
theorem abortCall_live_spec {sv} {s s' : St} (hx : XrefP sv s) {c : ConnId} {conn : Conn} {n bs : Nat} {callee cid : ConnId}
    (hc : AL.find? c s.b.conns = some conn) (hal : conn.alive = true) (he : AL.find? n conn.calls = some (bs, callee))
    (hR : ∀ r, (n, c, r) ∉ s.w.removeCalls) (h : abortCall s bs cid = .ok s') :
    repl c n s'.out = repl c n s.out ++ [⟨c, .callFunctionReply n .aborted, none⟩] ∧
    ck s' c = some (AL.erase n conn.calls, true) := by
  have hk : ck s c = some (conn.calls, conn.alive) := ck_of_find hc
  obtain ⟨call, hg, rfl, rfl, h3⟩ : ∃ call, s.b.calls.get? bs = some call ∧ call.callerSerial = n ∧ call.callerConn = c ∧ call.aborted = false := by
    rcases hx.a c _ _ n bs callee hk he with h1 | ⟨_, r, hr⟩
    · exact h1
    · exact absurd hr (hR r)
  rw [abortCall_eq] at h
  simp only [hg, h3, Bool.false_eq_true, ↓reduceIte] at h
  have f2 := notifyCallee_frame (s.setCalls (s.b.calls.set bs { call with aborted := true })) cid bs
  have hk2 : ck (notifyCallee (s.setCalls (s.b.calls.set bs { call with aborted := true })) cid bs) call.callerConn = some (conn.calls, conn.alive) := by
    rw [f2.1 call.callerConn]; simpa using hk
  unfold ck at hk2
  split at hk2
  · rename_i caller hcaller
    simp only [Option.some.injEq, Prod.mk.injEq] at hk2
    have hcaller' : (notifyCallee (s.setCalls (s.b.calls.set bs { call with aborted := true })) cid bs).conn? call.callerConn = some caller := hcaller
    simp only [hcaller'] at h
    split at h
    · simp at h
    · simp only [Except.ok.injEq] at h; subst h
      have hal' : caller.alive = true := by rw [hk2.2]; exact hal
      constructor
      · simp only [sendOrRemove_out_eq, send_snd_alive, aliveB_setConn, ↓reduceIte, hal', St.setConn_out, repl_append]
        have hn : repl call.callerConn call.callerSerial (notifyCallee (s.setCalls (s.b.calls.set bs { call with aborted := true })) cid bs).out = repl call.callerConn call.callerSerial s.out := by
          unfold notifyCallee
          split
          · split
            · simp only [sendOrRemove_out_eq]
              split <;> simp [repl, isRep]
            · rfl
          · rfl
        rw [hn]
        simp [repl, isRep]
      · simp only [ck_sendOrRemove, ck_setConn, ↓reduceIte, hk2.1, hal']
  · simp at hk2

/-- **An abort is answered in the same turn.** In a reachable state let connection `c` (version with
`AbortFunctionCall`) have the pending call `n ↦ bs`. If `c` aborts it and is still served after the turn, then exactly
one `CallFunctionReply` with serial `n` was put into its queue in that turn, it says `Aborted`, and the call is no
longer pending at `c` — whatever else the turn did (the callee may be gone, which removes it and everything it owns). -/
theorem abort_is_answered {b b' : Broker} {w w' : Work} (hre : Reachable b w) {c : ConnId} {conn : Conn} {n bs : Nat} {callee : ConnId}
    (hc : AL.find? c b.conns = some conn) (he : AL.find? n conn.calls = some (bs, callee))
    (hv : ¬ conn.version < gateAbortFunctionCall) {out : List Out}
    (hs : step b w (.msg c (.abortFunctionCall n)) = .ok (b', w', out)) (hl : Live b' c) :
    repl c n out = [⟨c, .callFunctionReply n .aborted, none⟩] ∧ pendingCall b' c n = 0 := by
  have hi := hre.idle
  obtain ⟨h1, h2, h3, h4, h5, h6, h7, h8, h9, h10⟩ := hi.i
  unfold step at hs
  simp only [handleEvent, handleMessage, abortFunctionCall, St.conn?, hc, hv, he, ↓reduceIte, okH, h10] at hs
  generalize hS : (({ b := b, w := w, out := [] } : St).setWAbortCalls [(bs, callee)]).stat (fun st => { st with messagesReceived := st.messagesReceived + 1 }) = S at hs
  obtain ⟨k, hk⟩ := loopFuel_pos S
  rw [hk] at hs
  have hone : processOne S = some (abortCall (S.setWAbortCalls []) bs callee) := by
    subst hS; simp [processOne, h1, h2, h3, h4, h5, h6, h7, h8, h9]
  simp only [processLoop, hone] at hs
  cases hab : abortCall (S.setWAbortCalls []) bs callee with
  | error p => simp [hab] at hs
  | ok s2 =>
    simp only [hab] at hs
    cases hl2 : processLoop k s2 with
    | error p => simp [hl2] at hs
    | ok s3 =>
      simp only [hl2, Except.ok.injEq, Prod.mk.injEq] at hs
      obtain ⟨rfl, rfl, rfl⟩ := hs
      -- `c` is served at the end, hence all along
      obtain ⟨t3, ht3⟩ := (live_iff_ck (w := s3.w)).1 hl
      have ht3' : ck s3 c = some (t3, true) := ht3
      obtain ⟨t2, ht2, q⟩ := processLoop_bal (c := c) (n := n) _ _ _ hl2 t3 ht3'
      -- the state `abort_call` runs on
      have hx0 : Xref (S.setWAbortCalls []) := by
        subst hS; exact XrefP.of_eq (s := ⟨b, w, []⟩) rfl rfl rfl (by simp [h10]) hi.x
      have hc0 : AL.find? c (S.setWAbortCalls []).b.conns = some conn := by subst hS; simpa using hc
      have hal : conn.alive = true := by
        have := abortCall_alive hab c (ck_alive ht2)
        subst hS
        simpa [aliveB, hc] using this
      have hR0 : ∀ r, (n, c, r) ∉ (S.setWAbortCalls []).w.removeCalls := by subst hS; simp [h5]
      obtain ⟨e1, e2⟩ := abortCall_live_spec hx0 hc0 hal he hR0 hab
      have hout0 : repl c n (S.setWAbortCalls []).out = [] := by subst hS; rfl
      rw [hout0, List.nil_append] at e1
      rw [e2] at ht2
      simp only [Option.some.injEq, Prod.mk.injEq, and_true] at ht2
      subst ht2
      obtain ⟨l, hext⟩ := processLoop_repext (c := c) (n := n) _ _ _ hl2
      rw [e1] at hext
      simp only [reps_eq_length, hext, e1, List.length_append, List.length_cons, List.length_nil, pendC_erase_self] at q
      have hl0 : l = [] := List.eq_nil_of_length_eq_zero (by omega)
      subst hl0
      refine ⟨by simpa using hext, ?_⟩
      rw [pendingCall_of_ck ht3]; omega


/-! ### every reachable state: the callee's side -/

/-- **Every call in the table has a live callee.** The service entry it is for holds it, that service is registered
under its cookie, the object exists and lists the service, and the owner of the object is connected. -/
theorem pending_call_has_live_callee {b : Broker} {w : Work} (h : Reachable b w) {bs : Nat} {call : Call}
    (hg : b.calls.get? bs = some call) :
    ∃ sv info o owner, AL.find? (call.calleeObj, call.calleeSvc) b.svcs = some sv ∧ bs ∈ sv.calls ∧
      AL.find? sv.cookie b.svcUuids = some (⟨call.calleeObj, sv.objCookie⟩, call.calleeSvc, info) ∧
      AL.find? call.calleeObj b.objs = some o ∧ sv.cookie ∈ o.svcs ∧ AL.find? o.conn b.conns = some owner :=
  callee_of_call (s := ⟨b, w, []⟩) h.cal h.reg.2 hg

/-- **A call that is still pending at its caller has a live callee**: if connection `c` has the entry `n ↦ bs`, the
call `bs` is in the table, and its service, the service's object and the object's owner are all still there. So when
the service or its object has been destroyed, or the owner has disconnected, the entry is gone. -/
theorem pending_entry_has_live_callee {b : Broker} {w : Work} (h : Reachable b w) {c : ConnId} {conn : Conn} {n bs : Nat} {callee : ConnId}
    (hc : AL.find? c b.conns = some conn) (he : AL.find? n conn.calls = some (bs, callee)) :
    ∃ call sv o owner, b.calls.get? bs = some call ∧ call.callerSerial = n ∧ call.callerConn = c ∧ call.aborted = false ∧
      AL.find? (call.calleeObj, call.calleeSvc) b.svcs = some sv ∧ bs ∈ sv.calls ∧
      AL.find? call.calleeObj b.objs = some o ∧ AL.find? o.conn b.conns = some owner := by
  obtain ⟨call, hg, h1, h2, h3⟩ := pending_entry_is_live_call h hc he
  obtain ⟨sv, info, o, owner, q1, q2, _, q4, _, q6⟩ := pending_call_has_live_callee h hg
  exact ⟨call, sv, o, owner, hg, h1, h2, h3, q1, q2, q4, q6⟩

/-- what a service entry holds is a call in the table, for that service, and it holds it once -/
theorem service_holds_only_live_calls {b : Broker} {w : Work} (h : Reachable b w) {k : Uuid × Uuid} {sv : Svc}
    (hs : AL.find? k b.svcs = some sv) :
    sv.calls.Nodup ∧ ∀ bs, bs ∈ sv.calls → ∃ call, b.calls.get? bs = some call ∧ (call.calleeObj, call.calleeSvc) = k := by
  have hc := h.cal
  have hv : scv ⟨b, w, []⟩ k = some sv.calls := scv_find hs
  refine ⟨hc.j4 k _ hv, fun bs hm => ?_⟩
  have := hc.j2 k _ bs hv hm
  simp only [gk] at this
  split at this
  · rename_i call hcall; simp at this; exact ⟨call, hcall, by simp [this]⟩
  · simp at this

/-- **When the callee has ended, the call has been answered exactly once.** A history from any state that ends in a
reachable one; `c` is there at the end with its task running, did not arrive anew and kept to the protocol for serial
`n`. If whatever is registered at the end no longer contains a service with a connected owner for the call pending
under `(c, n)` — stated as: no entry `n` is left whose call has a live callee — then nothing is pending, and the
replies delivered with serial `n` are exactly the calls sent with it (plus the one pending at the start). -/
theorem ended_callee_means_answered (es : List Event) (b : Broker) (w : Work) (b' : Broker) (w' : Work)
    (outs : List (List Out)) (hr : run b w es = .ok (b', w', outs)) (hre : Reachable b' w') (c n : Nat)
    (hn : ∀ v, Event.newConn c v ∉ es) (hl : Live b' c) (hwb : wellBehaved c n b w es = true)
    (hgone : ∀ bs call, b'.calls.get? bs = some call → call.callerConn = c → call.callerSerial = n →
      AL.find? (call.calleeObj, call.calleeSvc) b'.svcs = none) :
    pendingCall b' c n = 0 ∧ callReplies c n outs = pendingCall b c n + callReqs c n es := by
  have hp : pendingCall b' c n = 0 := by
    unfold pendingCall
    split
    · rename_i conn hc
      split
      · rename_i hsome
        exfalso
        cases he : AL.find? n conn.calls with
        | none => simp [he] at hsome
        | some v =>
          obtain ⟨bs, callee⟩ := v
          obtain ⟨call, sv, o, owner, hg, h1, h2, _, q1, _⟩ := pending_entry_has_live_callee hre hc he
          rw [hgone bs call hg h2 h1] at q1; simp at q1
      · rfl
    · rfl
  have := well_behaved_caller_exactly_once es b w b' w' outs hr c n hn hl hwb
  exact ⟨hp, by omega⟩

/-- **The calls pending at a service that goes are answered `InvalidService`.** `remove_service` (reached from
`DestroyService`, `DestroyObject` and the teardown of the owner's connection), from any state in which it succeeds: every
call in the service's set leaves the broker's call table, and for every one of them that has not been aborted exactly one
item `(caller's serial, caller, InvalidService)` is put in front of the deferred replies, in the order of the set; nothing
else is deferred as a reply. (That the set lists no call twice is not assumed: a second visit would not find the call.) -/
theorem destroyed_service_answers_invalid_service {s s' : St} {c : Cookie} {objId : ObjId} {svcUuid : Uuid} {info : SvcInfo} {svc : Svc}
    (hu : AL.find? c s.b.svcUuids = some (objId, svcUuid, info)) (hs : AL.find? (objId.uuid, svcUuid) s.b.svcs = some svc)
    (hr : removeService s c = .ok s') :
    s'.w.removeCalls = (invalidServiceItems s.b.calls svc.calls).reverse ++ s.w.removeCalls ∧
    (∀ k, s'.b.calls.get? k = if k ∈ svc.calls then none else s.b.calls.get? k) :=
  removeService_pending_calls hu hs hr

/-- and the work loop turns such an item into the reply: `CallFunctionReply(serial, result)` to the caller if it is still
connected (and its own record of the call goes), nothing otherwise -/
theorem deferred_reply_is_sent {s : St} {serial : Nat} {cid : ConnId} {result : CallResult} {rest : List (Nat × ConnId × CallResult)}
    (h0 : s.w.removeConns = []) (h1 : s.w.unsubscribeEvent = []) (h2 : s.w.unsubscribeAll = []) (h3 : s.w.servicesDestroyed = [])
    (hq : s.w.removeCalls = (serial, cid, result) :: rest) :
    processOne s = some (match (s.setWRemoveCalls rest).conn? cid with
      | none => .ok (s.setWRemoveCalls rest)
      | some conn =>
        if (AL.find? serial conn.calls).isNone then .error (.debugAssert "remove_function_call: remove_call") else
        .ok (((s.setWRemoveCalls rest).setConn cid { conn with calls := AL.erase serial conn.calls }).sendOrRemove cid
          (.callFunctionReply serial result))) := by
  unfold processOne
  simp only [h0, h1, h2, h3, hq]
  congr 1

/-! non-vacuity: a call is pending, the owner disconnects, the caller is answered `InvalidService` in that turn and
nothing is left pending -/
example : (match run {} {} [.newConn 0 20, .newConn 1 20, .msg 0 (.createObject 1 5), .msg 0 (.createService 2 0 6 3),
      .msg 1 (.callFunction 9 1 0 [3, 7]), .connShutdown 0] with
    | .ok (b, _, outs) => (b.calls.elems.length, b.svcs.length, (b.conns.map (fun p => (p.1, p.2.calls.length))), outs.drop 5)
    | .error _ => (9, 9, [], [])) =
    (0, 0, [(1, 0)], [[⟨1, .callFunctionReply 9 .invalidService, none⟩]]) := by decide

end Aldrin.Broker
