/-
C02 — Every accepted call gets exactly one correctly routed reply.

Statement (properties.jsonl): for every function call a connected client sends, that client receives
exactly one reply carrying its own serial, as long as it stays connected and one of these happens: the
service owner answers, the caller aborts, the service does not exist or it (or its object) is
destroyed, or the owner disconnects. The reply carries the owner's result and payload unchanged when
the owner answered first, otherwise the synthesized outcome (invalid-service or aborted); replies from
non-owners, duplicate replies and replies after an abort are never delivered.

What is proved here (model M4, handlers `call_function_impl`, `call_function_reply`, `abort_call`): the
decision logic of each step of a call's life, for every broker state:
* a call to a cookie that names no live service is answered `InvalidService` at once (`no_service`);
* the owner's reply to a pending call is forwarded once, to the caller, with the caller's serial and
  the owner's result, and the pending entry is gone afterwards (`owner_reply_forwarded`) — so a second
  reply finds nothing and is ignored (`unknown_reply_ignored`);
* a reply from a connection that does not own the called object is ignored (`foreign_reply_ignored`);
* an abort marks the call and answers the caller `Aborted` once (`abort_answers_once`); the owner's
  later reply is dropped while still clearing the entry (`reply_after_abort_dropped`).
Partial: the statement over whole histories ("exactly one" across destroy/disconnect interleavings)
needs the consistency of `function_calls` with the per-connection and per-service call sets as a global
invariant; that part is tied by the correspondence runs (all interleavings the harness generates, with
serial reuse) and not by a theorem.
-/
import Aldrin.Lemmas.Broker.Events

namespace Aldrin.Broker

theorem no_service {s : St} {id serial svc f v p} {c : Conn}
    (hc : AL.find? id s.b.conns = some c) (hs : AL.find? svc s.b.svcUuids = none) :
    callFunctionImpl s id serial svc f v p = .ok (s.send id (.callFunctionReply serial .invalidService)) :=
  call_invalid_service hc hs

theorem unknown_reply_ignored {s : St} {id serial r} (hn : s.b.calls.get? serial = none) :
    callFunctionReply s id serial r = .ok (s, true) := reply_unknown_ignored hn

theorem foreign_reply_ignored {s : St} {id serial r} {call : Call} {o : Obj} {c : Conn}
    (hc : AL.find? id s.b.conns = some c) (hcall : s.b.calls.get? serial = some call)
    (ho : AL.find? call.calleeObj s.b.objs = some o) (hne : o.conn ≠ id) :
    callFunctionReply s id serial r = .ok (s, true) := reply_foreign_ignored hc hcall ho hne

theorem owner_reply_forwarded {s : St} {id serial r} {call : Call} {o : Obj} {c caller : Conn} {sv : Svc} {x}
    (hc : AL.find? id s.b.conns = some c) (hcall : s.b.calls.get? serial = some call)
    (ho : AL.find? call.calleeObj s.b.objs = some o) (hown : o.conn = id)
    (hsv : AL.find? (call.calleeObj, call.calleeSvc) s.b.svcs = some sv)
    (hna : call.aborted = false)
    (hcaller : AL.find? call.callerConn s.b.conns = some caller) (halive : caller.alive = true)
    (hreg : AL.find? call.callerSerial caller.calls = some x) :
    ∃ s', callFunctionReply s id serial r = .ok (s', true) ∧
      s'.b.calls.get? serial = none ∧
      s'.out = s.out ++ [⟨call.callerConn, .callFunctionReply call.callerSerial r, some c.version⟩] :=
  reply_owner_forwarded hc hcall ho hown hsv hna hcaller halive hreg

theorem reply_after_abort_is_dropped {s : St} {id serial r} {call : Call} {o : Obj} {c : Conn} {sv : Svc}
    (hc : AL.find? id s.b.conns = some c) (hcall : s.b.calls.get? serial = some call)
    (ho : AL.find? call.calleeObj s.b.objs = some o) (hown : o.conn = id)
    (hsv : AL.find? (call.calleeObj, call.calleeSvc) s.b.svcs = some sv) (ha : call.aborted = true) :
    ∃ s', callFunctionReply s id serial r = .ok (s', true) ∧ s'.out = s.out ∧ s'.b.calls.get? serial = none :=
  reply_after_abort_dropped hc hcall ho hown hsv ha

theorem abort_answers_once {s s' : St} {serial cid} {call : Call} {caller : Conn} {x}
    (hcall : s.b.calls.get? serial = some call) (hna : call.aborted = false)
    (hcaller : AL.find? call.callerConn s.b.conns = some caller) (hreg : AL.find? call.callerSerial caller.calls = some x)
    (hnc : AL.find? cid s.b.conns = none) (h : abortCall s serial cid = .ok s') :
    s'.b.calls.get? serial = some { call with aborted := true } ∧
    (caller.alive = true → s'.out = s.out ++ [⟨call.callerConn, .callFunctionReply call.callerSerial .aborted, none⟩]) :=
  abort_marks_and_answers hcall hna hcaller hreg hnc h

/-- an already aborted call is not answered again -/
theorem abort_twice_silent {s : St} {serial cid} {call : Call}
    (hcall : s.b.calls.get? serial = some call) (ha : call.aborted = true) : abortCall s serial cid = .ok s := by
  unfold abortCall; simp [hcall, ha]

/-! non-vacuity: call, abort by the caller, late reply by the owner (callee is 1.14: no abort forwarded) -/
example : (match run {} {} [.newConn 0 14, .newConn 1 20, .msg 0 (.createObject 1 5), .msg 0 (.createService 2 0 6 1),
      .msg 1 (.callFunction 9 1 0 [3, 7]), .msg 1 (.abortFunctionCall 9), .msg 0 (.callFunctionReply 0 (.ok [3, 8]))] with
    | .ok (b, _, outs) => (b.calls.elems.length, outs.drop 4) | .error _ => (99, [])) =
    (0, [[⟨0, .callFunction 0 1 0 [3, 7], some 20⟩], [⟨1, .callFunctionReply 9 .aborted, none⟩], []]) := by decide

end Aldrin.Broker
