/-
M7 — discoverer entries (`aldrin/src/discoverer/{any,specific_with_services,specific_without_services}.rs`):
the per-entry fold over bus events, with the code's `debug_assert!`s as explicit failures.
-/
import Aldrin.Model.Broker.Types

namespace Aldrin.Disc
open Aldrin.Broker

inductive DKind where
  | created | destroyed
  deriving DecidableEq, Repr

/-- `DiscovererEvent` -/
structure DEvent where
  key : Nat
  kind : DKind
  obj : ObjId
  deriving DecidableEq, Repr

inductive Entry where
  /-- `AnyObject`: per required service the objects that have it (with the service cookie), and the found objects -/
  | any (key : Nat) (services : List (Uuid × List (Uuid × Cookie))) (created : List (Uuid × Cookie))
  /-- `SpecificObjectWithServices` -/
  | withSvcs (key : Nat) (object : Uuid) (cookie : Option Cookie) (services : List (Uuid × Option Cookie))
  /-- `SpecificObjectWithoutServices` -/
  | bare (key : Nat) (object : Uuid) (cookie : Option Cookie)
  deriving Repr

inductive DAssert where
  | dup (site : String)
  | mismatch (site : String)
  deriving DecidableEq, Repr

def Entry.mkAny (key : Nat) (services : List Uuid) : Entry := .any key (services.map (fun s => (s, []))) []
def Entry.mkSpecific (key : Nat) (object : Uuid) (services : List Uuid) : Entry :=
  if services.isEmpty then .bare key object none else .withSvcs key object none (services.map (fun s => (s, none)))

def Entry.key : Entry → Nat
  | .any k _ _ | .withSvcs k _ _ _ | .bare k _ _ => k

/-- `reset` -/
def Entry.reset : Entry → Entry
  | .any k svcs _ => .any k (svcs.map (fun p => (p.1, []))) []
  | .withSvcs k o _ svcs => .withSvcs k o none (svcs.map (fun p => (p.1, none)))
  | .bare k o _ => .bare k o none

/-- `handle_event`: new entry state and the discoverer event, if any -/
def Entry.handle : Entry → BusEv → Except DAssert (Entry × Option DEvent)
  -- AnyObject
  | .any k svcs created, .objCreated id =>
    if svcs.isEmpty then
      if (AL.find? id.uuid created).isSome then .error (.dup "any.object_created")
      else .ok (.any k svcs (AL.insert id.uuid id.cookie created), some ⟨k, .created, id⟩)
    else .ok (.any k svcs created, none)
  | .any k svcs created, .objDestroyed id =>
    match AL.find? id.uuid created with
    | some c => if c ≠ id.cookie then .error (.mismatch "any.object_destroyed")
                else .ok (.any k svcs (AL.erase id.uuid created), some ⟨k, .destroyed, id⟩)
    | none => .ok (.any k svcs created, none)
  | .any k svcs created, .svcCreated sid =>
    match AL.find? sid.uuid svcs with
    | none => .ok (.any k svcs created, none)
    | some objs =>
      if (AL.find? sid.obj.uuid objs).isSome then .error (.dup "any.service_created") else
      let svcs' := AL.insert sid.uuid (AL.insert sid.obj.uuid sid.cookie objs) svcs
      if svcs'.all (fun p => (AL.find? sid.obj.uuid p.2).isSome) then
        if (AL.find? sid.obj.uuid created).isSome then .error (.dup "any.service_created: created")
        else .ok (.any k svcs' (AL.insert sid.obj.uuid sid.obj.cookie created), some ⟨k, .created, sid.obj⟩)
      else .ok (.any k svcs' created, none)
  | .any k svcs created, .svcDestroyed sid =>
    match AL.find? sid.uuid svcs with
    | none => .ok (.any k svcs created, none)
    | some objs =>
      if AL.find? sid.obj.uuid objs ≠ some sid.cookie then .error (.mismatch "any.service_destroyed") else
      let svcs' := AL.insert sid.uuid (AL.erase sid.obj.uuid objs) svcs
      match AL.find? sid.obj.uuid created with
      | some c => if c ≠ sid.obj.cookie then .error (.mismatch "any.service_destroyed: created")
                  else .ok (.any k svcs' (AL.erase sid.obj.uuid created), some ⟨k, .destroyed, sid.obj⟩)
      | none => .ok (.any k svcs' created, none)
  -- SpecificObjectWithServices
  | .withSvcs k o cookie svcs, .svcCreated sid =>
    if sid.obj.uuid ≠ o then .ok (.withSvcs k o cookie svcs, none) else
    match AL.find? sid.uuid svcs with
    | none => .ok (.withSvcs k o cookie svcs, none)
    | some cur =>
      if cur.isSome then .error (.dup "with_services.service_created") else
      let svcs' := AL.insert sid.uuid (some sid.cookie) svcs
      if svcs'.all (fun p => p.2.isSome) then .ok (.withSvcs k o (some sid.obj.cookie) svcs', some ⟨k, .created, sid.obj⟩)
      else .ok (.withSvcs k o cookie svcs', none)
  | .withSvcs k o cookie svcs, .svcDestroyed sid =>
    if sid.obj.uuid ≠ o then .ok (.withSvcs k o cookie svcs, none) else
    match AL.find? sid.uuid svcs with
    | none => .ok (.withSvcs k o cookie svcs, none)
    | some cur =>
      if cur ≠ some sid.cookie then .error (.mismatch "with_services.service_destroyed") else
      let svcs' := AL.insert sid.uuid none svcs
      if cookie.isSome then .ok (.withSvcs k o none svcs', some ⟨k, .destroyed, sid.obj⟩)
      else .ok (.withSvcs k o none svcs', none)
  | .withSvcs k o cookie svcs, _ => .ok (.withSvcs k o cookie svcs, none)
  -- SpecificObjectWithoutServices
  | .bare k o cookie, .objCreated id =>
    if id.uuid ≠ o then .ok (.bare k o cookie, none) else
    if cookie.isSome then .error (.dup "without_services.object_created")
    else .ok (.bare k o (some id.cookie), some ⟨k, .created, id⟩)
  | .bare k o cookie, .objDestroyed id =>
    if id.uuid ≠ o then .ok (.bare k o cookie, none) else
    if cookie ≠ some id.cookie then .error (.mismatch "without_services.object_destroyed")
    else .ok (.bare k o none, some ⟨k, .destroyed, id⟩)
  | .bare k o cookie, _ => .ok (.bare k o cookie, none)

/-- the objects an entry currently reports: (object id, service ids of the required services) -/
def Entry.found : Entry → List (ObjId × List (Uuid × Cookie))
  | .any _ svcs created =>
    created.map (fun p => (⟨p.1, p.2⟩, svcs.filterMap (fun s => (AL.find? p.1 s.2).map (fun c => (s.1, c)))))
  | .withSvcs _ o (some c) svcs => [(⟨o, c⟩, svcs.filterMap (fun s => s.2.map (fun sc => (s.1, sc))))]
  | .withSvcs _ _ none _ => []
  | .bare _ o (some c) => [(⟨o, c⟩, [])]
  | .bare _ _ none => []

/-- the discoverer: all entries see every bus event; their events are queued -/
structure Disc where
  entries : List Entry
  events : List DEvent := []
  deriving Repr

def Disc.handle (d : Disc) (e : BusEv) : Except DAssert Disc :=
  let rec go : List Entry → List Entry → List DEvent → Except DAssert (List Entry × List DEvent)
    | [], acc, evs => .ok (acc.reverse, evs)
    | en :: rest, acc, evs =>
      match en.handle e with
      | .error a => .error a
      | .ok (en', ev) => go rest (en' :: acc) (match ev with | some x => evs ++ [x] | none => evs)
  match go d.entries [] [] with
  | .error a => .error a
  | .ok (es, evs) => .ok { entries := es, events := d.events ++ evs }

def Disc.reset (d : Disc) : Disc := { entries := d.entries.map Entry.reset, events := [] }

end Aldrin.Disc
