/-
Well-formedness of model values = exactly what the Rust types guarantee (`u16` is in range, a
`String` is valid UTF-8, a `Uuid` has 16 bytes, lengths fit the `u32` counters the wire format
uses), and the nesting depth the limit is about.
-/
import Aldrin.Model.Codec

namespace Aldrin

/-- Keys as the Rust key types constrain them. -/
def KeyWF : KeyTy → Key → Prop
  | .int t, .int i => t.inRange i
  | .string, .blob bs => bs.length ≤ u32Max ∧ validUtf8 bs = true
  | .uuid, .blob bs => bs.length = 16
  | .field, .int i => 0 ≤ i ∧ i ≤ (u32Max : Int)
  | _, _ => False

mutual
def Value.WF : Value → Prop
  | .none => True
  | .some v => v.WF
  | .bool _ => True
  | .int t i => t.inRange i
  | .fixed k bs => bs.length = k.len
  | .string bs => bs.length ≤ u32Max ∧ validUtf8 bs = true
  | .vec vs => vs.length ≤ u32Max ∧ WFList vs
  | .bytes bs => bs.length ≤ u32Max
  | .map kt es => es.length ≤ u32Max ∧ WFEntries kt es
  | .set kt ks => kt ≠ .field ∧ ks.length ≤ u32Max ∧ ∀ k ∈ ks, KeyWF kt k
  | .enum id v => id ≤ u32Max ∧ v.WF
def WFList : List Value → Prop
  | [] => True
  | v :: vs => v.WF ∧ WFList vs
def WFEntries (kt : KeyTy) : List (Key × Value) → Prop
  | [] => True
  | (k, v) :: es => KeyWF kt k ∧ v.WF ∧ WFEntries kt es
end

mutual
/-- Nesting depth as the serializer counts it: every value is one level, `Some`, `Enum` and every
container element add one. -/
def Value.depth : Value → Nat
  | .some v => 1 + v.depth
  | .enum _ v => 1 + v.depth
  | .vec vs => 1 + depthList vs
  | .map _ es => 1 + depthEntries es
  | _ => 1
def depthList : List Value → Nat
  | [] => 0
  | v :: vs => max v.depth (depthList vs)
def depthEntries : List (Key × Value) → Nat
  | [] => 0
  | (_, v) :: es => max v.depth (depthEntries es)
end

end Aldrin
