/-
M9 — what a generated Rust type does to a dynamic value (C16).

`aldrin-codegen` turns a schema definition into a Rust type plus `#[derive(Serialize, Deserialize)]`
(`codegen/src/rust.rs`); the derive macros (`macros/src/derive/{deserialize,serialize,struct_data,
enum_data}.rs`) expand to calls into `core`'s struct/enum (de)serializers. The composition
"deserialize the bytes as the generated type, serialize the result again" is modelled here as one total
function on the dynamic value the bytes decode to:

  `accept env fuel ty v = .ok w`   the generated type for `ty` takes `v` and writes `w` back,
  `accept env fuel ty v = .error ()` deserialization fails.

Schema types are `Ty`; named definitions live in an environment `Env` (struct / enum / newtype).
`shape` strips what has no wire presence (`box`, newtypes, references) and says which outermost value
constructor a type demands; `accept` then recurses structurally on the value.

Per definition kind (mirrors the derive expansion):
* struct — the value must be a struct; every wire field whose id is declared is deserialized with the
  field's type (`Option<T>` for an optional field), a later duplicate overwrites an earlier one; an
  unknown id is skipped, or kept when the struct has a fallback field; afterwards a missing required
  field is an error. Written back: declared fields in order, an optional field only when it is `Some`
  (`serialize_if_some`), then the kept unknown fields.
* enum — the value must be an enum; a declared variant deserializes its payload with the variant's type
  (`None` for a unit variant); an unknown variant is an error, or kept whole when the enum has a
  fallback variant.
* newtype — transparent.

Not modelled: the depth limit of the typed deserializers (the generic decoder's limit applies to the
input first) and serialization errors of the re-encoding.
-/
import Aldrin.Model.Value

namespace Aldrin.Typed
open Aldrin

inductive Ty where
  | bool
  | int (t : IntTy)
  | fixed (k : FixedKind)      -- f32, f64, uuid, object_id, service_id, sender<T>, receiver<T>; lifetime = object_id
  | string
  | bytes                      -- `bytes` and `vec<u8>`
  | unit
  | value
  | opt (t : Ty)
  | box (t : Ty)
  | vec (t : Ty)
  | arr (t : Ty) (n : Nat)
  | map (k : Ty) (t : Ty)
  | set (k : Ty)
  | result (a b : Ty)
  | ref (name : String)
  deriving Repr, Inhabited, DecidableEq

structure Field where
  id : Nat
  required : Bool
  ty : Ty
  deriving Repr, Inhabited, DecidableEq

structure Variant where
  id : Nat
  ty : Option Ty
  deriving Repr, Inhabited, DecidableEq

inductive Def where
  | struct (fs : List Field) (fb : Bool)
  | enum (vs : List Variant) (fb : Bool)
  | newtype (t : Ty)
  deriving Repr, Inhabited

abbrev Env := List (String × Def)

def Env.get? (env : Env) (name : String) : Option Def :=
  (env.find? (fun p => p.1 == name)).map (·.2)

/-- The type a wire field is deserialized with: `Option<T>` for an optional field. -/
def Field.wireTy (f : Field) : Ty := if f.required then f.ty else .opt f.ty

/-- What a type demands of the outermost constructor of a value. -/
inductive Shape where
  | bool | int (t : IntTy) | fixed (k : FixedKind) | string | bytes | unit | value
  | opt (t : Ty) | vec (t : Ty) | arr (t : Ty) (n : Nat)
  | map (k : Ty) (t : Ty) | set (k : Ty) | result (a b : Ty)
  | struct (fs : List Field) (fb : Bool)
  | enum (vs : List Variant) (fb : Bool)
  | bad                        -- dangling reference or a newtype cycle (rejected by schema validation)
  deriving Repr, Inhabited

/-- Strip boxes and follow references / newtypes. `fuel` bounds the number of steps. -/
def shape (env : Env) : Nat → Ty → Shape
  | 0, _ => .bad
  | n + 1, ty =>
    match ty with
    | .bool => .bool | .int t => .int t | .fixed k => .fixed k | .string => .string
    | .bytes => .bytes | .unit => .unit | .value => .value
    | .opt t => .opt t
    | .box t => shape env n t
    | .vec t => if t = .int .u8 then .bytes else .vec t   -- codegen maps `vec<u8>` to `Bytes`
    | .arr t k => .arr t k
    | .map k t => .map k t
    | .set k => .set k
    | .result a b => .result a b
    | .ref name =>
      match env.get? name with
      | some (.struct fs fb) => .struct fs fb
      | some (.enum vs fb) => .enum vs fb
      | some (.newtype t) => shape env n t
      | none => .bad

/-- The wire key type of a map / set key type. -/
def keyTy (env : Env) (fuel : Nat) (k : Ty) : Option KeyTy :=
  match shape env fuel k with
  | .int t => some (.int t)
  | .string => some .string
  | .fixed .uuid => some .uuid
  | _ => none

def findField (fs : List Field) (id : Nat) : Option Field := fs.find? (fun f => f.id == id)
def findVariant (vs : List Variant) (id : Nat) : Option Variant := vs.find? (fun v => v.id == id)

/-- The id of a struct entry (field ids travel as `Key.int`). -/
def keyId : Key → Option Nat
  | .int i => if 0 ≤ i then some i.toNat else none
  | .blob _ => none

/-- Last value stored for `id` (a later duplicate overwrites an earlier one). -/
def lastOf (id : Nat) : List (Nat × Value) → Option Value
  | [] => none
  | (i, v) :: r => match lastOf id r with
    | some w => some w
    | none => if i == id then some v else none

/-- `finish_with`: declared fields in order; `none` as a whole when a required field is missing. -/
def finishFields : List Field → List (Nat × Value) → Option (List (Key × Value))
  | [], _ => some []
  | f :: fs, acc =>
    match finishFields fs acc with
    | none => none
    | some rest =>
      match lastOf f.id acc with
      | none => if f.required then none else some rest
      | some v =>
        if f.required then some ((.int f.id, v) :: rest)
        else match v with
          | .none => some rest                       -- `serialize_if_some` omits `None`
          | w => some ((.int f.id, w) :: rest)

/-- Unknown fields are collected in a map: the last duplicate wins. -/
def dedupLast : List (Nat × Value) → List (Key × Value)
  | [] => []
  | (i, v) :: r => if (lastOf i r).isSome then dedupLast r else (.int i, v) :: dedupLast r

mutual
def accept (env : Env) (fuel : Nat) (ty : Ty) : Value → Except Unit Value
  | .none => match shape env fuel ty with
    | .unit => .ok .none
    | .opt _ => .ok .none
    | .value => .ok .none
    | _ => .error ()
  | .some x => match shape env fuel ty with
    | .opt t => match accept env fuel t x with
      | .ok w => .ok (.some w)
      | .error e => .error e
    | .value => .ok (.some x)
    | _ => .error ()
  | .bool b => match shape env fuel ty with
    | .bool => .ok (.bool b)
    | .value => .ok (.bool b)
    | _ => .error ()
  | .int t i => match shape env fuel ty with
    | .int t' => if t = t' then .ok (.int t i) else .error ()
    | .value => .ok (.int t i)
    | _ => .error ()
  | .fixed k bs => match shape env fuel ty with
    | .fixed k' => if k = k' then .ok (.fixed k bs) else .error ()
    | .value => .ok (.fixed k bs)
    | _ => .error ()
  | .string bs => match shape env fuel ty with
    | .string => .ok (.string bs)
    | .value => .ok (.string bs)
    | _ => .error ()
  | .bytes bs => match shape env fuel ty with
    | .bytes => .ok (.bytes bs)
    | .value => .ok (.bytes bs)
    | _ => .error ()
  | .vec vs => match shape env fuel ty with
    | .vec t => match acceptElems env fuel t vs with
      | .ok ws => .ok (.vec ws)
      | .error e => .error e
    | .arr t n =>
      if vs.length = n then
        match acceptElems env fuel t vs with
        | .ok ws => .ok (.vec ws)
        | .error e => .error e
      else .error ()
    | .value => .ok (.vec vs)
    | _ => .error ()
  | .map kt es => match shape env fuel ty with
    | .map k t =>
      if keyTy env fuel k = some kt then
        match acceptEntries env fuel t es with
        | .ok ws => .ok (.map kt ws)
        | .error e => .error e
      else .error ()
    | .struct fs fb =>
      if kt = .field then
        match acceptFields env fuel fs es with
        | .error e => .error e
        | .ok (known, unknown) =>
          match finishFields fs known with
          | none => .error ()
          | some out => .ok (.map .field (out ++ (if fb then dedupLast unknown else [])))
      else .error ()
    | .value => .ok (.map kt es)
    | _ => .error ()
  | .set kt ks => match shape env fuel ty with
    | .set k => if keyTy env fuel k = some kt then .ok (.set kt ks) else .error ()
    | .value => .ok (.set kt ks)
    | _ => .error ()
  | .enum id x => match shape env fuel ty with
    | .result a b =>
      if id = 0 then match accept env fuel a x with
        | .ok w => .ok (.enum 0 w)
        | .error e => .error e
      else if id = 1 then match accept env fuel b x with
        | .ok w => .ok (.enum 1 w)
        | .error e => .error e
      else .error ()
    | .enum vs fb =>
      match findVariant vs id with
      | some ⟨_, some t⟩ => match accept env fuel t x with
        | .ok w => .ok (.enum id w)
        | .error e => .error e
      | some ⟨_, none⟩ => match x with
        | .none => .ok (.enum id .none)
        | _ => .error ()
      | none => if fb then .ok (.enum id x) else .error ()
    | .value => .ok (.enum id x)
    | _ => .error ()

def acceptElems (env : Env) (fuel : Nat) (ty : Ty) : List Value → Except Unit (List Value)
  | [] => .ok []
  | v :: vs => match accept env fuel ty v with
    | .error e => .error e
    | .ok w => match acceptElems env fuel ty vs with
      | .error e => .error e
      | .ok ws => .ok (w :: ws)

def acceptEntries (env : Env) (fuel : Nat) (ty : Ty) : List (Key × Value) → Except Unit (List (Key × Value))
  | [] => .ok []
  | (k, v) :: es => match accept env fuel ty v with
    | .error e => .error e
    | .ok w => match acceptEntries env fuel ty es with
      | .error e => .error e
      | .ok ws => .ok ((k, w) :: ws)

/-- The field loop of a derived struct: declared ids are deserialized with the field's type, the rest is
set aside. Both results are in wire order. -/
def acceptFields (env : Env) (fuel : Nat) (fs : List Field) :
    List (Key × Value) → Except Unit (List (Nat × Value) × List (Nat × Value))
  | [] => .ok ([], [])
  | (k, v) :: es =>
    match keyId k with
    | none => .error ()
    | some id =>
      match findField fs id with
      | some f => match accept env fuel f.wireTy v with
        | .error e => .error e
        | .ok w => match acceptFields env fuel fs es with
          | .error e => .error e
          | .ok (kn, un) => .ok ((id, w) :: kn, un)
      | none => match acceptFields env fuel fs es with
        | .error e => .error e
        | .ok (kn, un) => .ok (kn, (id, v) :: un)
end

/-- Fuel that suffices for `shape` in an environment without newtype cycles: every step either enters a
box of the current type or moves to the target of a newtype. -/
def Ty.size : Ty → Nat
  | .opt t | .box t | .vec t | .arr t _ | .set t => t.size + 1
  | .map k t | .result k t => k.size + t.size + 1
  | _ => 1

def Def.size : Def → Nat
  | .newtype t => t.size + 1
  | _ => 1

def Env.fuel (env : Env) : Nat := (env.map (fun p => p.2.size)).sum + 64

end Aldrin.Typed
