/-
The composed system at message level: one broker (`Broker.step`), any number of clients (`Client.onSend` /
`Client.onRecv`, one monitor per connection) and, per connection, two order-preserving queues between them.
Which requests a client sends and when anything happens is left open: every interleaving of the events
below is a history of the system.
-/
import Aldrin.Model.Broker.Step
import Aldrin.Lemmas.Client.Pending

namespace Aldrin.System
open Aldrin.Broker Aldrin.Client

/-- a connection as seen from outside the two processes -/
structure Link where
  mon : CSt                -- the client's book-keeping
  up : List Req := []      -- written by the client, not yet handled by the broker (oldest first)
  down : List Rsp := []    -- queued by the broker, not yet handled by the client (oldest first)

structure Sys where
  b : Broker := {}
  w : Work := {}
  links : ConnId → Option Link := fun _ => none
  /-- the connection ids handed out so far (`Broker::add_connection` never hands one out twice) -/
  used : List ConnId := []

inductive SysEv where
  /-- a connection is added under an id not used before: the broker gets its `NewConnection`, the client starts -/
  | attach (c : ConnId) (version : Nat)
  /-- the client writes a request to its transport -/
  | clientSends (c : ConnId) (r : Req)
  /-- the broker handles the oldest request of `c` -/
  | brokerHandles (c : ConnId)
  /-- any other event of `Broker::run` (a connection's task ending, shutdown requests) -/
  | brokerEvent (e : Event)
  /-- the client handles the oldest message of its queue -/
  | clientHandles (c : ConnId)
  /-- the client is gone, for whatever reason -/
  | detach (c : ConnId)

/-- `SerialMap::insert` hands out a serial that is not in the map: a request that is answered under its
serial never reuses the serial of a request of the same kind that is still open. -/
def freshSerial (mon : CSt) (r : Req) : Bool :=
  match reqKey r with
  | some (k, n) => !(pendingOf mon k).contains n
  | none => true

/-- the events that have a system event of their own -/
def Event.isMsg : Event → Bool
  | .msg .. => true
  | .newConn .. => true
  | _ => false

/-- what one turn of the broker puts into the queue of connection `c`, in order -/
def delivered (out : List Out) (c : ConnId) : List Rsp := (out.filter (·.to = c)).map (·.msg)

/-- every output is appended to the queue of the connection it is addressed to -/
def deliver (out : List Out) (links : ConnId → Option Link) : ConnId → Option Link :=
  fun c => (links c).map fun l => { l with down := l.down ++ delivered out c }

def setLink (links : ConnId → Option Link) (c : ConnId) (l : Option Link) : ConnId → Option Link :=
  fun x => if x = c then l else links x

/-- one event; `none` when it cannot happen in this state (or the broker has panicked) -/
def sysStep (s : Sys) : SysEv → Option Sys
  | .attach c v =>
    if (s.links c).isSome || s.used.contains c then none else
    match Broker.step s.b s.w (.newConn c v) with
    | .error _ => none
    | .ok (b, w, out) =>
      some { b := b, w := w, links := setLink (deliver out s.links) c (some { mon := { version := v } }), used := c :: s.used }
  | .clientSends c r =>
    match s.links c with
    | none => none
    | some l =>
      if freshSerial l.mon r then
        some { s with links := setLink s.links c (some { l with mon := onSend l.mon r, up := l.up ++ [r] }) }
      else none
  | .brokerHandles c =>
    match s.links c with
    | none => none
    | some l =>
      match l.up with
      | [] => none
      | r :: rest =>
        match Broker.step s.b s.w (.msg c r) with
        | .error _ => none
        | .ok (b, w, out) => some { s with b := b, w := w, links := deliver out (setLink s.links c (some { l with up := rest })) }
  | .brokerEvent e =>
    if Event.isMsg e then none else
    match Broker.step s.b s.w e with
    | .error _ => none
    | .ok (b, w, out) => some { s with b := b, w := w, links := deliver out s.links }
  | .clientHandles c =>
    match s.links c with
    | none => none
    | some l =>
      match l.down with
      | [] => none
      | m :: rest =>
        match onRecv l.mon m with
        | .ok mon => some { s with links := setLink s.links c (some { l with mon := mon, down := rest }) }
        | _ => none
  | .detach c => some { s with links := setLink s.links c none }

/-- the state after a history, if every event of it could happen -/
def sysRun : Sys → List SysEv → Option Sys
  | s, [] => some s
  | s, e :: es => match sysStep s e with
    | some s' => sysRun s' es
    | none => none

end Aldrin.System
