/-
M2 — dynamic values (`core/src/value.rs`) and the table of wire kinds.

The 43 Rust variants are grouped by wire shape: eight integer types are `int t`, the seven
fixed-size blobs (`f32`, `f64`, `Uuid`, `ObjectId`, `ServiceId`, `Sender`, `Receiver`) are `fixed k`
carrying their raw bytes (floats are bit patterns, never compared as floats), the ten map and ten
set types are `map kt`/`set kt`, and `Struct` is the map whose keys are `u32` field ids written as
plain varints (`KeyTy.field`) — its wire format is that of a map with its own kind byte.
Maps, sets and structs keep their entries as lists in wire order; Rust collects them into
`HashMap`/`HashSet` (last duplicate wins), which `Value.canon` reproduces for comparison.
-/
import Aldrin.Model.Bytes
import Aldrin.Generated.Core

namespace Aldrin
open Generated

inductive IntTy where
  | u8 | i8 | u16 | i16 | u32 | i32 | u64 | i64
  deriving DecidableEq, Repr, Inhabited

def IntTy.bytes : IntTy → Nat
  | .u8 | .i8 => 1
  | .u16 | .i16 => 2
  | .u32 | .i32 => 4
  | .u64 | .i64 => 8

def IntTy.signed : IntTy → Bool
  | .i8 | .i16 | .i32 | .i64 => true
  | _ => false

/-- Range of the Rust integer type. -/
def IntTy.inRange (t : IntTy) (i : Int) : Prop :=
  if t.signed then -(2 ^ (8 * t.bytes - 1) : Int) ≤ i ∧ i < (2 ^ (8 * t.bytes - 1) : Int)
  else 0 ≤ i ∧ i < (2 ^ (8 * t.bytes) : Int)

instance (t : IntTy) (i : Int) : Decidable (t.inRange i) := by
  unfold IntTy.inRange; exact inferInstance

inductive KeyTy where
  | int (t : IntTy)
  | string
  | uuid
  | field            -- struct field id: `u32` as a plain varint
  deriving DecidableEq, Repr, Inhabited

inductive Key where
  | int (i : Int)
  | blob (bs : Bytes)    -- string bytes or the 16 uuid bytes
  deriving DecidableEq, Repr, Inhabited

inductive FixedKind where
  | f32 | f64 | uuid | objectId | serviceId | sender | receiver
  deriving DecidableEq, Repr, Inhabited

def FixedKind.len : FixedKind → Nat
  | .f32 => 4 | .f64 => 8 | .uuid => 16 | .objectId => 32 | .serviceId => 64
  | .sender => 16 | .receiver => 16

inductive Value where
  | none
  | some (v : Value)
  | bool (b : Bool)
  | int (t : IntTy) (i : Int)
  | fixed (k : FixedKind) (bs : Bytes)
  | string (bs : Bytes)
  | vec (vs : List Value)
  | bytes (bs : Bytes)
  | map (kt : KeyTy) (es : List (Key × Value))
  | set (kt : KeyTy) (ks : List Key)
  | enum (id : Nat) (v : Value)
  deriving Repr, Inhabited

/-- Wire kinds, i.e. the meaning of the first byte of a value. -/
inductive Kind where
  | none | some | bool
  | int (t : IntTy)
  | fixed (k : FixedKind)
  | string
  | vec1 | bytes1
  | map1 (kt : KeyTy)      -- `map1 .field` = Struct1
  | set1 (kt : KeyTy)      -- `set1 .field` does not exist
  | enum
  | vec2 | bytes2
  | map2 (kt : KeyTy)      -- `map2 .field` = Struct2
  | set2 (kt : KeyTy)
  deriving DecidableEq, Repr, Inhabited

/-- Kind bytes, from the generated tables. The per-key constants are those of `KeyTagImpl`. -/
def Kind.byte : Kind → Option UInt8
  | .none => vkNone | .some => vkSome | .bool => vkBool
  | .int .u8 => vkU8 | .int .i8 => vkI8 | .int .u16 => vkU16 | .int .i16 => vkI16
  | .int .u32 => vkU32 | .int .i32 => vkI32 | .int .u64 => vkU64 | .int .i64 => vkI64
  | .fixed .f32 => vkF32 | .fixed .f64 => vkF64 | .fixed .uuid => vkUuid
  | .fixed .objectId => vkObjectId | .fixed .serviceId => vkServiceId
  | .fixed .sender => vkSender | .fixed .receiver => vkReceiver
  | .string => vkString
  | .vec1 => vkVec1 | .bytes1 => vkBytes1
  | .map1 (.int .u8) => keyU8Map1 | .map1 (.int .i8) => keyI8Map1
  | .map1 (.int .u16) => keyU16Map1 | .map1 (.int .i16) => keyI16Map1
  | .map1 (.int .u32) => keyU32Map1 | .map1 (.int .i32) => keyI32Map1
  | .map1 (.int .u64) => keyU64Map1 | .map1 (.int .i64) => keyI64Map1
  | .map1 .string => keyStringMap1 | .map1 .uuid => keyUuidMap1
  | .map1 .field => vkStruct1
  | .set1 (.int .u8) => keyU8Set1 | .set1 (.int .i8) => keyI8Set1
  | .set1 (.int .u16) => keyU16Set1 | .set1 (.int .i16) => keyI16Set1
  | .set1 (.int .u32) => keyU32Set1 | .set1 (.int .i32) => keyI32Set1
  | .set1 (.int .u64) => keyU64Set1 | .set1 (.int .i64) => keyI64Set1
  | .set1 .string => keyStringSet1 | .set1 .uuid => keyUuidSet1
  | .set1 .field => Option.none
  | .enum => vkEnum
  | .vec2 => vkVec2 | .bytes2 => vkBytes2
  | .map2 (.int .u8) => keyU8Map2 | .map2 (.int .i8) => keyI8Map2
  | .map2 (.int .u16) => keyU16Map2 | .map2 (.int .i16) => keyI16Map2
  | .map2 (.int .u32) => keyU32Map2 | .map2 (.int .i32) => keyI32Map2
  | .map2 (.int .u64) => keyU64Map2 | .map2 (.int .i64) => keyI64Map2
  | .map2 .string => keyStringMap2 | .map2 .uuid => keyUuidMap2
  | .map2 .field => vkStruct2
  | .set2 (.int .u8) => keyU8Set2 | .set2 (.int .i8) => keyI8Set2
  | .set2 (.int .u16) => keyU16Set2 | .set2 (.int .i16) => keyI16Set2
  | .set2 (.int .u32) => keyU32Set2 | .set2 (.int .i32) => keyI32Set2
  | .set2 (.int .u64) => keyU64Set2 | .set2 (.int .i64) => keyI64Set2
  | .set2 .string => keyStringSet2 | .set2 .uuid => keyUuidSet2
  | .set2 .field => Option.none

def allIntTy : List IntTy := [.u8, .i8, .u16, .i16, .u32, .i32, .u64, .i64]
def allKeyTy : List KeyTy := allIntTy.map .int ++ [.string, .uuid, .field]
def allFixed : List FixedKind := [.f32, .f64, .uuid, .objectId, .serviceId, .sender, .receiver]

def allKinds : List Kind :=
  [.none, .some, .bool] ++ allIntTy.map .int ++ allFixed.map .fixed ++ [.string, .vec1, .bytes1]
    ++ allKeyTy.map .map1 ++ allKeyTy.map .set1 ++ [.enum, .vec2, .bytes2]
    ++ allKeyTy.map .map2 ++ allKeyTy.map .set2

/-- `ValueKind::try_from(u8)`: the first kind whose byte is `b`. -/
def classify (b : UInt8) : Option Kind :=
  allKinds.find? (fun k => k.byte == Option.some b)

/-- `ValueKind::try_from(u8)` succeeds (used for the `None`/`Some` markers inside V2 containers,
where any other *valid* kind and any invalid byte are both `InvalidSerialization`). -/
def isMarkerNone (b : UInt8) : Bool := b == vkNone
def isMarkerSome (b : UInt8) : Bool := b == vkSome

/-- The two container encodings. -/
inductive Epoch where
  | v1 | v2
  deriving DecidableEq, Repr, Inhabited

end Aldrin
