/-
M8 — introspection type ids (`core/src/introspection/type_id.rs`, `ir/*.rs`).

`TypeId::compute` serializes the root layout, collects the serialized layouts of everything that is
transitively referenced into an ordered set, serializes the record (version, root layout, set) and
takes the UUIDv5 of those bytes in the namespace of the root's layout kind.

The IR is represented generically (`Ir`): records with *all* their declared fields by name (docs
included), maps keyed by `u32`, options, enums. Which record fields go on the wire, under which
id, and whether only when present, is NOT written here: it is the table `Generated.irRecs`, translated
from the `Serialize` impls on every run.
-/
import Aldrin.Model.Codec
import Aldrin.Generated.Ir

namespace Aldrin.TypeIdM
open Generated

inductive Ir where
  | u32 (n : Nat)
  | bool (b : Bool)
  | str (s : Bytes)
  | uuid (u : Bytes)
  | none
  | some (x : Ir)
  | map (m : List (Nat × Ir))              -- `BTreeMap<u32, _>`, entries in key order
  | record (ty : String) (fs : List (String × Ir))   -- a record with its declared fields by name
  | enumv (variant : Nat) (payload : Ir)   -- unit variants carry `none`
  deriving Repr, Inhabited

/-- serialized fields of a record type: (id, field name, only-if-some) in wire order -/
def schemaOf (ty : String) : List (Nat × String × Bool) :=
  match irRecs.find? (·.1 == ty) with
  | Option.some (_, fs) => fs.map (fun f => (f.1, f.2.1, f.2.2.2))
  | Option.none => []

def lookupV (n : String) : List (String × Value) → Option Value
  | [] => Option.none
  | (k, v) :: r => if k == n then Option.some v else lookupV n r

/-- the struct fields actually written: schema order; an only-if-some field whose value is `None` is skipped -/
def fieldEntry (fsV : List (String × Value)) (f : Nat × String × Bool) : Option (Key × Value) :=
  match lookupV f.2.1 fsV with
  | Option.some Value.none => if f.2.2 then Option.none else Option.some (Key.int f.1, Value.none)
  | Option.some v => Option.some (Key.int f.1, v)
  | Option.none => Option.none

def selectFields (schema : List (Nat × String × Bool)) (fsV : List (String × Value)) : List (Key × Value) :=
  schema.filterMap (fieldEntry fsV)

mutual
  def Ir.toValue : Ir → Value
    | .u32 n => .int .u32 n
    | .bool b => .bool b
    | .str s => .string s
    | .uuid u => .fixed .uuid u
    | .none => .none
    | .some x => .some x.toValue
    | .map m => .map (.int .u32) (entriesToValue m)
    | .record ty fs => .map .field (selectFields (schemaOf ty) (fieldsToValue fs))
    | .enumv variant payload => .enum variant payload.toValue
  def fieldsToValue : List (String × Ir) → List (String × Value)
    | [] => []
    | (n, x) :: r => (n, x.toValue) :: fieldsToValue r
  def entriesToValue : List (Nat × Ir) → List (Key × Value)
    | [] => []
    | (k, x) :: r => (Key.int k, x.toValue) :: entriesToValue r
end

/-- `SerializedValue::serialize(layout)`: everything inside a layout uses the 1.20 container encodings -/
def layoutBytes (l : Ir) : Bytes := encRaw .v2 l.toValue

/-! ### the ordered set of referenced layouts (`BTreeSet<SerializedValue>`: byte-wise lexicographic) -/

def bytesLt : Bytes → Bytes → Bool
  | [], [] => false
  | [], _ :: _ => true
  | _ :: _, [] => false
  | a :: r, b :: s => a < b || (a == b && bytesLt r s)

/-- `BTreeSet::insert` on a sorted duplicate-free list -/
def setInsert (x : Bytes) : List Bytes → List Bytes
  | [] => [x]
  | y :: r => if bytesLt x y then x :: y :: r else if x == y then y :: r else y :: setInsert x r

def toSet (xs : List Bytes) : List Bytes := xs.foldl (fun acc x => setInsert x acc) []

/-! ### the reference closure (`compute_from_dyn`'s work list) -/

/-- a type as the traversal sees it: its layout and the types `add_references` pushes, in push order -/
structure Node where
  layout : Ir
  refs : List Nat
  deriving Repr, Inhabited

/-- the `while let Some(ty) = references.pop()` loop: `stack` holds indices into `g`, last pushed first;
`seen` is the ordered set of serialized layouts (`Compute::referenced`); a node is expanded only when its
serialized layout is new. Returns the set. -/
def closureLoop (g : List Node) : Nat → List Nat → List Bytes → List Bytes
  | 0, _, seen => seen
  | _, [], seen => seen
  | fuel + 1, stack, seen =>
    match stack.getLast?, g[stack.getLast?.getD 0]? with
    | Option.some _, Option.some n =>
      let bs := layoutBytes n.layout
      if seen.contains bs then closureLoop g fuel stack.dropLast seen
      else closureLoop g fuel (stack.dropLast ++ n.refs) (setInsert bs seen)
    | _, _ => closureLoop g fuel stack.dropLast seen

/-- enough fuel: every iteration pops one entry; an expansion happens at most once per distinct layout
and pushes at most `refs.length` entries -/
def closureFuel (g : List Node) : Nat := (g.map (fun n => n.refs.length + 1)).sum + g.length + 1

def referencedSet (g : List Node) (root : Nat) : List Bytes :=
  match g[root]? with
  | Option.some n => closureLoop g (closureFuel g + n.refs.length) n.refs []
  | Option.none => []

/-! ### the pre-image and the id -/

/-- `SerializedValue::serialize(&compute)`: a `Struct1` with three fields; the layouts are embedded as
they are (tag `Value`), the set as a `Vec2` of embedded values in set order -/
def computeBytesOfSet (root : Ir) (refs : List Bytes) : Bytes :=
  [(Kind.map1 .field).b] ++ putVarint 4 3
    ++ putVarint 4 0 ++ encRaw .v2 (.int .u32 irVersion)
    ++ putVarint 4 1 ++ layoutBytes root
    ++ putVarint 4 2 ++ ([Kind.vec2.b] ++ (refs.map (fun r => Kind.some.b :: r)).flatten ++ [Kind.none.b])

def computeBytes (root : Ir) (referenced : List Ir) : Bytes :=
  let refs := toSet (referenced.map layoutBytes)
  [(Kind.map1 .field).b] ++ putVarint 4 3
    ++ putVarint 4 0 ++ encRaw .v2 (.int .u32 irVersion)
    ++ putVarint 4 1 ++ layoutBytes root
    ++ putVarint 4 2 ++ ([Kind.vec2.b] ++ (refs.map (fun r => Kind.some.b :: r)).flatten ++ [Kind.none.b])

/-- `LayoutIr::namespace()` by the variant of the root layout -/
def namespaceOf (root : Ir) : Option Bytes :=
  match root with
  | .enumv v _ =>
    match irLayoutVariants.find? (·.1 == v) with
    | Option.some (_, name, _) => (irNamespaces.find? (·.1 == name)).map (·.2)
    | Option.none => Option.none
  | _ => Option.none

/-! ### SHA-1 and UUIDv5 (only evaluated by the driver; nothing is proved about them) -/

def rotl (x : UInt32) (n : UInt32) : UInt32 := (x <<< n) ||| (x >>> (32 - n))

def be32 (a b c d : UInt8) : UInt32 :=
  (a.toUInt32 <<< 24) ||| (b.toUInt32 <<< 16) ||| (c.toUInt32 <<< 8) ||| d.toUInt32

def words : List UInt8 → List UInt32
  | a :: b :: c :: d :: r => be32 a b c d :: words r
  | _ => []

def u32be (x : UInt32) : List UInt8 :=
  [(x >>> 24).toUInt8, (x >>> 16).toUInt8, (x >>> 8).toUInt8, x.toUInt8]

def sha1Pad (msg : List UInt8) : List UInt8 :=
  let l := msg.length
  let zeros := (55 + 64 - l % 64) % 64
  let bits := 8 * l
  msg ++ [0x80] ++ List.replicate zeros 0
    ++ [0, 0, 0, 0] ++ u32be (UInt32.ofNat (bits % 4294967296))

def extend (w : Array UInt32) : Array UInt32 := Id.run do
  let mut w := w
  for i in [16:80] do
    w := w.push (rotl (w[i-3]! ^^^ w[i-8]! ^^^ w[i-14]! ^^^ w[i-16]!) 1)
  return w

def sha1Block (h : UInt32 × UInt32 × UInt32 × UInt32 × UInt32) (block : List UInt8) :
    UInt32 × UInt32 × UInt32 × UInt32 × UInt32 := Id.run do
  let w := extend (words block).toArray
  let (h0, h1, h2, h3, h4) := h
  let mut a := h0
  let mut b := h1
  let mut c := h2
  let mut d := h3
  let mut e := h4
  for i in [0:80] do
    let (f, k) :=
      if i < 20 then ((b &&& c) ||| ((~~~ b) &&& d), (0x5A827999 : UInt32))
      else if i < 40 then (b ^^^ c ^^^ d, (0x6ED9EBA1 : UInt32))
      else if i < 60 then ((b &&& c) ||| (b &&& d) ||| (c &&& d), (0x8F1BBCDC : UInt32))
      else (b ^^^ c ^^^ d, (0xCA62C1D6 : UInt32))
    let t := rotl a 5 + f + e + k + w[i]!
    e := d
    d := c
    c := rotl b 30
    b := a
    a := t
  return (h0 + a, h1 + b, h2 + c, h3 + d, h4 + e)

def chunks64 : Nat → List UInt8 → List (List UInt8)
  | 0, _ => []
  | _, [] => []
  | fuel + 1, l => l.take 64 :: chunks64 fuel (l.drop 64)

def sha1 (msg : List UInt8) : List UInt8 :=
  let padded := sha1Pad msg
  let (a, b, c, d, e) := (chunks64 (padded.length / 64 + 1) padded).foldl sha1Block
    ((0x67452301 : UInt32), (0xEFCDAB89 : UInt32), (0x98BADCFE : UInt32), (0x10325476 : UInt32), (0xC3D2E1F0 : UInt32))
  u32be a ++ u32be b ++ u32be c ++ u32be d ++ u32be e

/-- RFC 4122 version 5 -/
def uuid5 (ns name : List UInt8) : List UInt8 :=
  let h := (sha1 (ns ++ name)).take 16
  h.mapIdx (fun i b =>
    if i = 6 then (b &&& 0x0F) ||| 0x50
    else if i = 8 then (b &&& 0x3F) ||| 0x80
    else b)

/-- `TypeId::compute_from_dyn` given the root layout and the layouts reached through references -/
def typeId (root : Ir) (referenced : List Ir) : Option Bytes :=
  (namespaceOf root).map (fun ns => uuid5 ns (computeBytes root referenced))

/-- the id of node `root` of a type graph, as `TypeId::compute_from_dyn` computes it -/
def typeIdOfGraph (g : List Node) (root : Nat) : Option Bytes :=
  match g[root]? with
  | Option.some n => (namespaceOf n.layout).map (fun ns => uuid5 ns (computeBytesOfSet n.layout (referencedSet g root)))
  | Option.none => Option.none

end Aldrin.TypeIdM
