/-
M1 — bytes, little-endian integers, the variable-length integer format of
`core/src/buf_ext.rs`, zig-zag.

Everything here is core Lean only (no Mathlib, no Std imports), so that the
driver executable links.
-/
namespace Aldrin

abbrev Bytes := List UInt8

/-- `k` little-endian bytes of `n` (truncating). `n.to_le_bytes()[..k]`. -/
def leBytes : Nat → Nat → Bytes
  | 0, _ => []
  | k + 1, n => UInt8.ofNat (n % 256) :: leBytes k (n / 256)

/-- Value of a little-endian byte string. `uN::from_le_bytes` on a zero-padded array. -/
def ofLeBytes : Bytes → Nat
  | [] => 0
  | b :: bs => b.toNat + 256 * ofLeBytes bs

/-- Number of significant bytes of `n` (`0` for `0`). -/
def sigBytesAux : Nat → Nat → Nat
  | 0, _ => 0
  | f + 1, n => if n = 0 then 0 else 1 + sigBytesAux f (n / 256)

def sigBytes (n : Nat) : Nat := sigBytesAux n n

/--
`BufMutExt::put_varint_le::<N>` applied to `n.to_le_bytes()` for an `N`-byte unsigned integer.

The loop over the upper `N-1` bytes finds the most significant non-zero byte: with `k` significant
bytes (`k ≥ 2`) it writes `255 - (N - k)` and the low `k` bytes. Otherwise the value fits one byte
and is written directly unless it collides with the length markers (`> 255 - N`), in which case the
marker for one byte (`255 - N + 1`) precedes it.
-/
def putVarint (N : Nat) (n : Nat) : Bytes :=
  let k := sigBytes n
  if 2 ≤ k then UInt8.ofNat (255 - N + k) :: leBytes k n
  else if n > 255 - N then [UInt8.ofNat (255 - N + 1), UInt8.ofNat n]
  else [UInt8.ofNat n]

inductive DeErr where
  | eoi            -- UnexpectedEoi
  | invalid        -- InvalidSerialization
  | unexpected     -- UnexpectedValue
  | trailing       -- TrailingData
  | tooDeep        -- TooDeeplyNested
  | overflow       -- SerializeError::Overflow surfaced through conversion
  | version        -- ValueConversionError::InvalidVersion
  | fuel           -- model artefact: recursion budget exhausted (proved unreachable)
  deriving DecidableEq, Repr, Inhabited

/-- `bs.len() < k` (i.e. `remaining() < k`), computed in `O(k)` rather than `O(bs.length)`. -/
def short (bs : Bytes) (k : Nat) : Bool := (bs.take k).length < k

@[simp] theorem short_eq (bs : Bytes) (k : Nat) : short bs k = decide (bs.length < k) := by
  unfold short
  simp only [List.length_take, decide_eq_decide]
  omega

/-- `ValueBufExt::try_get_varint_le::<N>` followed by `uN::from_le_bytes`. -/
def getVarint (N : Nat) : Bytes → Except DeErr (Nat × Bytes)
  | [] => .error .eoi
  | first :: r =>
    if first.toNat > 255 - N then
      let k := first.toNat + N - 255
      if short r k then .error .eoi
      else .ok (ofLeBytes (r.take k), r.drop k)
    else .ok (first.toNat, r)

/-- `ValueBufExt::try_skip_varint_le::<N>`. -/
def skipVarint (N : Nat) : Bytes → Except DeErr Bytes
  | [] => .error .eoi
  | first :: r =>
    if first.toNat > 255 - N then
      let k := first.toNat + N - 255
      if short r k then .error .eoi else .ok (r.drop k)
    else .ok r

/-- `zigzag_encode_iN` as arithmetic on `Int` (the bit-level form is tied by the harness and
proved equivalent for the three widths in `Lemmas/ZigZagBits.lean`). -/
def zzEnc (i : Int) : Nat := if 0 ≤ i then (2 * i).toNat else (-2 * i - 1).toNat

/-- `zigzag_decode_iN`. -/
def zzDec (n : Nat) : Int := if n % 2 = 0 then (n / 2 : Nat) else -((n / 2 : Nat) : Int) - 1

/-- `try_skip(len)` / `try_copy_to_slice`: take exactly `k` bytes or fail with `eoi`. -/
def takeN (k : Nat) (bs : Bytes) : Except DeErr (Bytes × Bytes) :=
  if short bs k then .error .eoi else .ok (bs.take k, bs.drop k)

end Aldrin
