/-
M7b — `Lifetime::poll_ended` (`aldrin/src/lifetime.rs`): a fold over the events of a bus listener whose only filter is
the scope's object UUID and whose scope is `All`; and the histories of that UUID on the bus.
-/
namespace Aldrin.Lifetime

/-- what the listener reports (cookies as numbers; the UUID is fixed by the filter) -/
inductive LEv where
  | started
  | created (cookie : Nat)
  | destroyed (cookie : Nat)
  | currentFinished
  deriving DecidableEq, Repr

structure LfSt where
  found : Bool := false
  /-- `listener = None`: `poll_ended` has returned `Ready` -/
  ended : Bool := false
  deriving DecidableEq, Repr

/-- one turn of the loop in `poll_ended` for a lifetime bound to `target` -/
def step (target : Nat) (s : LfSt) : LEv → LfSt
  | .started => s
  | .created ck => if ck = target then { s with found := true } else { s with ended := true }
  | .destroyed _ => { s with ended := true }
  | .currentFinished => if s.found then s else { s with ended := true }

/-- all events that are ready; nothing is looked at once the lifetime has ended -/
def run (target : Nat) (s : LfSt) (evs : List LEv) : LfSt :=
  evs.foldl (fun s e => if s.ended then s else step target s e) s

/-! ### the bus, as far as one object UUID goes -/

inductive BOp where
  | create (cookie : Nat)
  | destroy
  deriving DecidableEq, Repr

structure Bus where
  alive : Option Nat := none
  used : List Nat := []
  deriving DecidableEq, Repr

/-- `none`: not a history of the bus (an object is created while one exists, with a cookie used before, or
destroyed while none exists) -/
def Bus.apply (b : Bus) : BOp → Option Bus
  | .create ck => if b.alive.isSome || b.used.contains ck then none else some { alive := some ck, used := ck :: b.used }
  | .destroy => match b.alive with
    | some _ => some { b with alive := none }
    | none => none

def Bus.run (b : Bus) : List BOp → Option Bus
  | [] => some b
  | op :: ops => match b.apply op with
    | some b' => b'.run ops
    | none => none

/-- what a listener that is started on bus `b` reports, and then for the operations that follow -/
def eventsFrom (b : Bus) : List BOp → List LEv
  | [] => []
  | .create ck :: ops => .created ck :: eventsFrom { alive := some ck, used := ck :: b.used } ops
  | .destroy :: ops => .destroyed (b.alive.getD 0) :: eventsFrom { b with alive := none } ops

def currentEvents (b : Bus) : List LEv :=
  (match b.alive with | some ck => [.created ck] | none => []) ++ [.currentFinished]

end Aldrin.Lifetime
