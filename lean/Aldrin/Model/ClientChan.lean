/-
The client side of an established channel (`aldrin/src/low_level/channel/established.rs`: `Sender`, `Receiver`)
composed with the broker's `Channel` (model M4, `Chan`): one producer, one consumer, the system at rest between two
operations (every message in flight has been delivered; the harness waits for that with `sync_broker` on both clients).

`Sender`: `capacity` and the queue `capacity_added` of announcements that the client task has put there;
`poll_send_ready` and `poll_receiver_closed` both drain the queue into `capacity`. `Receiver`: `max_capacity`,
`cur_capacity`, the items waiting in its queue (only their number matters here; order and payload are the broker's
`send_delivers_once`). `u32` counters are `Nat`; the broker's overflow check of a grant is kept.
-/
import Aldrin.Model.Broker.Parts

namespace Aldrin.ClientChan
open Aldrin.Broker Generated

structure Sender where
  capacity : Nat
  queue : List Nat := []
  deriving Repr, DecidableEq, Inhabited

structure Receiver where
  max : Nat
  cur : Nat
  items : Nat := 0
  deriving Repr, DecidableEq, Inhabited

/-- the loop at the head of `poll_send_ready` and of `poll_receiver_closed` -/
def Sender.drain (s : Sender) : Sender := { capacity := s.capacity + s.queue.sum, queue := [] }

structure Sys where
  snd : Sender
  chan : Chan
  rcv : Receiver
  deriving Repr, DecidableEq, Inhabited

/-- connection ids of the producer and of the consumer -/
def sid : ConnId := 0
def rid : ConnId := 1

/-- sender created and claimed, receiver claimed with capacity `max`, both established -/
def init (max : Nat) : Sys :=
  { snd := { capacity := max }, chan := ⟨.claimed sid max, .claimed rid max⟩, rcv := { max := max, cur := max } }

inductive Op where
  /-- `poll_send_ready`, then `start_send_item` if it was ready -/
  | send
  /-- `poll_next_item` -/
  | take
  /-- `poll_receiver_closed` -/
  | pollClosed
  /-- `poll_send_ready` alone -/
  | ready
  deriving Repr, DecidableEq, Inhabited

inductive Obs where
  | sent | blocked | item | empty | pending | isReady
  /-- the broker refused an item or a grant and closes an end -/
  | cutOff
  deriving Repr, DecidableEq, Inhabited

def step (s : Sys) : Op → Except Panic (Sys × Obs)
  | .ready =>
    let snd := s.snd.drain
    .ok ({ s with snd := snd }, if snd.capacity > 0 then .isReady else .blocked)
  | .pollClosed => .ok ({ s with snd := s.snd.drain }, .pending)
  | .send =>
    let snd := s.snd.drain
    if snd.capacity = 0 then .ok ({ s with snd := snd }, .blocked) else
    -- `start_send_serialized`: `debug_assert!(self.capacity > 0)` holds here by the test above
    match s.chan.sendItem sid with
    | .error p => .error p
    | .ok (.error _) => .ok ({ s with snd := snd }, .cutOff)
    | .ok (.ok (c, _, add)) =>
      .ok ({ snd := { capacity := snd.capacity - 1, queue := snd.queue ++ add.toList }, chan := c,
             rcv := { s.rcv with items := s.rcv.items + 1 } }, .sent)
  | .take =>
    if s.rcv.cur = 0 then .error (.debugAssert "poll_next_serialized: cur_capacity > 0") else
    if s.rcv.cur > s.rcv.max then .error (.debugAssert "poll_next_serialized: cur_capacity <= max_capacity") else
    if s.rcv.items = 0 then .ok (s, .empty) else
    let cur := s.rcv.cur - 1
    if cur ≤ clientLowCapacity then
      let diff := s.rcv.max - cur
      if diff < 1 then .error (.debugAssert "poll_next_serialized: diff >= 1") else
      match s.chan.addCapacity rid diff with
      | .error p => .error p
      | .ok none => .ok (s, .cutOff)
      | .ok (some (c, fwd)) =>
        let cur := cur + diff
        if cur = 0 ∨ cur > s.rcv.max then .error (.debugAssert "poll_next_serialized: capacity after the item") else
        .ok ({ snd := { s.snd with queue := s.snd.queue ++ (fwd.map (·.2)).toList }, chan := c,
               rcv := { s.rcv with cur := cur, items := s.rcv.items - 1 } }, .item)
    else
      if cur = 0 ∨ cur > s.rcv.max then .error (.debugAssert "poll_next_serialized: capacity after the item") else
      .ok ({ s with rcv := { s.rcv with cur := cur, items := s.rcv.items - 1 } }, .item)

def run (s : Sys) : List Op → Except Panic (Sys × List Obs)
  | [] => .ok (s, [])
  | op :: ops =>
    match step s op with
    | .error p => .error p
    | .ok (s1, o) =>
      match run s1 ops with
      | .error p => .error p
      | .ok (s2, os) => .ok (s2, o :: os)

end Aldrin.ClientChan

/-! ### the same three parties with messages in flight

Between the sender's client and the broker, the broker and the receiver's client, and back, messages wait in FIFO
queues (the transports and the clients' internal queues); in which order the four queues move is up to the schedule. -/
namespace Aldrin.ClientChan
open Aldrin.Broker Generated

structure ASys where
  snd : Sender
  chan : Chan
  rcv : Receiver
  /-- `SendItem` messages on their way to the broker -/
  sb : Nat := 0
  /-- `ItemReceived` messages on their way into the receiver's queue -/
  br : Nat := 0
  /-- `AddChannelCapacity` messages of the receiver on their way to the broker, oldest first -/
  rb : List Nat := []
  /-- `AddChannelCapacity` messages of the broker on their way into the sender's queue, oldest first -/
  bs : List Nat := []
  deriving Repr, DecidableEq, Inhabited

def ASys.ofSys (s : Sys) : ASys := { snd := s.snd, chan := s.chan, rcv := s.rcv }

inductive AOp where
  | app (op : Op)
  /-- the broker handles the oldest `SendItem` -/
  | brokerItem
  /-- the broker handles the oldest `AddChannelCapacity` -/
  | brokerGrant
  /-- the receiver's client puts the oldest `ItemReceived` into the receiver's queue -/
  | deliverItem
  /-- the sender's client puts the oldest announcement into the sender's queue -/
  | deliverAnn
  deriving Repr, DecidableEq, Inhabited

inductive AObs where
  | app (o : Obs)
  | moved
  /-- the queue this step takes from is empty -/
  | idle
  /-- the broker refused an item or a grant -/
  | cutOff
  deriving Repr, DecidableEq, Inhabited

def astep (s : ASys) : AOp → Except Panic (ASys × AObs)
  | .app .ready =>
    let snd := s.snd.drain
    .ok ({ s with snd := snd }, .app (if snd.capacity > 0 then .isReady else .blocked))
  | .app .pollClosed => .ok ({ s with snd := s.snd.drain }, .app .pending)
  | .app .send =>
    let snd := s.snd.drain
    if snd.capacity = 0 then .ok ({ s with snd := snd }, .app .blocked) else
    .ok ({ s with snd := { snd with capacity := snd.capacity - 1 }, sb := s.sb + 1 }, .app .sent)
  | .app .take =>
    if s.rcv.cur = 0 then .error (.debugAssert "poll_next_serialized: cur_capacity > 0") else
    if s.rcv.cur > s.rcv.max then .error (.debugAssert "poll_next_serialized: cur_capacity <= max_capacity") else
    if s.rcv.items = 0 then .ok (s, .app .empty) else
    let cur := s.rcv.cur - 1
    if cur ≤ clientLowCapacity then
      let diff := s.rcv.max - cur
      if diff < 1 then .error (.debugAssert "poll_next_serialized: diff >= 1") else
      let cur := cur + diff
      if cur = 0 ∨ cur > s.rcv.max then .error (.debugAssert "poll_next_serialized: capacity after the item") else
      .ok ({ s with rcv := { s.rcv with cur := cur, items := s.rcv.items - 1 }, rb := s.rb ++ [diff] }, .app .item)
    else
      if cur = 0 ∨ cur > s.rcv.max then .error (.debugAssert "poll_next_serialized: capacity after the item") else
      .ok ({ s with rcv := { s.rcv with cur := cur, items := s.rcv.items - 1 } }, .app .item)
  | .brokerItem =>
    if s.sb = 0 then .ok (s, .idle) else
    match s.chan.sendItem sid with
    | .error p => .error p
    | .ok (.error _) => .ok ({ s with sb := s.sb - 1 }, .cutOff)
    | .ok (.ok (c, _, add)) => .ok ({ s with chan := c, sb := s.sb - 1, br := s.br + 1, bs := s.bs ++ add.toList }, .moved)
  | .brokerGrant =>
    match s.rb with
    | [] => .ok (s, .idle)
    | g :: rest =>
      match s.chan.addCapacity rid g with
      | .error p => .error p
      | .ok none => .ok ({ s with rb := rest }, .cutOff)
      | .ok (some (c, fwd)) => .ok ({ s with chan := c, rb := rest, bs := s.bs ++ (fwd.map (·.2)).toList }, .moved)
  | .deliverItem =>
    if s.br = 0 then .ok (s, .idle) else
    .ok ({ s with br := s.br - 1, rcv := { s.rcv with items := s.rcv.items + 1 } }, .moved)
  | .deliverAnn =>
    match s.bs with
    | [] => .ok (s, .idle)
    | a :: rest => .ok ({ s with bs := rest, snd := { s.snd with queue := s.snd.queue ++ [a] } }, .moved)

/-- the schedule of a system that comes to rest after every operation, in terms of the moves: after an operation of the
sender the broker handles the item, the receiver's client delivers it and the sender's client delivers the announcement (if
any); after a take the broker handles the grant and the sender's client delivers the announcement -/
def expand : Op → List AOp
  | .send => [.app .send, .brokerItem, .deliverItem, .deliverAnn]
  | .take => [.app .take, .brokerGrant, .deliverAnn]
  | op => [.app op]

def arun (s : ASys) : List AOp → Except Panic (ASys × List AObs)
  | [] => .ok (s, [])
  | op :: ops =>
    match astep s op with
    | .error p => .error p
    | .ok (s1, o) =>
      match arun s1 ops with
      | .error p => .error p
      | .ok (s2, os) => .ok (s2, o :: os)

end Aldrin.ClientChan
