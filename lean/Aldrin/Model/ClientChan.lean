/-
The client side of an established channel (`aldrin/src/low_level/channel/established.rs`: `Sender`, `Receiver`)
composed with the broker's `Channel` (model M4, `Chan`): one producer, one consumer, the system at rest between two
operations (every message in flight has been delivered; the harness waits for that with `sync_broker` on both clients).

`Sender`: `capacity` and the queue `capacity_added` of announcements that the client task has put there;
`poll_send_ready` and `poll_receiver_closed` both drain the queue into `capacity`. `Receiver`: `max_capacity`,
`cur_capacity`, the items waiting in its queue (only their number matters here; order and payload are the broker's
`send_delivers_once`). `u32` counters are `Nat`; the broker's overflow check of a grant is kept.
-/
import Aldrin.Model.Broker.Parts

namespace Aldrin.ClientChan
open Aldrin.Broker Generated

structure Sender where
  capacity : Nat
  queue : List Nat := []
  deriving Repr, DecidableEq, Inhabited

structure Receiver where
  max : Nat
  cur : Nat
  items : Nat := 0
  deriving Repr, DecidableEq, Inhabited

/-- the loop at the head of `poll_send_ready` and of `poll_receiver_closed` -/
def Sender.drain (s : Sender) : Sender := { capacity := s.capacity + s.queue.sum, queue := [] }

structure Sys where
  snd : Sender
  chan : Chan
  rcv : Receiver
  deriving Repr, DecidableEq, Inhabited

/-- connection ids of the producer and of the consumer -/
def sid : ConnId := 0
def rid : ConnId := 1

/-- sender created and claimed, receiver claimed with capacity `max`, both established -/
def init (max : Nat) : Sys :=
  { snd := { capacity := max }, chan := ⟨.claimed sid max, .claimed rid max⟩, rcv := { max := max, cur := max } }

inductive Op where
  /-- `poll_send_ready`, then `start_send_item` if it was ready -/
  | send
  /-- `poll_next_item` -/
  | take
  /-- `poll_receiver_closed` -/
  | pollClosed
  /-- `poll_send_ready` alone -/
  | ready
  deriving Repr, DecidableEq, Inhabited

inductive Obs where
  | sent | blocked | item | empty | pending | isReady
  /-- the broker refused an item or a grant and closes an end -/
  | cutOff
  deriving Repr, DecidableEq, Inhabited

def step (s : Sys) : Op → Except Panic (Sys × Obs)
  | .ready =>
    let snd := s.snd.drain
    .ok ({ s with snd := snd }, if snd.capacity > 0 then .isReady else .blocked)
  | .pollClosed => .ok ({ s with snd := s.snd.drain }, .pending)
  | .send =>
    let snd := s.snd.drain
    if snd.capacity = 0 then .ok ({ s with snd := snd }, .blocked) else
    -- `start_send_serialized`: `debug_assert!(self.capacity > 0)` holds here by the test above
    match s.chan.sendItem sid with
    | .error p => .error p
    | .ok (.error _) => .ok ({ s with snd := snd }, .cutOff)
    | .ok (.ok (c, _, add)) =>
      .ok ({ snd := { capacity := snd.capacity - 1, queue := snd.queue ++ add.toList }, chan := c,
             rcv := { s.rcv with items := s.rcv.items + 1 } }, .sent)
  | .take =>
    if s.rcv.cur = 0 then .error (.debugAssert "poll_next_serialized: cur_capacity > 0") else
    if s.rcv.cur > s.rcv.max then .error (.debugAssert "poll_next_serialized: cur_capacity <= max_capacity") else
    if s.rcv.items = 0 then .ok (s, .empty) else
    let cur := s.rcv.cur - 1
    if cur ≤ clientLowCapacity then
      let diff := s.rcv.max - cur
      if diff < 1 then .error (.debugAssert "poll_next_serialized: diff >= 1") else
      match s.chan.addCapacity rid diff with
      | .error p => .error p
      | .ok none => .ok (s, .cutOff)
      | .ok (some (c, fwd)) =>
        let cur := cur + diff
        if cur = 0 ∨ cur > s.rcv.max then .error (.debugAssert "poll_next_serialized: capacity after the item") else
        .ok ({ snd := { s.snd with queue := s.snd.queue ++ (fwd.map (·.2)).toList }, chan := c,
               rcv := { s.rcv with cur := cur, items := s.rcv.items - 1 } }, .item)
    else
      if cur = 0 ∨ cur > s.rcv.max then .error (.debugAssert "poll_next_serialized: capacity after the item") else
      .ok ({ s with rcv := { s.rcv with cur := cur, items := s.rcv.items - 1 } }, .item)

def run (s : Sys) : List Op → Except Panic (Sys × List Obs)
  | [] => .ok (s, [])
  | op :: ops =>
    match step s op with
    | .error p => .error p
    | .ok (s1, o) =>
      match run s1 ops with
      | .error p => .error p
      | .ok (s2, os) => .ok (s2, o :: os)

end Aldrin.ClientChan
