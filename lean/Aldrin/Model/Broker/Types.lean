/-
M4 — broker state machine, part 1: identifiers, association lists, messages, state.

The real broker (`broker/src/broker.rs`) is a sequential state machine: `handle_event` followed by
`process_loop_result`, driven by `ConnectionEvent`s, emitting messages into per-connection queues.
`HashMap`/`HashSet` are association lists / duplicate-free lists here (iteration order is
insertion order; the harness compares hash-ordered runs as multisets). UUIDv4 cookies are fresh
naturals. A connection's `alive` flag says whether sends to it succeed, i.e. whether its
`Connection` task still holds the receiving end of its queue.
-/
import Aldrin.Model.Bytes

namespace Aldrin.Broker

abbrev ConnId := Nat
abbrev Cookie := Nat      -- broker-issued: object / service / channel / bus-listener cookies
abbrev Uuid := Nat        -- client-chosen: object / service uuids, type ids
abbrev Payload := Bytes   -- serialized value carried by a message

/-! ### association lists and duplicate-free lists -/

namespace AL
variable {K V : Type} [DecidableEq K]

def find? (k : K) : List (K × V) → Option V
  | [] => none
  | (k', v) :: m => if k' = k then some v else find? k m

def erase (k : K) (m : List (K × V)) : List (K × V) := m.filter (fun p => p.1 ≠ k)

/-- `HashMap::insert`: replaces an existing binding (keeps its position), else appends. -/
def insert (k : K) (v : V) : List (K × V) → List (K × V)
  | [] => [(k, v)]
  | (k', v') :: m => if k' = k then (k, v) :: m else (k', v') :: insert k v m

def contains (k : K) (m : List (K × V)) : Bool := (find? k m).isSome
def keys (m : List (K × V)) : List K := m.map Prod.fst
end AL

/-- `HashSet::insert`. -/
def sinsert {α : Type} [DecidableEq α] (a : α) (s : List α) : List α := if s.contains a then s else s ++ [a]
/-- `HashSet::remove`. -/
def sremove {α : Type} [DecidableEq α] (a : α) (s : List α) : List α := s.filter (· ≠ a)

/-! ### protocol vocabulary -/

inductive ChanEnd where
  | sender | receiver
  deriving DecidableEq, Repr, Inhabited

inductive Scope where
  | current | new | all
  deriving DecidableEq, Repr, Inhabited

def Scope.includesCurrent : Scope → Bool | .current | .all => true | .new => false
def Scope.includesNew : Scope → Bool | .new | .all => true | .current => false

structure ObjId where
  uuid : Uuid
  cookie : Cookie
  deriving DecidableEq, Repr, Inhabited

structure SvcId where
  obj : ObjId
  uuid : Uuid
  cookie : Cookie
  deriving DecidableEq, Repr, Inhabited

/-- `BusListenerFilter`. -/
inductive Filter where
  | object (o : Option Uuid)
  | service (o : Option Uuid) (s : Option Uuid)
  deriving DecidableEq, Repr, Inhabited

inductive BusEv where
  | objCreated (o : ObjId)
  | objDestroyed (o : ObjId)
  | svcCreated (s : SvcId)
  | svcDestroyed (s : SvcId)
  deriving DecidableEq, Repr, Inhabited

def Filter.matchesObject : Filter → ObjId → Bool
  | .object none, _ => true
  | .object (some u), o => o.uuid = u
  | .service _ _, _ => false

def Filter.matchesService : Filter → SvcId → Bool
  | .object _, _ => false
  | .service none none, _ => true
  | .service (some o) none, s => s.obj.uuid = o
  | .service none (some u), s => s.uuid = u
  | .service (some o) (some u), s => s.obj.uuid = o && s.uuid = u

def Filter.matchesEvent (f : Filter) : BusEv → Bool
  | .objCreated o | .objDestroyed o => f.matchesObject o
  | .svcCreated s | .svcDestroyed s => f.matchesService s

inductive CallResult where
  | ok (p : Payload) | err (p : Payload)
  | aborted | invalidService | invalidFunction | invalidArgs
  deriving DecidableEq, Repr, Inhabited

/-- What the broker keeps of a `ServiceInfo`. -/
structure SvcInfo where
  version : Nat
  subscribeAll : Option Bool := none
  deriving DecidableEq, Repr, Inhabited

/-- `SerializedValue::serialize(info)` for an info without type id: a `Struct2` with field 0
(`u32` version) and, if set, field 2 (`Some(bool)`). -/
def SvcInfo.bytes (i : SvcInfo) : Payload :=
  let sub : Bytes := match i.subscribeAll with
    | some b => [1, 2, 1, 2, if b then 1 else 0]
    | none => []
  ([65, 1, 0, 7] : Bytes) ++ putVarint 4 i.version ++ sub ++ ([0] : Bytes)

/-- Messages a client can send (all kinds the broker acts on; every other kind is `other`). -/
inductive Req where
  | createObject (serial : Nat) (uuid : Uuid)
  | destroyObject (serial : Nat) (cookie : Cookie)
  | createService (serial : Nat) (obj : Cookie) (uuid : Uuid) (version : Nat)
  | createService2 (serial : Nat) (obj : Cookie) (uuid : Uuid) (info : Option SvcInfo)   -- `none` = undecodable info
  | destroyService (serial : Nat) (cookie : Cookie)
  | callFunction (serial : Nat) (svc : Cookie) (function : Nat) (p : Payload)
  | callFunction2 (serial : Nat) (svc : Cookie) (function : Nat) (version : Option Nat) (p : Payload)
  | callFunctionReply (serial : Nat) (r : CallResult)
  | abortFunctionCall (serial : Nat)
  | subscribeEvent (serial : Option Nat) (svc : Cookie) (event : Nat)
  | unsubscribeEvent (svc : Cookie) (event : Nat)
  | emitEvent (svc : Cookie) (event : Nat) (p : Payload)
  | queryServiceVersion (serial : Nat) (svc : Cookie)
  | queryServiceInfo (serial : Nat) (svc : Cookie)
  | subscribeService (serial : Nat) (svc : Cookie)
  | unsubscribeService (svc : Cookie)
  | subscribeAllEvents (serial : Option Nat) (svc : Cookie)
  | unsubscribeAllEvents (serial : Option Nat) (svc : Cookie)
  | createChannel (serial : Nat) (e : ChanEnd) (cap : Nat)
  | closeChannelEnd (serial : Nat) (cookie : Cookie) (e : ChanEnd)
  | claimChannelEnd (serial : Nat) (cookie : Cookie) (e : ChanEnd) (cap : Nat)
  | sendItem (cookie : Cookie) (p : Payload)
  | addChannelCapacity (cookie : Cookie) (cap : Nat)
  | sync (serial : Nat)
  | createBusListener (serial : Nat)
  | destroyBusListener (serial : Nat) (cookie : Cookie)
  | addFilter (cookie : Cookie) (f : Filter)
  | removeFilter (cookie : Cookie) (f : Filter)
  | clearFilters (cookie : Cookie)
  | startBusListener (serial : Nat) (cookie : Cookie) (scope : Scope)
  | stopBusListener (serial : Nat) (cookie : Cookie)
  | registerIntrospection (types : Option (List Uuid))        -- `none` = undecodable
  | queryIntrospection (serial : Nat) (ty : Uuid)
  | queryIntrospectionReply (serial : Nat) (r : Option Payload)   -- `some` = Ok(introspection)
  | other (kind : Nat)                                         -- any broker→client kind, Connect, Connect2
  deriving DecidableEq, Repr, Inhabited

inductive CreateObjRes | ok (c : Cookie) | duplicate deriving DecidableEq, Repr
inductive DestroyObjRes | ok | invalidObject | foreignObject deriving DecidableEq, Repr
inductive CreateSvcRes | ok (c : Cookie) | duplicate | invalidObject | foreignObject deriving DecidableEq, Repr
inductive DestroySvcRes | ok | invalidService | foreignObject deriving DecidableEq, Repr
inductive SubRes | ok | invalidService | notSupported deriving DecidableEq, Repr
inductive CloseRes | ok | invalidChannel | foreignChannel deriving DecidableEq, Repr
inductive ClaimRes | senderClaimed (cap : Nat) | receiverClaimed | invalidChannel | alreadyClaimed deriving DecidableEq, Repr
inductive ListenerRes | ok | invalid | alreadyStarted | notStarted deriving DecidableEq, Repr

/-- Messages the broker sends. -/
inductive Rsp where
  | createObjectReply (serial : Nat) (r : CreateObjRes)
  | destroyObjectReply (serial : Nat) (r : DestroyObjRes)
  | createServiceReply (serial : Nat) (r : CreateSvcRes)
  | destroyServiceReply (serial : Nat) (r : DestroySvcRes)
  | callFunction (serial : Nat) (svc : Cookie) (function : Nat) (p : Payload)
  | callFunction2 (serial : Nat) (svc : Cookie) (function : Nat) (version : Option Nat) (p : Payload)
  | callFunctionReply (serial : Nat) (r : CallResult)
  | abortFunctionCall (serial : Nat)
  | subscribeEvent (svc : Cookie) (event : Nat)                 -- serial = None, to the owner
  | subscribeEventReply (serial : Nat) (r : SubRes)
  | unsubscribeEvent (svc : Cookie) (event : Nat)
  | emitEvent (svc : Cookie) (event : Nat) (p : Payload)
  | queryServiceVersionReply (serial : Nat) (r : Option Nat)     -- `none` = InvalidService
  | queryServiceInfoReply (serial : Nat) (r : Option Payload)
  | subscribeServiceReply (serial : Nat) (r : SubRes)
  | subscribeAllEvents (svc : Cookie)                            -- serial = None, to the owner
  | subscribeAllEventsReply (serial : Nat) (r : SubRes)
  | unsubscribeAllEvents (svc : Cookie)
  | unsubscribeAllEventsReply (serial : Nat) (r : SubRes)
  | serviceDestroyed (svc : Cookie)
  | createChannelReply (serial : Nat) (c : Cookie)
  | closeChannelEndReply (serial : Nat) (r : CloseRes)
  | channelEndClosed (c : Cookie) (e : ChanEnd)
  | claimChannelEndReply (serial : Nat) (r : ClaimRes)
  | channelEndClaimed (c : Cookie) (e : ChanEnd) (cap : Nat)
  | itemReceived (c : Cookie) (p : Payload)
  | addChannelCapacity (c : Cookie) (cap : Nat)
  | syncReply (serial : Nat)
  | createBusListenerReply (serial : Nat) (c : Cookie)
  | destroyBusListenerReply (serial : Nat) (r : ListenerRes)
  | startBusListenerReply (serial : Nat) (r : ListenerRes)
  | stopBusListenerReply (serial : Nat) (r : ListenerRes)
  | emitBusEvent (listener : Option Cookie) (e : BusEv)
  | busListenerCurrentFinished (c : Cookie)
  | queryIntrospection (serial : Nat) (ty : Uuid)
  | queryIntrospectionReply (serial : Nat) (r : Option Payload)
  | shutdown
  deriving DecidableEq, Repr

/-- A message put into a connection's queue: receiver, the message, and the protocol version the
payload is encoded for (`VersionedMessage::version`; `none` = no conversion needed). -/
structure Out where
  to : ConnId
  msg : Rsp
  ver : Option Nat := none
  deriving DecidableEq, Repr

/-! ### state -/

structure Conn where
  version : Nat                       -- negotiated minor version (major is 1)
  alive : Bool := true
  objects : List Cookie := []
  events : List (Cookie × List Nat) := []
  allEvents : List Cookie := []
  subscriptions : List Cookie := []
  senders : List Cookie := []
  receivers : List Cookie := []
  busListeners : List Cookie := []
  calls : List (Nat × (Nat × ConnId)) := []     -- caller serial ↦ (callee serial, callee conn)
  deriving DecidableEq, Repr, Inhabited

structure Obj where
  conn : ConnId
  cookie : Cookie
  svcs : List Cookie := []
  deriving DecidableEq, Repr, Inhabited

structure Svc where
  cookie : Cookie
  objCookie : Cookie
  calls : List Nat := []
  events : List (Nat × List ConnId) := []
  allEvents : List ConnId := []
  subs : List ConnId := []
  deriving DecidableEq, Repr, Inhabited

structure Call where
  callerSerial : Nat
  callerConn : ConnId
  calleeObj : Uuid
  calleeSvc : Uuid
  aborted : Bool := false
  deriving DecidableEq, Repr, Inhabited

inductive EndState where
  | unclaimed
  | claimed (owner : ConnId) (cap : Nat)
  | closed
  deriving DecidableEq, Repr, Inhabited

structure Chan where
  sender : EndState
  receiver : EndState
  deriving DecidableEq, Repr, Inhabited

structure Listener where
  conn : ConnId
  filters : List Filter := []
  scope : Option Scope := none
  allObjects : Bool := false
  specificServices : Bool := true
  deriving DecidableEq, Repr, Inhabited

structure IQuery where
  conn : ConnId
  serial : Nat
  deriving DecidableEq, Repr, Inhabited

/-- `IntrospectionEntry` (the `conn_id_idxs` index is derivable from `connIds`). -/
structure IEntry where
  connIds : List ConnId := []
  introspection : Option Payload := none
  queried : Option IQuery := none
  pending : List IQuery := []
  deriving DecidableEq, Repr, Inhabited

structure Stats where
  numConnections : Nat := 0
  numObjects : Nat := 0
  numServices : Nat := 0
  numChannels : Nat := 0
  numBusListeners : Nat := 0
  messagesSent : Nat := 0
  messagesReceived : Nat := 0
  deriving DecidableEq, Repr, Inhabited

/-- `SerialMap<T>`. -/
structure SerialMap (T : Type) where
  elems : List (Nat × T) := []
  next : Nat := 0
  deriving Repr, Inhabited

/-- Deferred work (`state.rs`): LIFO vectors, newest first. -/
structure Work where
  shutdownNow : Bool := false
  shutdownIdle : Bool := false
  removeConns : List (ConnId × Bool) := []
  removeCalls : List (Nat × ConnId × CallResult) := []
  servicesDestroyed : List (ConnId × Cookie) := []
  unsubscribeEvent : List (ConnId × Cookie × Nat) := []
  unsubscribeAll : List (ConnId × Cookie) := []
  createObject : List ObjId := []
  destroyObject : List ObjId := []
  createService : List SvcId := []
  destroyService : List SvcId := []
  abortCalls : List (Nat × ConnId) := []
  deriving Repr, Inhabited

structure Broker where
  conns : List (ConnId × Conn) := []
  objUuids : List (Cookie × Uuid) := []
  objs : List (Uuid × Obj) := []
  svcUuids : List (Cookie × (ObjId × Uuid × SvcInfo)) := []
  svcs : List ((Uuid × Uuid) × Svc) := []
  calls : SerialMap Call := {}
  channels : List (Cookie × Chan) := []
  listeners : List (Cookie × Listener) := []
  stats : Stats := {}
  introspection : List (Uuid × IEntry) := []
  iqueries : SerialMap Uuid := {}
  nextCookie : Cookie := 0
  deriving Repr, Inhabited

/-- Where the real code would panic (`expect("inconsistent state")`, `unreachable!()`,
`debug_assert!`). -/
inductive Panic where
  | inconsistent (site : String)
  | unreachable (site : String)
  | debugAssert (site : String)
  | fuel
  deriving DecidableEq, Repr

/-- Protocol versions by minor number. -/
def v1_14 : Nat := 14
def v1_16 : Nat := 16
def v1_17 : Nat := 17
def v1_18 : Nat := 18
def v1_19 : Nat := 19
def v1_20 : Nat := 20

end Aldrin.Broker
