/-
M4 — broker state machine, part 2: the component types with their own logic
(`serial_map.rs`, `broker/channel.rs`, `bus_listener.rs`, `broker/service.rs`,
`broker/conn_state.rs`, `introspection_database.rs`).
-/
import Aldrin.Model.Broker.Types
import Aldrin.Generated.Broker

namespace Aldrin.Broker
open Generated

def u32Max : Nat := 4294967295

/-! ### `SerialMap` -/

/-- `SerialMap::insert`: the first free serial at or after `next` (wrapping at 2³²). The search
is bounded by the number of entries + 1: among that many consecutive serials one is free. -/
def SerialMap.findFree {T : Type} (m : SerialMap T) : Nat → Nat → Nat
  | 0, s => s
  | fuel + 1, s => if (AL.find? s m.elems).isSome then findFree m fuel ((s + 1) % (u32Max + 1)) else s

def SerialMap.insert {T : Type} (m : SerialMap T) (x : T) : SerialMap T × Nat :=
  let s := m.findFree (m.elems.length + 1) m.next
  ({ elems := m.elems ++ [(s, x)], next := (s + 1) % (u32Max + 1) }, s)

def SerialMap.get? {T : Type} (m : SerialMap T) (s : Nat) : Option T := AL.find? s m.elems
def SerialMap.remove {T : Type} (m : SerialMap T) (s : Nat) : SerialMap T := { m with elems := AL.erase s m.elems }
def SerialMap.set {T : Type} (m : SerialMap T) (s : Nat) (x : T) : SerialMap T := { m with elems := AL.insert s x m.elems }

/-! ### `Channel` -/

def lowCapacity : Nat := brokerLowCapacity

def Chan.withClaimedSender (owner : ConnId) : Chan := ⟨.claimed owner 0, .unclaimed⟩
def Chan.withClaimedReceiver (owner : ConnId) (cap : Nat) : Chan := ⟨.unclaimed, .claimed owner cap⟩

def Chan.endState (c : Chan) : ChanEnd → EndState
  | .sender => c.sender
  | .receiver => c.receiver

/-- `Channel::check_close`: (result, claimed). -/
def Chan.checkClose (c : Chan) (conn : ConnId) (e : ChanEnd) : CloseRes × Bool :=
  match c.endState e with
  | .unclaimed => (.ok, false)
  | .claimed owner _ => if owner = conn then (.ok, true) else (.foreignChannel, true)
  | .closed => (.invalidChannel, false)

/-- `Channel::close`: the end is closed; result = owner of the other end to notify, if the channel
survives. The five `unreachable!()` combinations are panics. -/
def Chan.close (c : Chan) (e : ChanEnd) : Except Panic (Chan × Option ConnId) :=
  let (owner, other) := match e with
    | .sender => (c.sender, c.receiver)
    | .receiver => (c.receiver, c.sender)
  let c' : Chan := match e with
    | .sender => { c with sender := .closed }
    | .receiver => { c with receiver := .closed }
  match owner, other with
  | .claimed _ _, .unclaimed => .ok (c', none)
  | .claimed _ _, .closed => .ok (c', none)
  | .unclaimed, .claimed o _ => .ok (c', some o)
  | .claimed _ _, .claimed o _ => .ok (c', some o)
  | _, _ => .error (.unreachable "Channel::close")

/-- `Channel::claim_sender`: `ok (channel, receiver owner, capacity)`. -/
def Chan.claimSender (c : Chan) (conn : ConnId) : Except Panic (Except ClaimRes (Chan × ConnId × Nat)) :=
  match c.sender with
  | .claimed _ _ => .ok (.error .alreadyClaimed)
  | .closed => .ok (.error .invalidChannel)
  | .unclaimed => match c.receiver with
    | .claimed r cap => .ok (.ok ({ c with sender := .claimed conn cap }, r, cap))
    | _ => .error (.unreachable "Channel::claim_sender")

/-- `Channel::claim_receiver`: `ok (channel, sender owner)`. -/
def Chan.claimReceiver (c : Chan) (conn : ConnId) (cap : Nat) : Except Panic (Except ClaimRes (Chan × ConnId)) :=
  match c.receiver with
  | .claimed _ _ => .ok (.error .alreadyClaimed)
  | .closed => .ok (.error .invalidChannel)
  | .unclaimed => match c.sender with
    | .claimed s _ => .ok (.ok ({ sender := .claimed s cap, receiver := .claimed conn cap }, s))
    | _ => .error (.unreachable "Channel::claim_receiver")

inductive SendItemErr where
  | invalidSender | receiverUnclaimed | receiverClosed | capacityExhausted
  deriving DecidableEq, Repr

/-- `Channel::send_item`: `ok (channel, receiver, capacity to add to the sender)`. -/
def Chan.sendItem (c : Chan) (conn : ConnId) : Except Panic (Except SendItemErr (Chan × ConnId × Option Nat)) :=
  match c.sender with
  | .claimed s scap =>
    if s ≠ conn then .ok (.error .invalidSender) else
    match c.receiver with
    | .unclaimed => .ok (.error .receiverUnclaimed)
    | .closed => .ok (.error .receiverClosed)
    | .claimed r rcap =>
      if scap = 0 then
        if rcap ≠ 0 then .error (.debugAssert "send_item: receiver_capacity == 0") else .ok (.error .capacityExhausted)
      else if rcap = 0 then .error (.debugAssert "send_item: receiver_capacity underflow")
      else
        let scap := scap - 1
        let rcap := rcap - 1
        if scap ≤ lowCapacity ∧ rcap > scap then
          .ok (.ok (⟨.claimed s rcap, .claimed r rcap⟩, r, some (rcap - scap)))
        else .ok (.ok (⟨.claimed s scap, .claimed r rcap⟩, r, none))
  | _ => .ok (.error .invalidSender)

/-- `Channel::add_capacity`: `none` = overflow (`AddCapacityError`);
`some (channel, some (sender, diff))` = forward `diff` to the sender. -/
def Chan.addCapacity (c : Chan) (conn : ConnId) (cap : Nat) : Except Panic (Option (Chan × Option (ConnId × Nat))) :=
  if cap = 0 then .ok (some (c, none)) else
  match c.receiver with
  | .claimed r rcap =>
    if r ≠ conn then .ok (some (c, none)) else
    if rcap + cap > u32Max then .ok none else
    let rcap := rcap + cap
    match c.sender with
    | .claimed s scap =>
      if scap ≤ lowCapacity then
        if ¬ (rcap > scap) then .error (.debugAssert "add_capacity: receiver_capacity > sender_capacity")
        else .ok (some (⟨.claimed s rcap, .claimed r rcap⟩, some (s, rcap - scap)))
      else .ok (some (⟨.claimed s scap, .claimed r rcap⟩, none))
    | st => .ok (some (⟨st, .claimed r rcap⟩, none))
  | _ => .ok (some (c, none))

/-! ### `BusListener` -/

def Filter.isAnyObject : Filter → Bool
  | .object none => true
  | _ => false

def Filter.isSpecificService : Filter → Bool
  | .service (some _) (some _) => true
  | _ => false

def Filter.objectUuid? : Filter → Option Uuid
  | .object (some u) => some u
  | _ => none

def Filter.servicePair? : Filter → Option (Uuid × Uuid)
  | .service (some o) (some s) => some (o, s)
  | _ => none

def Filter.isUnspecificService : Filter → Bool
  | .service (some _) (some _) => false
  | .service _ _ => true
  | .object _ => false

def Listener.addFilter (l : Listener) (f : Filter) : Listener :=
  { l with filters := sinsert f l.filters,
           allObjects := l.allObjects || f.isAnyObject,
           specificServices := l.specificServices && f.isSpecificService }

def Listener.removeFilter (l : Listener) (f : Filter) : Listener :=
  let fs := sremove f l.filters
  { l with filters := fs, allObjects := fs.any Filter.isAnyObject, specificServices := fs.all Filter.isSpecificService }

def Listener.clearFilters (l : Listener) : Listener :=
  { l with filters := [], allObjects := false, specificServices := true }

def Listener.matchesObject (l : Listener) (o : ObjId) : Bool :=
  l.allObjects || l.filters.any (·.matchesObject o)

def Listener.matchesService (l : Listener) (s : SvcId) : Bool := l.filters.any (·.matchesService s)

def Listener.matchesNewEvent (l : Listener) (e : BusEv) : Bool :=
  (match l.scope with | some sc => sc.includesNew | none => false) && l.filters.any (·.matchesEvent e)

/-- `specific_objects`: `none` if any-object is among the filters; a `Object(None)` filter met
while the flag says otherwise is the `unreachable!()` of the code. -/
def Listener.specificObjects (l : Listener) : Except Panic (Option (List Uuid)) :=
  if l.allObjects then .ok none else
  if l.filters.any Filter.isAnyObject then .error (.unreachable "specific_objects") else
  .ok (some (l.filters.filterMap Filter.objectUuid?))

def Listener.specificServices? (l : Listener) : Except Panic (Option (List (Uuid × Uuid))) :=
  if !l.specificServices then .ok none else
  if l.filters.any Filter.isUnspecificService
  then .error (.unreachable "specific_services") else
  .ok (some (l.filters.filterMap Filter.servicePair?))

/-! ### `Service` -/

/-- `Service::subscribe_event`: true iff this is the first subscriber of the event. -/
def Svc.subscribeEvent (s : Svc) (ev : Nat) (c : ConnId) : Svc × Bool :=
  match AL.find? ev s.events with
  | some subs => ({ s with events := AL.insert ev (sinsert c subs) s.events }, false)
  | none => ({ s with events := AL.insert ev [c] s.events }, true)

/-- `Service::unsubscribe_event`: true iff the entry for the event became empty and was removed
(also when `c` was not a subscriber but the entry existed — it cannot be empty before). -/
def Svc.unsubscribeEvent (s : Svc) (ev : Nat) (c : ConnId) : Svc × Bool :=
  match AL.find? ev s.events with
  | some subs =>
    let subs := sremove c subs
    if subs.isEmpty then ({ s with events := AL.erase ev s.events }, true)
    else ({ s with events := AL.insert ev subs s.events }, false)
  | none => (s, false)

def Svc.subscribeAll (s : Svc) (c : ConnId) : Svc × Bool :=
  ({ s with allEvents := sinsert c s.allEvents }, s.allEvents.isEmpty)

def Svc.unsubscribeAll (s : Svc) (c : ConnId) : Svc × Bool :=
  let a := sremove c s.allEvents
  ({ s with allEvents := a }, !s.allEvents.isEmpty && a.isEmpty)

/-- `Service::subscribed_conn_ids`: union of all per-event subscriber sets and the service
subscriptions (NOT the all-events subscribers). -/
def Svc.subscribedConnIds (s : Svc) : List ConnId :=
  (s.events.foldl (fun acc p => p.2.foldl (fun a c => sinsert c a) acc) []) |> fun acc =>
    s.subs.foldl (fun a c => sinsert c a) acc

/-! ### `ConnectionState` -/

def Conn.subscribeEvent (c : Conn) (svc : Cookie) (ev : Nat) : Conn :=
  { c with events := AL.insert svc (sinsert ev ((AL.find? svc c.events).getD [])) c.events }

def Conn.unsubscribeEvent (c : Conn) (svc : Cookie) (ev : Nat) : Conn :=
  match AL.find? svc c.events with
  | some evs =>
    let evs := sremove ev evs
    if evs.isEmpty then { c with events := AL.erase svc c.events }
    else { c with events := AL.insert svc evs c.events }
  | none => c

def Conn.isSubscribedToEvent (c : Conn) (svc : Cookie) (ev : Nat) : Bool :=
  c.allEvents.contains svc || ((AL.find? svc c.events).map (·.contains ev)).getD false

def Conn.unsubscribeAllOf (c : Conn) (svc : Cookie) : Conn :=
  { c with events := AL.erase svc c.events, subscriptions := sremove svc c.subscriptions }

def Conn.eventSubscriptions (c : Conn) : List (Cookie × Nat) :=
  c.events.flatMap (fun p => p.2.map (fun e => (p.1, e)))

/-! ### `IntrospectionEntry` -/

def IEntry.register (e : IEntry) (c : ConnId) : IEntry :=
  if e.connIds.contains c then e else { e with connIds := e.connIds ++ [c] }

/-- `IntrospectionEntry::remove_conn`: (entry, retain). `swap_remove` moves the last element into
the freed slot. -/
def IEntry.removeConn (e : IEntry) (c : ConnId) : IEntry × Bool :=
  let e := { e with queried := match e.queried with
                        | some q => if q.conn = c then none else some q
                        | none => none,
                    pending := e.pending.filter (·.conn ≠ c) }
  match e.connIds.findIdx? (· = c) with
  | none => (e, true)
  | some idx =>
    if e.connIds.length = 1 then ({ e with connIds := [] }, false)
    else
      let last := e.connIds.getLast!
      let without := e.connIds.dropLast
      let ids := if idx = without.length then without else without.set idx last
      ({ e with connIds := ids }, true)

end Aldrin.Broker
