/-
M4 — histories: `Broker::run` as a fold of `step` over the events in the order the broker dequeues
them. The trace records what each turn put into the connections' queues.
-/
import Aldrin.Model.Broker.Step

namespace Aldrin.Broker

/-- run a history; stops at the first panic -/
def run (b : Broker) (w : Work) : List Event → Except Panic (Broker × Work × List (List Out))
  | [] => .ok (b, w, [])
  | e :: es =>
    match step b w e with
    | .error p => .error p
    | .ok (b', w', out) =>
      match run b' w' es with
      | .error p => .error p
      | .ok (b'', w'', outs) => .ok (b'', w'', out :: outs)

end Aldrin.Broker
