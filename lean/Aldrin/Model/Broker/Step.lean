/-
M4 — broker state machine, part 3: `handle_event`, the message handlers and
`process_loop_result` of `broker/src/broker.rs`, one model function per Rust function.

Every handler returns `Except Panic (St × Bool)`: the new state and whether the handler returned
`Ok(())` (`true`) or `Err(())` (`false`, which makes `handle_event` queue the sending connection
for removal). `Panic` is where the Rust code has an `expect("inconsistent state")`,
`unreachable!()` or `debug_assert!`.
-/
import Aldrin.Model.Broker.Parts

namespace Aldrin.Broker
open Generated

structure St where
  b : Broker := {}
  w : Work := {}
  out : List Out := []
  deriving Repr, Inhabited

abbrev H := Except Panic (St × Bool)

def okH (s : St) : H := .ok (s, true)
def errH (s : St) : H := .ok (s, false)

/-! ### state update primitives (one per field; the proofs never unfold them, see Lemmas/Broker/Prim.lean) -/

def St.setConns (s : St) (x : List (ConnId × Conn)) : St := { s with b := { s.b with conns := x } }
def St.setObjUuids (s : St) (x : List (Cookie × Uuid)) : St := { s with b := { s.b with objUuids := x } }
def St.setObjs (s : St) (x : List (Uuid × Obj)) : St := { s with b := { s.b with objs := x } }
def St.setSvcUuids (s : St) (x : List (Cookie × (ObjId × Uuid × SvcInfo))) : St := { s with b := { s.b with svcUuids := x } }
def St.setSvcs (s : St) (x : List ((Uuid × Uuid) × Svc)) : St := { s with b := { s.b with svcs := x } }
def St.setCalls (s : St) (x : SerialMap Call) : St := { s with b := { s.b with calls := x } }
def St.setChannels (s : St) (x : List (Cookie × Chan)) : St := { s with b := { s.b with channels := x } }
def St.setListeners (s : St) (x : List (Cookie × Listener)) : St := { s with b := { s.b with listeners := x } }
def St.setIntrospection (s : St) (x : List (Uuid × IEntry)) : St := { s with b := { s.b with introspection := x } }
def St.setIqueries (s : St) (x : SerialMap Uuid) : St := { s with b := { s.b with iqueries := x } }
def St.setNextCookie (s : St) (x : Cookie) : St := { s with b := { s.b with nextCookie := x } }
def St.setWShutdownNow (s : St) (x : Bool) : St := { s with w := { s.w with shutdownNow := x } }
def St.setWShutdownIdle (s : St) (x : Bool) : St := { s with w := { s.w with shutdownIdle := x } }
def St.setWRemoveConns (s : St) (x : List (ConnId × Bool)) : St := { s with w := { s.w with removeConns := x } }
def St.setWRemoveCalls (s : St) (x : List (Nat × ConnId × CallResult)) : St := { s with w := { s.w with removeCalls := x } }
def St.setWServicesDestroyed (s : St) (x : List (ConnId × Cookie)) : St := { s with w := { s.w with servicesDestroyed := x } }
def St.setWUnsubscribeEvent (s : St) (x : List (ConnId × Cookie × Nat)) : St := { s with w := { s.w with unsubscribeEvent := x } }
def St.setWUnsubscribeAll (s : St) (x : List (ConnId × Cookie)) : St := { s with w := { s.w with unsubscribeAll := x } }
def St.setWCreateObject (s : St) (x : List ObjId) : St := { s with w := { s.w with createObject := x } }
def St.setWDestroyObject (s : St) (x : List ObjId) : St := { s with w := { s.w with destroyObject := x } }
def St.setWCreateService (s : St) (x : List SvcId) : St := { s with w := { s.w with createService := x } }
def St.setWDestroyService (s : St) (x : List SvcId) : St := { s with w := { s.w with destroyService := x } }
def St.setWAbortCalls (s : St) (x : List (Nat × ConnId)) : St := { s with w := { s.w with abortCalls := x } }
def St.setOut (s : St) (x : List Out) : St := { s with out := x }
def St.stat (s : St) (f : Stats → Stats) : St := { s with b := { s.b with stats := f s.b.stats } }

def St.conn? (s : St) (id : ConnId) : Option Conn := AL.find? id s.b.conns

def St.setConn (s : St) (id : ConnId) (c : Conn) : St := s.setConns (AL.insert id c s.b.conns)

def St.updConn (s : St) (id : ConnId) (f : Conn → Conn) : St :=
  match s.conn? id with
  | some c => s.setConn id (f c)
  | none => s

/-- `send!`: put a message into a connection's queue. Fails iff the connection's task no longer
holds the receiving end. `messages_sent` counts attempts. -/
def St.send (s : St) (to : ConnId) (m : Rsp) (ver : Option Nat := none) : St × Bool :=
  let s := s.stat (fun st => { st with messagesSent := st.messagesSent + 1 })
  match s.conn? to with
  | some c => if c.alive then ((s.setOut (s.out ++ [⟨to, m, ver⟩])), true) else (s, false)
  | none => (s, false)

def St.pushRemoveConn (s : St) (id : ConnId) (sendShutdown : Bool := false) : St :=
  (s.setWRemoveConns ((id, sendShutdown) :: s.w.removeConns))

/-- send to some connection; on failure queue *that* connection for removal -/
def St.sendOrRemove (s : St) (to : ConnId) (m : Rsp) (ver : Option Nat := none) : St :=
  let (s, ok) := s.send to m ver
  if ok then s else s.pushRemoveConn to

def St.freshCookie (s : St) : St × Cookie :=
  ((s.setNextCookie (s.b.nextCookie + 1)), s.b.nextCookie)


/-! ### removal helpers -/

def removeBusListener (s : St) (cookie : Cookie) : St :=
  match AL.find? cookie s.b.listeners with
  | none => s
  | some l =>
    let s := (s.setListeners (AL.erase cookie s.b.listeners))
    let s := s.updConn l.conn (fun c => { c with busListeners := sremove cookie c.busListeners })
    s.stat (fun st => { st with numBusListeners := st.numBusListeners - 1 })

/-- `remove_service` -/
def removeService (s : St) (svcCookie : Cookie) : Except Panic St :=
  match AL.find? svcCookie s.b.svcUuids with
  | none => .ok s
  | some (objId, svcUuid, _) =>
    let s := (s.setSvcUuids (AL.erase svcCookie s.b.svcUuids))
    match AL.find? (objId.uuid, svcUuid) s.b.svcs with
    | none => .error (.inconsistent "remove_service: svcs")
    | some svc =>
      let s := (s.setSvcs (AL.erase (objId.uuid, svcUuid) s.b.svcs))
      let s := match AL.find? objId.uuid s.b.objs with
        | some o => (s.setObjs (AL.insert objId.uuid { o with svcs := sremove svcCookie o.svcs } s.b.objs))
        | none => s
      let s := (s.setWDestroyService (⟨objId, svcUuid, svcCookie⟩ :: s.w.destroyService))
      -- pending calls
      let rec calls (s : St) : List Nat → Except Panic St
        | [] => .ok s
        | serial :: rest =>
          match s.b.calls.get? serial with
          | none => .error (.inconsistent "remove_service: function_calls")
          | some call =>
            let s := (s.setCalls (s.b.calls.remove serial))
            let s := if call.aborted then s else
              (s.setWRemoveCalls ((call.callerSerial, call.callerConn, CallResult.invalidService) :: s.w.removeCalls))
            calls s rest
      match calls s svc.calls with
      | .error e => .error e
      | .ok s =>
        let s := svc.subscribedConnIds.foldl (fun s cid =>
          match s.conn? cid with
          | some c =>
            let s := s.setConn cid (c.unsubscribeAllOf svcCookie)
            (s.setWServicesDestroyed ((cid, svcCookie) :: s.w.servicesDestroyed))
          | none => s) s
        .ok (s.stat (fun st => { st with numServices := st.numServices - 1 }))

/-- `remove_object` -/
def removeObject (s : St) (objCookie : Cookie) : Except Panic St :=
  match AL.find? objCookie s.b.objUuids with
  | none => .ok s
  | some objUuid =>
    let s := (s.setObjUuids (AL.erase objCookie s.b.objUuids))
    match AL.find? objUuid s.b.objs with
    | none => .error (.inconsistent "remove_object: objs")
    | some obj =>
      let s := (s.setObjs (AL.erase objUuid s.b.objs))
      let s := s.updConn obj.conn (fun c => { c with objects := sremove objCookie c.objects })
      let s := (s.setWDestroyObject (⟨objUuid, objCookie⟩ :: s.w.destroyObject))
      let rec svcs (s : St) : List Cookie → Except Panic St
        | [] => .ok s
        | c :: rest => match removeService s c with
          | .error e => .error e
          | .ok s => svcs s rest
      match svcs s obj.svcs with
      | .error e => .error e
      | .ok s => .ok (s.stat (fun st => { st with numObjects := st.numObjects - 1 }))

/-- `remove_event_subscription` -/
def removeEventSubscription (s : St) (cid : ConnId) (svcCookie : Cookie) (ev : Nat) : Except Panic St :=
  match AL.find? svcCookie s.b.svcUuids with
  | none => .ok s
  | some (objId, svcUuid, _) =>
    let s := s.updConn cid (fun c => c.unsubscribeEvent svcCookie ev)
    match AL.find? (objId.uuid, svcUuid) s.b.svcs with
    | none => .error (.inconsistent "remove_event_subscription: svcs")
    | some svc =>
      let (svc, last) := svc.unsubscribeEvent ev cid
      let s := (s.setSvcs (AL.insert (objId.uuid, svcUuid) svc s.b.svcs))
      if last then
        match AL.find? objId.uuid s.b.objs with
        | none => .error (.inconsistent "remove_event_subscription: objs")
        | some obj => .ok (s.setWUnsubscribeEvent ((obj.conn, svcCookie, ev) :: s.w.unsubscribeEvent))
      else .ok s

/-- `remove_all_events_subscription` -/
def removeAllEventsSubscription (s : St) (cid : ConnId) (svcCookie : Cookie) : Except Panic St :=
  match AL.find? svcCookie s.b.svcUuids with
  | none => .ok s
  | some (objId, svcUuid, _) =>
    let s := s.updConn cid (fun c => { c with allEvents := sremove svcCookie c.allEvents })
    match AL.find? (objId.uuid, svcUuid) s.b.svcs with
    | none => .error (.inconsistent "remove_all_events_subscription: svcs")
    | some svc =>
      let (svc, last) := svc.unsubscribeAll cid
      let s := (s.setSvcs (AL.insert (objId.uuid, svcUuid) svc s.b.svcs))
      if last then
        match AL.find? objId.uuid s.b.objs with
        | none => .error (.inconsistent "remove_all_events_subscription: objs")
        | some obj => .ok (s.setWUnsubscribeAll ((obj.conn, svcCookie) :: s.w.unsubscribeAll))
      else .ok s

/-- `remove_subscription` -/
def removeSubscription (s : St) (cid : ConnId) (svcCookie : Cookie) : Except Panic St :=
  match AL.find? svcCookie s.b.svcUuids with
  | none => .ok s
  | some (objId, svcUuid, _) =>
    match AL.find? (objId.uuid, svcUuid) s.b.svcs with
    | none => .error (.inconsistent "remove_subscription: svcs")
    | some svc =>
      .ok (s.setSvcs (AL.insert (objId.uuid, svcUuid) { svc with subs := sremove cid svc.subs } s.b.svcs))

/-- `remove_channel_end` -/
def removeChannelEnd (s : St) (cookie : Cookie) (e : ChanEnd) (owner : Option ConnId) : Except Panic St :=
  match AL.find? cookie s.b.channels with
  | none => .ok s
  | some ch =>
    let s := match owner with
      | some o => s.updConn o (fun c => match e with
          | .sender => { c with senders := sremove cookie c.senders }
          | .receiver => { c with receivers := sremove cookie c.receivers })
      | none => s
    match ch.close e with
    | .error p => .error p
    | .ok (ch', other) =>
      let s := (s.setChannels (AL.insert cookie ch' s.b.channels))
      let (s, remove) := match other with
        | some oid =>
          if (s.conn? oid).isSome then (s.sendOrRemove oid (.channelEndClosed cookie e), false) else (s, true)
        | none => (s, true)
      if remove then
        .ok ((s.setChannels (AL.erase cookie s.b.channels)).stat
          (fun st => { st with numChannels := st.numChannels - 1 }))
      else .ok s

/-! ### introspection -/

/-- The random choice of `query_random_conn`, fixed to the first registered connection; the
harness keeps at most one connection registered per type when it compares routing. -/
def IEntry.queryRandomConn (e : IEntry) (serial : Nat) : Except Panic (IEntry × ConnId) :=
  match e.connIds with
  | [] => .error (.debugAssert "query_random_conn: no connection")
  | c :: _ =>
    if e.queried.isSome then .error (.debugAssert "query_random_conn: already queried")
    else .ok ({ e with queried := some ⟨c, serial⟩ }, c)

/-- start (or continue) querying some registered connection for `ty` -/
def askIntrospection (s : St) (ty : Uuid) (entry : IEntry) : Except Panic St :=
  let (iq, serial) := s.b.iqueries.insert ty
  match entry.queryRandomConn serial with
  | .error p => .error p
  | .ok (entry, cid) =>
    let s := ((s.setIqueries (iq)).setIntrospection (AL.insert ty entry s.b.introspection))
    if (s.conn? cid).isNone then .error (.inconsistent "query introspection: conn") else
    .ok (s.sendOrRemove cid (.queryIntrospection serial ty))

def replyPending (s : St) (pending : List IQuery) (r : Option Payload) (mustExist : Bool) : Except Panic St :=
  match pending with
  | [] => .ok s
  | q :: rest =>
    if (s.conn? q.conn).isNone then
      if mustExist then .error (.inconsistent "introspection pending: conn") else replyPending s rest r mustExist
    else replyPending (s.sendOrRemove q.conn (.queryIntrospectionReply q.serial r)) rest r mustExist

/-- `remove_introspection_conn` -/
def removeIntrospectionConn (s : St) (cid : ConnId) : Except Panic St :=
  -- `IntrospectionDatabase::remove_conn` (retain over all entries)
  let step (acc : List (Uuid × IEntry) × List (Nat × Option Uuid × List IQuery)) (p : Uuid × IEntry) :=
    let (ty, entry) := p
    let was := entry.queried.map (·.serial)
    let (entry', retain) := entry.removeConn cid
    let isq := entry'.queried.map (·.serial)
    let res := match was, isq with
      | some serial, none =>
        if retain then acc.2 ++ [(serial, some ty, [])] else acc.2 ++ [(serial, none, entry'.pending)]
      | _, _ => acc.2
    let entry' := match was, isq with
      | some _, none => if retain then entry' else { entry' with pending := [] }
      | _, _ => entry'
    (if retain then acc.1 ++ [(ty, entry')] else acc.1, res)
  let (entries, results) := s.b.introspection.foldl step ([], [])
  let s := (s.setIntrospection (entries))
  let rec go (s : St) : List (Nat × Option Uuid × List IQuery) → Except Panic St
    | [] => .ok s
    | (serial, cont, pending) :: rest =>
      if (s.b.iqueries.get? serial).isNone then .error (.inconsistent "remove_introspection_conn: serial") else
      let s := (s.setIqueries (s.b.iqueries.remove serial))
      match cont with
      | none => match replyPending s pending none false with
        | .error p => .error p
        | .ok s => go s rest
      | some ty => match AL.find? ty s.b.introspection with
        | none => go s rest
        | some entry => match askIntrospection s ty entry with
          | .error p => .error p
          | .ok s => go s rest
  go s results

/-! ### `shutdown_connection` -/

def foldE {α : Type} (f : St → α → Except Panic St) (s : St) : List α → Except Panic St
  | [] => .ok s
  | a :: rest => match f s a with
    | .error e => .error e
    | .ok s => foldE f s rest

def shutdownConnection (s : St) (id : ConnId) (sendShutdown : Bool) : Except Panic St :=
  match s.conn? id with
  | none => .ok s
  | some conn =>
    -- the connection is removed first; the Shutdown message goes to the removed state's queue
    let s := if sendShutdown then
        let s := s.stat (fun st => { st with messagesSent := st.messagesSent + 1 })
        if conn.alive then (s.setOut (s.out ++ [⟨id, .shutdown, none⟩])) else s
      else s
    let s := (s.setConns (AL.erase id s.b.conns))
    let s := conn.busListeners.foldl removeBusListener s
    match foldE removeObject s conn.objects with
    | .error e => .error e
    | .ok s =>
    match foldE (fun s (p : Cookie × Nat) => removeEventSubscription s id p.1 p.2) s conn.eventSubscriptions with
    | .error e => .error e
    | .ok s =>
    match foldE (fun s c => removeAllEventsSubscription s id c) s conn.allEvents with
    | .error e => .error e
    | .ok s =>
    match foldE (fun s c => removeSubscription s id c) s conn.subscriptions with
    | .error e => .error e
    | .ok s =>
    match foldE (fun s c => removeChannelEnd s c .sender (some id)) s conn.senders with
    | .error e => .error e
    | .ok s =>
    match foldE (fun s c => removeChannelEnd s c .receiver (some id)) s conn.receivers with
    | .error e => .error e
    | .ok s =>
    let s := conn.calls.foldl (fun s p => (s.setWAbortCalls ((p.2.1, p.2.2) :: s.w.abortCalls))) s
    let s := s.stat (fun st => { st with numConnections := st.numConnections - 1 })
    removeIntrospectionConn s id

/-! ### handlers -/

def createObject (s : St) (id : ConnId) (serial : Nat) (uuid : Uuid) : H :=
  match s.conn? id with
  | none => okH s
  | some _ =>
    if (AL.find? uuid s.b.objs).isSome then
      let (s, ok) := s.send id (.createObjectReply serial .duplicate)
      .ok (s, ok)
    else
      let (s, cookie) := s.freshCookie
      let (s, ok) := s.send id (.createObjectReply serial (.ok cookie))
      if !ok then errH s else
      let s := ((s.setObjUuids (AL.insert cookie uuid s.b.objUuids)).setObjs (AL.insert uuid ⟨id, cookie, []⟩ s.b.objs))
      let s := s.updConn id (fun c => { c with objects := sinsert cookie c.objects })
      let s := (s.setWCreateObject (⟨uuid, cookie⟩ :: s.w.createObject))
      okH (s.stat (fun st => { st with numObjects := st.numObjects + 1 }))

def destroyObject (s : St) (id : ConnId) (serial : Nat) (cookie : Cookie) : H :=
  match s.conn? id with
  | none => okH s
  | some _ =>
    match AL.find? cookie s.b.objUuids with
    | none => .ok (s.send id (.destroyObjectReply serial .invalidObject))
    | some uuid =>
      match AL.find? uuid s.b.objs with
      | none => .error (.inconsistent "destroy_object: objs")
      | some obj =>
        if obj.conn ≠ id then .ok (s.send id (.destroyObjectReply serial .foreignObject)) else
        let (s, ok) := s.send id (.destroyObjectReply serial .ok)
        if !ok then errH s else
        match removeObject s cookie with
        | .error e => .error e
        | .ok s => okH s

/-- `create_service` / `create_service2` share everything but the gate and the info. -/
def createServiceImpl (s : St) (id : ConnId) (serial : Nat) (objCookie : Cookie) (uuid : Uuid)
    (info : Conn → Option SvcInfo) : H :=
  match s.conn? id with
  | none => okH s
  | some conn =>
    match AL.find? objCookie s.b.objUuids with
    | none => .ok (s.send id (.createServiceReply serial .invalidObject))
    | some objUuid =>
      if (AL.find? (objUuid, uuid) s.b.svcs).isSome then .ok (s.send id (.createServiceReply serial .duplicate)) else
      match AL.find? objUuid s.b.objs with
      | none => .error (.inconsistent "create_service: objs")
      | some obj =>
        if obj.conn ≠ id then .ok (s.send id (.createServiceReply serial .foreignObject)) else
        match info conn with
        | none => errH s
        | some info =>
          let (s, cookie) := s.freshCookie
          let (s, ok) := s.send id (.createServiceReply serial (.ok cookie))
          if !ok then errH s else
          let objId : ObjId := ⟨objUuid, objCookie⟩
          let s := ((s.setSvcUuids (AL.insert cookie (objId, uuid, info) s.b.svcUuids)).setSvcs
            (AL.insert (objUuid, uuid) { cookie := cookie, objCookie := objCookie } s.b.svcs)).setObjs
            (AL.insert objUuid { obj with svcs := sinsert cookie obj.svcs } s.b.objs)
          let s := (s.setWCreateService (⟨objId, uuid, cookie⟩ :: s.w.createService))
          okH (s.stat (fun st => { st with numServices := st.numServices + 1 }))

def createService (s : St) (id : ConnId) (serial : Nat) (objCookie : Cookie) (uuid : Uuid) (version : Nat) : H :=
  createServiceImpl s id serial objCookie uuid (fun _ => some { version := version })

def createService2 (s : St) (id : ConnId) (serial : Nat) (objCookie : Cookie) (uuid : Uuid) (info : Option SvcInfo) : H :=
  match s.conn? id with
  | none => okH s
  | some conn =>
    if conn.version < gateCreateService2 then errH s else
    createServiceImpl s id serial objCookie uuid (fun c =>
      info.map (fun i => if c.version < subscribeAllMinOwnerAtCreate then { i with subscribeAll := some false } else i))

def destroyService (s : St) (id : ConnId) (serial : Nat) (cookie : Cookie) : H :=
  match s.conn? id with
  | none => okH s
  | some _ =>
    match AL.find? cookie s.b.svcUuids with
    | none => .ok (s.send id (.destroyServiceReply serial .invalidService))
    | some (objId, _, _) =>
      match AL.find? objId.uuid s.b.objs with
      | none => .error (.inconsistent "destroy_service: objs")
      | some obj =>
        if obj.conn ≠ id then .ok (s.send id (.destroyServiceReply serial .foreignObject)) else
        let (s, ok) := s.send id (.destroyServiceReply serial .ok)
        if !ok then errH s else
        match removeService s cookie with
        | .error e => .error e
        | .ok s => okH s

def callFunctionImpl (s : St) (id : ConnId) (serial : Nat) (svcCookie : Cookie) (function : Nat)
    (version : Option Nat) (p : Payload) : H :=
  match s.conn? id with
  | none => okH s
  | some conn =>
    match AL.find? svcCookie s.b.svcUuids with
    | none => .ok (s.send id (.callFunctionReply serial .invalidService))
    | some (objId, svcUuid, _) =>
      match AL.find? objId.uuid s.b.objs with
      | none => .error (.inconsistent "call_function: objs")
      | some obj =>
        let calleeId := obj.conn
        let (calls, bserial) := s.b.calls.insert ⟨serial, id, objId.uuid, svcUuid, false⟩
        if (AL.find? serial conn.calls).isSome then
          -- duplicate caller serial: the entry is removed again (the serial counter has advanced)
          errH (s.setCalls (calls.remove bserial))
        else
          let s := (s.setCalls (calls))
          let s := s.setConn id { conn with calls := conn.calls ++ [(serial, (bserial, calleeId))] }
          match s.conn? calleeId with
          | none => .error (.inconsistent "call_function: callee conn")
          | some callee =>
            match AL.find? (objId.uuid, svcUuid) s.b.svcs with
            | none => .error (.inconsistent "call_function: svcs")
            | some svc =>
              let s := (s.setSvcs (AL.insert (objId.uuid, svcUuid) { svc with calls := sinsert bserial svc.calls } s.b.svcs))
              let msg := if callee.version ≥ callFunction2MinCallee
                then Rsp.callFunction2 bserial svcCookie function version p
                else Rsp.callFunction bserial svcCookie function p
              okH (s.sendOrRemove calleeId msg (some conn.version))

def callFunction2 (s : St) (id : ConnId) (serial : Nat) (svc : Cookie) (function : Nat) (version : Option Nat) (p : Payload) : H :=
  match s.conn? id with
  | none => okH s
  | some conn => if conn.version < gateCallFunction2 then errH s else callFunctionImpl s id serial svc function version p

def callFunctionReply (s : St) (id : ConnId) (serial : Nat) (r : CallResult) : H :=
  match s.conn? id with
  | none => okH s
  | some conn =>
    match s.b.calls.get? serial with
    | none => okH s
    | some call =>
      match AL.find? call.calleeObj s.b.objs with
      | none => .error (.inconsistent "call_function_reply: objs")
      | some obj =>
        if obj.conn ≠ id then okH s else
        let s := (s.setCalls (s.b.calls.remove serial))
        match AL.find? (call.calleeObj, call.calleeSvc) s.b.svcs with
        | none => .error (.inconsistent "call_function_reply: svcs")
        | some svc =>
          let s := (s.setSvcs (AL.insert (call.calleeObj, call.calleeSvc) { svc with calls := sremove serial svc.calls } s.b.svcs))
          if call.aborted then okH s else
          match s.conn? call.callerConn with
          | none => okH s
          | some caller =>
            if (AL.find? call.callerSerial caller.calls).isNone then .error (.debugAssert "remove_call") else
            let s := s.setConn call.callerConn { caller with calls := AL.erase call.callerSerial caller.calls }
            okH (s.sendOrRemove call.callerConn (.callFunctionReply call.callerSerial r) (some conn.version))

def abortFunctionCall (s : St) (id : ConnId) (serial : Nat) : H :=
  match s.conn? id with
  | none => okH s
  | some conn =>
    if conn.version < gateAbortFunctionCall then errH s else
    match AL.find? serial conn.calls with
    | none => okH s
    | some (calleeSerial, calleeId) =>
      okH (s.setWAbortCalls ((calleeSerial, calleeId) :: s.w.abortCalls))

def subscribeEvent (s : St) (id : ConnId) (serial : Option Nat) (svcCookie : Cookie) (ev : Nat) : H :=
  match serial with
  | none => errH s
  | some serial =>
    match s.conn? id with
    | none => okH s
    | some _ =>
      match AL.find? svcCookie s.b.svcUuids with
      | none => .ok (s.send id (.subscribeEventReply serial .invalidService))
      | some (objId, svcUuid, _) =>
        let (s, ok) := s.send id (.subscribeEventReply serial .ok)
        if !ok then errH s else
        let s := s.updConn id (fun c => c.subscribeEvent svcCookie ev)
        match AL.find? (objId.uuid, svcUuid) s.b.svcs with
        | none => .error (.inconsistent "subscribe_event: svcs")
        | some svc =>
          let (svc, first) := svc.subscribeEvent ev id
          let s := (s.setSvcs (AL.insert (objId.uuid, svcUuid) svc s.b.svcs))
          if first then
            match AL.find? objId.uuid s.b.objs with
            | none => .error (.inconsistent "subscribe_event: objs")
            | some obj =>
              if (s.conn? obj.conn).isSome then okH (s.send obj.conn (.subscribeEvent svcCookie ev)).1 else okH s
          else okH s

def unsubscribeEvent (s : St) (id : ConnId) (svcCookie : Cookie) (ev : Nat) : H :=
  match AL.find? svcCookie s.b.svcUuids with
  | none => okH s
  | some (objId, svcUuid, _) =>
    match AL.find? (objId.uuid, svcUuid) s.b.svcs with
    | none => .error (.inconsistent "unsubscribe_event: svcs")
    | some svc =>
      match s.conn? id with
      | none => okH s
      | some _ =>
        let s := s.updConn id (fun c => c.unsubscribeEvent svcCookie ev)
        let (svc, last) := svc.unsubscribeEvent ev id
        let s := (s.setSvcs (AL.insert (objId.uuid, svcUuid) svc s.b.svcs))
        if last then
          match AL.find? objId.uuid s.b.objs with
          | none => .error (.inconsistent "unsubscribe_event: objs")
          | some obj =>
            if (s.conn? obj.conn).isNone then .error (.inconsistent "unsubscribe_event: owner conn") else
            okH (s.sendOrRemove obj.conn (.unsubscribeEvent svcCookie ev))
        else okH s

def emitEvent (s : St) (id : ConnId) (svcCookie : Cookie) (ev : Nat) (p : Payload) : H :=
  match s.conn? id with
  | none => okH s
  | some emitter =>
    match AL.find? svcCookie s.b.svcUuids with
    | none => okH s
    | some (objId, _, _) =>
      match AL.find? objId.uuid s.b.objs with
      | none => .error (.inconsistent "emit_event: objs")
      | some obj =>
        if obj.conn ≠ id then okH s else
        okH (s.b.conns.foldl (fun s (q : ConnId × Conn) =>
          if q.2.isSubscribedToEvent svcCookie ev then s.sendOrRemove q.1 (.emitEvent svcCookie ev p) (some emitter.version) else s) s)

def queryServiceVersion (s : St) (id : ConnId) (serial : Nat) (svc : Cookie) : H :=
  match s.conn? id with
  | none => okH s
  | some _ => .ok (s.send id (.queryServiceVersionReply serial ((AL.find? svc s.b.svcUuids).map (·.2.2.version))))

def queryServiceInfo (s : St) (id : ConnId) (serial : Nat) (svc : Cookie) : H :=
  match s.conn? id with
  | none => okH s
  | some conn =>
    if conn.version < gateQueryServiceInfo then errH s else
    .ok (s.send id (.queryServiceInfoReply serial ((AL.find? svc s.b.svcUuids).map (·.2.2.bytes))))

def subscribeService (s : St) (id : ConnId) (serial : Nat) (svcCookie : Cookie) : H :=
  match s.conn? id with
  | none => okH s
  | some conn =>
    if conn.version < gateSubscribeService then errH s else
    match AL.find? svcCookie s.b.svcUuids with
    | none => .ok (s.send id (.subscribeServiceReply serial .invalidService))
    | some (objId, svcUuid, _) =>
      let (s, ok) := s.send id (.subscribeServiceReply serial .ok)
      if !ok then errH s else
      match AL.find? (objId.uuid, svcUuid) s.b.svcs with
      | none => .error (.inconsistent "subscribe_service: svcs")
      | some svc =>
        let s := (s.setSvcs (AL.insert (objId.uuid, svcUuid) { svc with subs := sinsert id svc.subs } s.b.svcs))
        okH (s.updConn id (fun c => { c with subscriptions := sinsert svcCookie c.subscriptions }))

def unsubscribeService (s : St) (id : ConnId) (svcCookie : Cookie) : H :=
  match s.conn? id with
  | none => okH s
  | some conn =>
    if conn.version < gateUnsubscribeService then errH s else
    match AL.find? svcCookie s.b.svcUuids with
    | none => okH s
    | some (objId, svcUuid, _) =>
      match AL.find? (objId.uuid, svcUuid) s.b.svcs with
      | none => .error (.inconsistent "unsubscribe_service: svcs")
      | some svc =>
        let s := (s.setSvcs (AL.insert (objId.uuid, svcUuid) { svc with subs := sremove id svc.subs } s.b.svcs))
        okH (s.updConn id (fun c => { c with subscriptions := sremove svcCookie c.subscriptions }))

def subscribeAllEvents (s : St) (id : ConnId) (serial : Option Nat) (svcCookie : Cookie) : H :=
  match s.conn? id with
  | none => okH s
  | some conn =>
    if conn.version < gateSubscribeAllEvents then errH s else
    match serial with
    | none => errH s
    | some serial =>
      match AL.find? svcCookie s.b.svcUuids with
      | none => .ok (s.send id (.subscribeAllEventsReply serial .invalidService))
      | some (objId, svcUuid, info) =>
        if !(info.subscribeAll.getD false) then .ok (s.send id (.subscribeAllEventsReply serial .notSupported)) else
        match AL.find? objId.uuid s.b.objs with
        | none => .error (.inconsistent "subscribe_all_events: objs")
        | some obj =>
          match s.conn? obj.conn with
          | none => .error (.inconsistent "subscribe_all_events: owner conn")
          | some owner =>
            if owner.version < subscribeAllEventsMinOwner then .ok (s.send id (.subscribeAllEventsReply serial .notSupported)) else
            let (s, ok) := s.send id (.subscribeAllEventsReply serial .ok)
            if !ok then errH s else
            let s := s.updConn id (fun c => { c with allEvents := sinsert svcCookie c.allEvents })
            match AL.find? (objId.uuid, svcUuid) s.b.svcs with
            | none => .error (.inconsistent "subscribe_all_events: svcs")
            | some svc =>
              let (svc, first) := svc.subscribeAll id
              let s := (s.setSvcs (AL.insert (objId.uuid, svcUuid) svc s.b.svcs))
              if first then okH (s.send obj.conn (.subscribeAllEvents svcCookie)).1 else okH s

def unsubscribeAllEvents (s : St) (id : ConnId) (serial : Option Nat) (svcCookie : Cookie) : H :=
  match s.conn? id with
  | none => okH s
  | some conn =>
    if conn.version < gateUnsubscribeAllEvents then errH s else
    match AL.find? svcCookie s.b.svcUuids with
    | none => match serial with
      | some serial => .ok (s.send id (.unsubscribeAllEventsReply serial .invalidService))
      | none => okH s
    | some (objId, svcUuid, _) =>
      match AL.find? objId.uuid s.b.objs with
      | none => .error (.inconsistent "unsubscribe_all_events: objs")
      | some obj =>
        match s.conn? obj.conn with
        | none => .error (.inconsistent "unsubscribe_all_events: owner conn")
        | some owner =>
          if owner.version < unsubscribeAllEventsMinOwner then
            match serial with
            | some serial => .ok (s.send id (.unsubscribeAllEventsReply serial .notSupported))
            | none => okH s
          else
            let (s, ok) := match serial with
              | some serial => s.send id (.unsubscribeAllEventsReply serial .ok)
              | none => (s, true)
            if !ok then errH s else
            let s := s.updConn id (fun c => { c with allEvents := sremove svcCookie c.allEvents })
            match AL.find? (objId.uuid, svcUuid) s.b.svcs with
            | none => .error (.inconsistent "unsubscribe_all_events: svcs")
            | some svc =>
              let (svc, last) := svc.unsubscribeAll id
              let s := (s.setSvcs (AL.insert (objId.uuid, svcUuid) svc s.b.svcs))
              if last then okH (s.send obj.conn (.unsubscribeAllEvents svcCookie)).1 else okH s

def createChannel (s : St) (id : ConnId) (serial : Nat) (e : ChanEnd) (cap : Nat) : H :=
  match s.conn? id with
  | none => okH s
  | some _ =>
    let (s, cookie) := s.freshCookie
    let (s, ch) := match e with
      | .sender => (s.updConn id (fun c => { c with senders := sinsert cookie c.senders }), Chan.withClaimedSender id)
      | .receiver => (s.updConn id (fun c => { c with receivers := sinsert cookie c.receivers }), Chan.withClaimedReceiver id cap)
    let s := (s.setChannels (AL.insert cookie ch s.b.channels))
    if createChannelCountsBeforeReply then
      let s := s.stat (fun st => { st with numChannels := st.numChannels + 1 })
      let (s, ok) := s.send id (.createChannelReply serial cookie)
      .ok (s, ok)
    else
      let (s, ok) := s.send id (.createChannelReply serial cookie)
      if !ok then errH s else
      okH (s.stat (fun st => { st with numChannels := st.numChannels + 1 }))

def closeChannelEnd (s : St) (id : ConnId) (serial : Nat) (cookie : Cookie) (e : ChanEnd) : H :=
  match s.conn? id with
  | none => okH s
  | some _ =>
    match AL.find? cookie s.b.channels with
    | none => .ok (s.send id (.closeChannelEndReply serial .invalidChannel))
    | some ch =>
      let (result, claimed) := ch.checkClose id e
      let (s, ok) := s.send id (.closeChannelEndReply serial result)
      if !ok then errH s else
      if result = .ok then
        match removeChannelEnd s cookie e (if claimed then some id else none) with
        | .error p => .error p
        | .ok s => okH s
      else okH s

def claimChannelEnd (s : St) (id : ConnId) (serial : Nat) (cookie : Cookie) (e : ChanEnd) (cap : Nat) : H :=
  match s.conn? id with
  | none => okH s
  | some _ =>
    match AL.find? cookie s.b.channels with
    | none => .ok (s.send id (.claimChannelEndReply serial .invalidChannel))
    | some ch =>
      let claimed : Except Panic (Except ClaimRes (Chan × ConnId × ClaimRes)) := match e with
        | .sender => match ch.claimSender id with
          | .error p => .error p
          | .ok (.error r) => .ok (.error r)
          | .ok (.ok (ch', other, c)) => .ok (.ok (ch', other, .senderClaimed c))
        | .receiver => match ch.claimReceiver id cap with
          | .error p => .error p
          | .ok (.error r) => .ok (.error r)
          | .ok (.ok (ch', other)) => .ok (.ok (ch', other, .receiverClaimed))
      match claimed with
      | .error p => .error p
      | .ok (.error r) => .ok (s.send id (.claimChannelEndReply serial r))
      | .ok (.ok (ch', other, r)) =>
        let s := (s.setChannels (AL.insert cookie ch' s.b.channels))
        let s := s.updConn id (fun c => match e with
          | .sender => { c with senders := sinsert cookie c.senders }
          | .receiver => { c with receivers := sinsert cookie c.receivers })
        let (s, ok) := s.send id (.claimChannelEndReply serial r)
        if (s.conn? other).isNone then .error (.inconsistent "claim_channel_end: other conn") else
        let s := s.sendOrRemove other (.channelEndClaimed cookie e (match e with | .sender => 0 | .receiver => cap))
        .ok (s, ok)

def addChannelCapacity (s : St) (id : ConnId) (cookie : Cookie) (cap : Nat) : H :=
  match AL.find? cookie s.b.channels with
  | none => okH s
  | some ch =>
    match ch.addCapacity id cap with
    | .error p => .error p
    | .ok none =>
      match removeChannelEnd s cookie .receiver (some id) with
      | .error p => .error p
      | .ok s => okH s
    | .ok (some (ch', fwd)) =>
      let s := (s.setChannels (AL.insert cookie ch' s.b.channels))
      match fwd with
      | none => okH s
      | some (senderId, diff) =>
        if (s.conn? senderId).isNone then okH s else
        okH (s.sendOrRemove senderId (.addChannelCapacity cookie diff))

def sendItem (s : St) (id : ConnId) (cookie : Cookie) (p : Payload) : H :=
  match s.conn? id with
  | none => okH s
  | some sender =>
    match AL.find? cookie s.b.channels with
    | none => okH s
    | some ch =>
      match ch.sendItem id with
      | .error pn => .error pn
      | .ok (.error .receiverUnclaimed) =>
        match removeChannelEnd s cookie .receiver none with
        | .error pn => .error pn
        | .ok s => match removeChannelEnd s cookie .sender (some id) with
          | .error pn => .error pn
          | .ok s => okH s
      | .ok (.error .capacityExhausted) =>
        match removeChannelEnd s cookie .sender (some id) with
        | .error pn => .error pn
        | .ok s => okH s
      | .ok (.error _) => okH s
      | .ok (.ok (ch', receiverId, add)) =>
        let s := (s.setChannels (AL.insert cookie ch' s.b.channels))
        if (s.conn? receiverId).isNone then okH s else
        let s := s.sendOrRemove receiverId (.itemReceived cookie p) (some sender.version)
        match add with
        | some n => .ok (s.send id (.addChannelCapacity cookie n))
        | none => okH s

def sync (s : St) (id : ConnId) (serial : Nat) : H :=
  match s.conn? id with
  | none => okH s
  | some _ => .ok (s.send id (.syncReply serial))

def createBusListener (s : St) (id : ConnId) (serial : Nat) : H :=
  match s.conn? id with
  | none => okH s
  | some _ =>
    let (s, cookie) := s.freshCookie
    let (s, ok) := s.send id (.createBusListenerReply serial cookie)
    if !ok then errH s else
    let s := s.stat (fun st => { st with numBusListeners := st.numBusListeners + 1 })
    let s := s.updConn id (fun c => { c with busListeners := sinsert cookie c.busListeners })
    okH (s.setListeners (AL.insert cookie { conn := id } s.b.listeners))

def destroyBusListener (s : St) (id : ConnId) (serial : Nat) (cookie : Cookie) : H :=
  match s.conn? id with
  | none => okH s
  | some _ =>
    match AL.find? cookie s.b.listeners with
    | none => .ok (s.send id (.destroyBusListenerReply serial .invalid))
    | some l =>
      if l.conn = id then
        let (s, ok) := s.send id (.destroyBusListenerReply serial .ok)
        if !ok then errH s else okH (removeBusListener s cookie)
      else .ok (s.send id (.destroyBusListenerReply serial .invalid))

def updListener (s : St) (id : ConnId) (cookie : Cookie) (f : Listener → Listener) : H :=
  match AL.find? cookie s.b.listeners with
  | some l => if l.conn = id then okH (s.setListeners (AL.insert cookie (f l) s.b.listeners)) else okH s
  | none => okH s

/-- send each of a list of messages to `id`, stopping (with `Err`) at the first failed send -/
def sendAll (s : St) (id : ConnId) : List Rsp → St × Bool
  | [] => (s, true)
  | m :: rest => let (s, ok) := s.send id m
                 if ok then sendAll s id rest else (s, false)

/-- the tagged created-events for the existing objects: the "specific" path looks the listed uuids up,
the scan path filters all objects -/
def currentObjMsgs (b : Broker) (l : Listener) (cookie : Cookie) : Option (List Uuid) → List Rsp
  | some uuids => uuids.filterMap (fun u => (AL.find? u b.objs).map (fun o => Rsp.emitBusEvent (some cookie) (.objCreated ⟨u, o.cookie⟩)))
  | none => b.objUuids.filterMap (fun (p : Cookie × Uuid) =>
      if l.matchesObject ⟨p.2, p.1⟩ then some (Rsp.emitBusEvent (some cookie) (.objCreated ⟨p.2, p.1⟩)) else none)

def currentSvcMsgs (b : Broker) (l : Listener) (cookie : Cookie) : Option (List (Uuid × Uuid)) → List Rsp
  | some pairs => pairs.filterMap (fun (p : Uuid × Uuid) => (AL.find? p b.svcs).map (fun sv =>
      Rsp.emitBusEvent (some cookie) (.svcCreated ⟨⟨p.1, sv.objCookie⟩, p.2, sv.cookie⟩)))
  | none => b.svcUuids.filterMap (fun (p : Cookie × (ObjId × Uuid × SvcInfo)) =>
      let sid : SvcId := ⟨p.2.1, p.2.2.1, p.1⟩
      if l.matchesService sid then some (Rsp.emitBusEvent (some cookie) (.svcCreated sid)) else none)

def startBusListener (s : St) (id : ConnId) (serial : Nat) (cookie : Cookie) (scope : Scope) : H :=
  match s.conn? id with
  | none => okH s
  | some _ =>
    match AL.find? cookie s.b.listeners with
    | none => .ok (s.send id (.startBusListenerReply serial .invalid))
    | some l =>
      if l.conn ≠ id then .ok (s.send id (.startBusListenerReply serial .invalid)) else
      if l.scope.isSome then .ok (s.send id (.startBusListenerReply serial .alreadyStarted)) else
      let l := { l with scope := some scope }
      let s := (s.setListeners (AL.insert cookie l s.b.listeners))
      let (s, ok) := s.send id (.startBusListenerReply serial .ok)
      if !ok then errH s else
      if scope = .new then okH s else
      match l.specificObjects, l.specificServices? with
      | .error p, _ => .error p
      | _, .error p => .error p
      | .ok so, .ok ss =>
        .ok (sendAll s id (currentObjMsgs s.b l cookie so ++ currentSvcMsgs s.b l cookie ss ++ [.busListenerCurrentFinished cookie]))

def stopBusListener (s : St) (id : ConnId) (serial : Nat) (cookie : Cookie) : H :=
  match s.conn? id with
  | none => okH s
  | some _ =>
    match AL.find? cookie s.b.listeners with
    | none => .ok (s.send id (.stopBusListenerReply serial .invalid))
    | some l =>
      if l.conn ≠ id then .ok (s.send id (.stopBusListenerReply serial .invalid)) else
      if l.scope.isSome then
        let s := (s.setListeners (AL.insert cookie { l with scope := none } s.b.listeners))
        .ok (s.send id (.stopBusListenerReply serial .ok))
      else .ok (s.send id (.stopBusListenerReply serial .notStarted))

def registerIntrospection (s : St) (id : ConnId) (types : Option (List Uuid)) : H :=
  match s.conn? id with
  | none => okH s
  | some conn =>
    if conn.version < gateRegisterIntrospection then errH s else
    match types with
    | none => errH s
    | some tys =>
      okH (tys.foldl (fun s ty =>
        let entry : IEntry := (AL.find? ty s.b.introspection).getD (IEntry.mk [] none none [])
        (s.setIntrospection (AL.insert ty (entry.register id) s.b.introspection))) s)

def queryIntrospection (s : St) (id : ConnId) (serial : Nat) (ty : Uuid) : H :=
  match s.conn? id with
  | none => okH s
  | some conn =>
    if conn.version < gateQueryIntrospection then errH s else
    match AL.find? ty s.b.introspection with
    | none => .ok (s.send id (.queryIntrospectionReply serial none))
    | some entry =>
      match entry.introspection with
      | some i => .ok (s.send id (.queryIntrospectionReply serial (some i)))
      | none =>
        let entry := { entry with pending := entry.pending ++ [⟨id, serial⟩] }
        let s := (s.setIntrospection (AL.insert ty entry s.b.introspection))
        if entry.queried.isNone then
          match askIntrospection s ty entry with
          | .error p => .error p
          | .ok s => okH s
        else okH s

def queryIntrospectionReply (s : St) (id : ConnId) (serial : Nat) (r : Option Payload) : H :=
  match s.conn? id with
  | none => okH s
  | some conn =>
    if conn.version < gateQueryIntrospectionReply then errH s else
    match s.b.iqueries.get? serial with
    | none => errH s
    | some ty =>
      match AL.find? ty s.b.introspection with
      | none => .error (.inconsistent "query_replied: entry")
      | some entry =>
        -- IntrospectionEntry::query_replied
        match entry.queried with
        | none => errH s
        | some q =>
          if q.conn ≠ id then errH s else
          if q.serial ≠ serial then .error (.debugAssert "query_replied: serial") else
          if entry.introspection.isSome then .error (.debugAssert "query_replied: introspection") else
          let entry := { entry with queried := none }
          let s := (s.setIqueries (s.b.iqueries.remove serial))
          match r with
          | some i =>
            let pending := entry.pending
            let entry := { entry with pending := [], introspection := some i }
            let s := (s.setIntrospection (AL.insert ty entry s.b.introspection))
            match replyPending s pending (some i) true with
            | .error p => .error p
            | .ok s => okH s
          | none =>
            let (entry, retain) := entry.removeConn id
            if retain then
              match askIntrospection s ty entry with
              | .error p => .error p
              | .ok s => okH s
            else
              let s := (s.setIntrospection (AL.erase ty s.b.introspection))
              match replyPending s entry.pending none true with
              | .error p => .error p
              | .ok s => okH s

/-- `handle_message` -/
def handleMessage (s : St) (id : ConnId) : Req → H
  | .createObject serial uuid => createObject s id serial uuid
  | .destroyObject serial c => destroyObject s id serial c
  | .createService serial o u v => createService s id serial o u v
  | .createService2 serial o u i => createService2 s id serial o u i
  | .destroyService serial c => destroyService s id serial c
  | .callFunction serial svc f p => callFunctionImpl s id serial svc f none p
  | .callFunction2 serial svc f v p => callFunction2 s id serial svc f v p
  | .callFunctionReply serial r => callFunctionReply s id serial r
  | .abortFunctionCall serial => abortFunctionCall s id serial
  | .subscribeEvent serial svc ev => subscribeEvent s id serial svc ev
  | .unsubscribeEvent svc ev => unsubscribeEvent s id svc ev
  | .emitEvent svc ev p => emitEvent s id svc ev p
  | .queryServiceVersion serial svc => queryServiceVersion s id serial svc
  | .queryServiceInfo serial svc => queryServiceInfo s id serial svc
  | .subscribeService serial svc => subscribeService s id serial svc
  | .unsubscribeService svc => unsubscribeService s id svc
  | .subscribeAllEvents serial svc => subscribeAllEvents s id serial svc
  | .unsubscribeAllEvents serial svc => unsubscribeAllEvents s id serial svc
  | .createChannel serial e cap => createChannel s id serial e cap
  | .closeChannelEnd serial c e => closeChannelEnd s id serial c e
  | .claimChannelEnd serial c e cap => claimChannelEnd s id serial c e cap
  | .sendItem c p => sendItem s id c p
  | .addChannelCapacity c cap => addChannelCapacity s id c cap
  | .sync serial => sync s id serial
  | .createBusListener serial => createBusListener s id serial
  | .destroyBusListener serial c => destroyBusListener s id serial c
  | .addFilter c f => updListener s id c (·.addFilter f)
  | .removeFilter c f => updListener s id c (·.removeFilter f)
  | .clearFilters c => updListener s id c (·.clearFilters)
  | .startBusListener serial c sc => startBusListener s id serial c sc
  | .stopBusListener serial c => stopBusListener s id serial c
  | .registerIntrospection tys => registerIntrospection s id tys
  | .queryIntrospection serial ty => queryIntrospection s id serial ty
  | .queryIntrospectionReply serial r => queryIntrospectionReply s id serial r
  | .other _ => errH s

/-! ### events and the deferred-work loop -/

inductive Event where
  | newConn (id : ConnId) (version : Nat)
  | connShutdown (id : ConnId)
  | msg (id : ConnId) (m : Req)
  | shutdownBroker
  | shutdownIdle
  | shutdownConn (id : ConnId)
  | taskDropped (id : ConnId)        -- environment: the connection's task is gone, sends to it fail from now on
  deriving Repr

/-- `handle_event` -/
def handleEvent (s : St) : Event → Except Panic St
  | .newConn id version =>
    if (s.conn? id).isSome then .error (.debugAssert "NewConnection: duplicate id") else
    .ok ((s.setConn id { version := version }).stat (fun st => { st with numConnections := st.numConnections + 1 }))
  | .connShutdown id => .ok (s.pushRemoveConn id false)
  | .msg id m =>
    match handleMessage s id m with
    | .error p => .error p
    | .ok (s, ok) =>
      let s := if ok then s else s.pushRemoveConn id false
      .ok (s.stat (fun st => { st with messagesReceived := st.messagesReceived + 1 }))
  | .shutdownBroker =>
    .ok ((s.setWRemoveConns ((s.b.conns.map (fun p => (p.1, true))).reverse ++ s.w.removeConns)).setWShutdownNow (true))
  | .shutdownIdle => .ok (s.setWShutdownIdle (true))
  | .shutdownConn id => .ok (s.pushRemoveConn id true)
  | .taskDropped id => .ok (s.updConn id (fun c => { c with alive := false }))

/-- `emit_bus_event`: one untagged copy per connection that has a started, matching listener. -/
def emitBusEvent (s : St) (e : BusEv) : St :=
  let targets := s.b.listeners.foldl (fun acc (p : Cookie × Listener) =>
    if p.2.matchesNewEvent e then sinsert p.2.conn acc else acc) ([] : List ConnId)
  targets.foldl (fun s cid => if (s.conn? cid).isSome then s.sendOrRemove cid (.emitBusEvent none e) else s) s

/-- `abort_call` -/
def abortCall (s : St) (calleeSerial : Nat) (calleeId : ConnId) : Except Panic St :=
  match s.b.calls.get? calleeSerial with
  | none => .ok s
  | some call =>
    if call.aborted then .ok s else
    let s := (s.setCalls (s.b.calls.set calleeSerial { call with aborted := true }))
    let s := match s.conn? calleeId with
      | some c => if c.version ≥ abortMinCallee then s.sendOrRemove calleeId (.abortFunctionCall calleeSerial) else s
      | none => s
    match s.conn? call.callerConn with
    | none => .ok s
    | some caller =>
      if (AL.find? call.callerSerial caller.calls).isNone then .error (.debugAssert "abort_call: remove_call") else
      let s := s.setConn call.callerConn { caller with calls := AL.erase call.callerSerial caller.calls }
      .ok (s.sendOrRemove call.callerConn (.callFunctionReply call.callerSerial .aborted))

/-- One iteration of the loop in `process_loop_result`: the highest-priority pending work item.
`none` = no work left. -/
def processOne (s : St) : Option (Except Panic St) :=
  match s.w.removeConns with
  | (cid, sendShutdown) :: rest => some (shutdownConnection (s.setWRemoveConns (rest)) cid sendShutdown)
  | [] =>
  match s.w.unsubscribeEvent with
  | (cid, svc, ev) :: rest =>
    let s := (s.setWUnsubscribeEvent (rest))
    some (.ok (if (s.conn? cid).isSome then s.sendOrRemove cid (.unsubscribeEvent svc ev) else s))
  | [] =>
  match s.w.unsubscribeAll with
  | (cid, svc) :: rest =>
    let s := (s.setWUnsubscribeAll (rest))
    some (.ok (if (s.conn? cid).isSome then s.sendOrRemove cid (.unsubscribeAllEvents svc) else s))
  | [] =>
  match s.w.servicesDestroyed with
  | (cid, svc) :: rest =>
    let s := (s.setWServicesDestroyed (rest))
    some (.ok (if (s.conn? cid).isSome then s.sendOrRemove cid (.serviceDestroyed svc) else s))
  | [] =>
  match s.w.removeCalls with
  | (serial, cid, result) :: rest =>
    let s := (s.setWRemoveCalls (rest))
    some (match s.conn? cid with
      | none => .ok s
      | some c =>
        if (AL.find? serial c.calls).isNone then .error (.debugAssert "remove_function_call: remove_call") else
        let s := s.setConn cid { c with calls := AL.erase serial c.calls }
        .ok (s.sendOrRemove cid (.callFunctionReply serial result)))
  | [] =>
  match s.w.createObject with
  | o :: rest => some (.ok (emitBusEvent (s.setWCreateObject (rest)) (.objCreated o)))
  | [] =>
  match s.w.createService with
  | sv :: rest => some (.ok (emitBusEvent (s.setWCreateService (rest)) (.svcCreated sv)))
  | [] =>
  match s.w.destroyService with
  | sv :: rest => some (.ok (emitBusEvent (s.setWDestroyService (rest)) (.svcDestroyed sv)))
  | [] =>
  match s.w.destroyObject with
  | o :: rest => some (.ok (emitBusEvent (s.setWDestroyObject (rest)) (.objDestroyed o)))
  | [] =>
  match s.w.abortCalls with
  | (serial, cid) :: rest => some (abortCall (s.setWAbortCalls (rest)) serial cid)
  | [] => none

/-- `process_loop_result` -/
def processLoop : Nat → St → Except Panic St
  | 0, _ => .error .fuel
  | fuel + 1, s => match processOne s with
    | none => .ok s
    | some (.error p) => .error p
    | some (.ok s) => processLoop fuel s

/-- Budget for `processLoop`; generous (see the termination argument in DESIGN.md). -/
def loopFuel (s : St) : Nat :=
  1000 + 50 * (s.b.conns.length + s.b.objs.length + s.b.svcs.length + s.b.channels.length + s.b.calls.elems.length
    + s.b.listeners.length + s.b.introspection.length + 1) * (s.b.conns.length + 2)

/-- One turn of `Broker::run`: handle the event, then drain the deferred work. Returns the new
broker state and what was put into the connections' queues. -/
def step (b : Broker) (w : Work) (e : Event) : Except Panic (Broker × Work × List Out) :=
  match handleEvent { b := b, w := w, out := [] } e with
  | .error p => .error p
  | .ok s => match processLoop (loopFuel s) s with
    | .error p => .error p
    | .ok s => .ok (s.b, s.w, s.out)

/-- `Broker::run` leaves its loop when told to shut down now, or when idle shutdown was requested
and no connection is left. -/
def finished (b : Broker) (w : Work) : Bool := w.shutdownNow || (w.shutdownIdle && b.conns.isEmpty)

end Aldrin.Broker
