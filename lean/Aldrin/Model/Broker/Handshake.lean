/-
M4 — handshake: `select_protocol_version` of `broker/src/acceptor.rs` (constants from the translator;
the control-flow shape of the Rust function is checked by the translator, see tools/extract_broker.py).
-/
import Aldrin.Generated.Broker

namespace Aldrin.Broker
open Generated

/-- `select_protocol_version(version, connect2)`: the negotiated minor version, if any. `connect2 = false`
is the legacy `Connect` message. -/
def negotiate (major minor : Nat) (connect2 : Bool) : Option Nat :=
  if major ≠ 1 then none
  else if connect2 then
    if minor ≥ acceptMinMinor then some (min minor acceptMaxMinor) else none
  else if minor = acceptLegacyMinor then some acceptLegacyMinor
  else none

end Aldrin.Broker
