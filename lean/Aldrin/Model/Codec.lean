/-
M2 — the value codec: `Serializer` (both epochs), `Deserialize for Value`, `Deserializer::skip`
and `convert_value::Convert`, as total functions over byte lists.

Depth bookkeeping follows the code literally: every `Serializer::new` / `Deserializer::new` /
`Convert::new` increments the depth and checks it against `MAX_VALUE_DEPTH`, and `Some`/`Enum`
increment once more in place; so every function here first computes `d = depth + 1`, checks it, and
passes `d` to its children.

Recursive walkers over bytes take a fuel argument; `Lemmas/Fuel.lean` proves that
`2 * length + 2` always suffices, so `DeErr.fuel` is never observed.
-/
import Aldrin.Model.Value

namespace Aldrin
open Generated

inductive SerErr where
  | tooDeep | overflow
  deriving DecidableEq, Repr, Inhabited

def u32Max : Nat := 4294967295

/-- `Kind.byte` as a byte; `255` (not a kind) for the two non-existent kinds. -/
def Kind.b (k : Kind) : UInt8 := k.byte.getD 255

/-! ### UTF-8 (`String::from_utf8`), Unicode table 3-7 as a three-register automaton -/

structure Utf8St where
  need : Nat := 0
  lo : Nat := 128
  hi : Nat := 191

def utf8Step (s : Utf8St) (b : UInt8) : Option Utf8St :=
  let n := b.toNat
  if s.need = 0 then
    if n ≤ 127 then some {}
    else if 194 ≤ n ∧ n ≤ 223 then some { need := 1 }
    else if n = 224 then some { need := 2, lo := 160 }
    else if 225 ≤ n ∧ n ≤ 236 then some { need := 2 }
    else if n = 237 then some { need := 2, hi := 159 }
    else if 238 ≤ n ∧ n ≤ 239 then some { need := 2 }
    else if n = 240 then some { need := 3, lo := 144 }
    else if 241 ≤ n ∧ n ≤ 243 then some { need := 3 }
    else if n = 244 then some { need := 3, hi := 143 }
    else none
  else if s.lo ≤ n ∧ n ≤ s.hi then some { need := s.need - 1 }
  else none

def utf8Run : Utf8St → Bytes → Bool
  | s, [] => s.need == 0
  | s, b :: bs => match utf8Step s b with
    | none => false
    | some s' => utf8Run s' bs

def validUtf8 (bs : Bytes) : Bool := utf8Run {} bs

/-! ### Scalars and keys -/

/-- Integer payload after the kind byte. -/
def encInt (t : IntTy) (i : Int) : Bytes :=
  match t with
  | .u8 | .i8 => [UInt8.ofNat (i % 256).toNat]
  | t => putVarint t.bytes (if t.signed then zzEnc i else i.toNat)

def decInt (t : IntTy) (bs : Bytes) : Except DeErr (Int × Bytes) :=
  match t with
  | .u8 => match bs with
    | [] => .error .eoi
    | b :: r => .ok ((b.toNat : Int), r)
  | .i8 => match bs with
    | [] => .error .eoi
    | b :: r => .ok (if b.toNat < 128 then (b.toNat : Int) else (b.toNat : Int) - 256, r)
  | t => match getVarint t.bytes bs with
    | .error e => .error e
    | .ok (n, r) => .ok (if t.signed then zzDec n else (n : Int), r)

/-- `KeyTagImpl::serialize_key`. Ill-typed combinations (excluded by `WF`) write nothing. -/
def encKey (kt : KeyTy) (k : Key) : Bytes :=
  match kt, k with
  | .int t, .int i => encInt t i
  | .string, .blob bs => putVarint 4 bs.length ++ bs
  | .uuid, .blob bs => bs
  | .field, .int i => putVarint 4 i.toNat
  | _, _ => []

/-- `KeyTagImpl::deserialize_key` (+ the `u32` field id of structs). -/
def decKey (utf8 : Bool) (kt : KeyTy) (bs : Bytes) : Except DeErr (Key × Bytes) :=
  match kt with
  | .int t => match decInt t bs with
    | .error e => .error e
    | .ok (i, r) => .ok (.int i, r)
  | .string => match getVarint 4 bs with
    | .error e => .error e
    | .ok (n, r) => match takeN n r with
      | .error e => .error e
      | .ok (s, r') => if utf8 && !validUtf8 s then .error .invalid else .ok (.blob s, r')
  | .uuid => match takeN 16 bs with
    | .error e => .error e
    | .ok (s, r) => .ok (.blob s, r)
  | .field => match getVarint 4 bs with
    | .error e => .error e
    | .ok (n, r) => .ok (.int (n : Int), r)

/-- One `skip` arm as described by a generated `(mode, width)` pair. -/
def skipBy (m : SkipMode × Nat) (bs : Bytes) : Except DeErr Bytes :=
  match m.1 with
  | .fixed => match takeN m.2 bs with
    | .error e => .error e
    | .ok (_, r) => .ok r
  | .varint => skipVarint m.2 bs
  | .lenprefixed => match getVarint m.2 bs with
    | .error e => .error e
    | .ok (n, r) => match takeN n r with
      | .error e => .error e
      | .ok (_, r') => .ok r'

/-- Generated description of `KeyTagImpl::skip` per key type; struct field ids are read, not
skipped (`FieldDeserializer::new`). -/
def keySkipSpec : KeyTy → SkipMode × Nat
  | .int .u8 => keyU8Skip | .int .i8 => keyI8Skip
  | .int .u16 => keyU16Skip | .int .i16 => keyI16Skip
  | .int .u32 => keyU32Skip | .int .i32 => keyI32Skip
  | .int .u64 => keyU64Skip | .int .i64 => keyI64Skip
  | .string => keyStringSkip | .uuid => keyUuidSkip
  | .field => (.varint, 4)

def skipKey (kt : KeyTy) (bs : Bytes) : Except DeErr Bytes := skipBy (keySkipSpec kt) bs

/-- Generated description of the scalar arms of `Deserializer::skip`. -/
def intSkipSpec : IntTy → SkipMode × Nat
  | .u8 => skipU8 | .i8 => skipI8 | .u16 => skipU16 | .i16 => skipI16
  | .u32 => skipU32 | .i32 => skipI32 | .u64 => skipU64 | .i64 => skipI64

def fixedSkipSpec : FixedKind → SkipMode × Nat
  | .f32 => skipF32 | .f64 => skipF64 | .uuid => skipUuid | .objectId => skipObjectId
  | .serviceId => skipServiceId | .sender => skipSender | .receiver => skipReceiver

/-- `KeyTagImpl::convert`: read the key, write it back in canonical form. -/
def convKey (kt : KeyTy) (bs : Bytes) : Except DeErr (Bytes × Bytes) :=
  match decKey false kt bs with
  | .error e => .error e
  | .ok (k, r) => .ok (encKey kt k, r)

/-! ### Serializer -/

/-- Keys of a set: V1 back to back, V2 each behind a `Some` marker and closed by `None`. -/
def encKeys (ep : Epoch) (kt : KeyTy) : List Key → Bytes
  | [] => match ep with
    | .v1 => []
    | .v2 => [Kind.none.b]
  | k :: ks => match ep with
    | .v1 => encKey kt k ++ encKeys ep kt ks
    | .v2 => Kind.some.b :: (encKey kt k ++ encKeys ep kt ks)

mutual
/-- The bytes the serializer writes for a value (V2: `Serialize for &Value`; V1: the same walk
through the public `serialize_*1` API), ignoring the checks that can make it fail. -/
def encRaw (ep : Epoch) : Value → Bytes
  | .none => [Kind.none.b]
  | .some v => Kind.some.b :: encRaw ep v
  | .bool b => [Kind.bool.b, if b then 1 else 0]
  | .int t i => (Kind.int t).b :: encInt t i
  | .fixed k bs => (Kind.fixed k).b :: bs
  | .string bs => Kind.string.b :: (putVarint 4 bs.length ++ bs)
  | .vec vs => match ep with
    | .v1 => Kind.vec1.b :: (putVarint 4 vs.length ++ encElemsRaw .v1 vs)
    | .v2 => Kind.vec2.b :: encElemsRaw .v2 vs
  | .bytes bs => match ep with
    | .v1 => Kind.bytes1.b :: (putVarint 4 bs.length ++ bs)
    | .v2 =>
      if bs.isEmpty then Kind.bytes2.b :: putVarint 4 0
      else Kind.bytes2.b :: (putVarint 4 bs.length ++ (bs ++ putVarint 4 0))
  | .map kt es => match ep with
    | .v1 => (Kind.map1 kt).b :: (putVarint 4 es.length ++ encEntriesRaw .v1 kt es)
    | .v2 => (Kind.map2 kt).b :: encEntriesRaw .v2 kt es
  | .set kt ks => match ep with
    | .v1 => (Kind.set1 kt).b :: (putVarint 4 ks.length ++ encKeys .v1 kt ks)
    | .v2 => (Kind.set2 kt).b :: encKeys .v2 kt ks
  | .enum id v => Kind.enum.b :: (putVarint 4 id ++ encRaw ep v)

/-- Elements of a vec: V1 back to back, V2 each behind a `Some` marker and closed by `None`. -/
def encElemsRaw (ep : Epoch) : List Value → Bytes
  | [] => match ep with
    | .v1 => []
    | .v2 => [Kind.none.b]
  | v :: vs => match ep with
    | .v1 => encRaw ep v ++ encElemsRaw ep vs
    | .v2 => Kind.some.b :: (encRaw ep v ++ encElemsRaw ep vs)

/-- Entries of a map or struct. -/
def encEntriesRaw (ep : Epoch) (kt : KeyTy) : List (Key × Value) → Bytes
  | [] => match ep with
    | .v1 => []
    | .v2 => [Kind.none.b]
  | (k, v) :: es => match ep with
    | .v1 => encKey kt k ++ (encRaw ep v ++ encEntriesRaw ep kt es)
    | .v2 => Kind.some.b :: (encKey kt k ++ (encRaw ep v ++ encEntriesRaw ep kt es))
end

/-- `Serializer::new` / `increment_depth`: one more level, checked against the limit. -/
def guardDepth (depth : Nat) (k : Option SerErr) : Option SerErr :=
  if depth + 1 > maxValueDepth then some .tooDeep else k

def firstErr (a b : Option SerErr) : Option SerErr :=
  match a with
  | some e => some e
  | none => b

mutual
/-- The first check that fails while serializing (in the serializer's traversal order), if any:
the depth limit at every `Serializer::new`/`increment_depth`, and the `u32` limits on string,
byte and (V1) element counts. -/
def encCheck (ep : Epoch) : Value → Nat → Option SerErr
  | .none, depth => guardDepth depth none
  | .some v, depth => guardDepth depth (encCheck ep v (depth + 1))
  | .bool _, depth => guardDepth depth none
  | .int _ _, depth => guardDepth depth none
  | .fixed _ _, depth => guardDepth depth none
  | .string bs, depth => guardDepth depth (if bs.length > u32Max then some .overflow else none)
  | .vec vs, depth => guardDepth depth (match ep with
    | .v1 => if vs.length > u32Max then some .overflow else encCheckElems .v1 vs (depth + 1)
    | .v2 => encCheckElems .v2 vs (depth + 1))
  | .bytes bs, depth => guardDepth depth (if bs.length > u32Max then some .overflow else none)
  | .map kt es, depth => guardDepth depth (match ep with
    | .v1 => if es.length > u32Max then some .overflow else encCheckEntries .v1 kt es (depth + 1)
    | .v2 => encCheckEntries .v2 kt es (depth + 1))
  | .set _ ks, depth => guardDepth depth (match ep with
    | .v1 => if ks.length > u32Max then some .overflow else none
    | .v2 => none)
  | .enum _ v, depth => guardDepth depth (encCheck ep v (depth + 1))

def encCheckElems (ep : Epoch) : List Value → Nat → Option SerErr
  | [], _ => none
  | v :: vs, d => firstErr (encCheck ep v d) (encCheckElems ep vs d)

def encCheckEntries (ep : Epoch) (kt : KeyTy) : List (Key × Value) → Nat → Option SerErr
  | [], _ => none
  | (_, v) :: es, d => firstErr (encCheck ep v d) (encCheckEntries ep kt es d)
end

/-- `Serializer::new(buf, depth)?` followed by serializing the value: the first failing check, or
the bytes. -/
def enc (ep : Epoch) (v : Value) (depth : Nat) : Except SerErr Bytes :=
  match encCheck ep v depth with
  | some e => .error e
  | none => .ok (encRaw ep v)

/-! ### Deserializer -/

/-- `Set1Deserializer::deserialize_extend`. -/
def decKeys1 (utf8 : Bool) (kt : KeyTy) : Nat → Nat → Bytes → Except DeErr (List Key × Bytes)
  | 0, _, _ => .error .fuel
  | fuel + 1, n, bs =>
    if n = 0 then .ok ([], bs) else
    match decKey utf8 kt bs with
    | .error e => .error e
    | .ok (k, r) => match decKeys1 utf8 kt fuel (n - 1) r with
      | .error e => .error e
      | .ok (ks, r') => .ok (k :: ks, r')

/-- `Set2Deserializer::deserialize_extend`. -/
def decKeys2 (utf8 : Bool) (kt : KeyTy) : Nat → Bytes → Except DeErr (List Key × Bytes)
  | 0, _ => .error .fuel
  | _ + 1, [] => .error .eoi
  | fuel + 1, m :: r =>
    if m = Kind.none.b then .ok ([], r)
    else if m = Kind.some.b then
      match decKey utf8 kt r with
      | .error e => .error e
      | .ok (k, r1) => match decKeys2 utf8 kt fuel r1 with
        | .error e => .error e
        | .ok (ks, r2) => .ok (k :: ks, r2)
    else .error .invalid

/-- `Bytes2Deserializer::deserialize_extend`: chunks until a zero length. -/
def decChunks : Nat → Bytes → Except DeErr (Bytes × Bytes)
  | 0, _ => .error .fuel
  | fuel + 1, bs => match getVarint 4 bs with
    | .error e => .error e
    | .ok (n, r) =>
      if n = 0 then .ok ([], r)
      else if short r n then .error .invalid
      else match decChunks fuel (r.drop n) with
        | .error e => .error e
        | .ok (more, r') => .ok (r.take n ++ more, r')

/-- Decoder variants. -/
structure DecCfg where
  utf8 : Bool      -- validate UTF-8 of strings (decoding does, skipping/converting do not)
  v2 : Bool        -- know the container kinds introduced in protocol 1.20
  deriving DecidableEq, Repr

/-- `Deserialize<tags::Value> for Value` as it is. -/
def DecCfg.std : DecCfg := ⟨true, true⟩
/-- The same without UTF-8 validation: exactly what `skip` and `convert` accept. -/
def DecCfg.lax : DecCfg := ⟨false, true⟩
/-- A decoder that predates protocol 1.20: kinds 43..65 are unknown to it. -/
def DecCfg.legacy : DecCfg := ⟨true, false⟩

/-- Kinds introduced in protocol 1.20 (epoch V2). -/
def Kind.isV2 : Kind → Bool
  | .vec2 | .bytes2 | .map2 _ | .set2 _ => true
  | _ => false

/-- `ValueKind::try_from(u8)` as seen by a decoder variant. -/
def classifyC (cfg : DecCfg) (b : UInt8) : Option Kind :=
  match classify b with
  | Option.none => Option.none
  | Option.some k => if k.isV2 && !cfg.v2 then Option.none else Option.some k

mutual
/-- `Deserializer::new(buf, depth)` followed by `Deserialize<tags::Value> for Value`.
`cfg` selects the variant: `.std` is the real decoder, `.lax` omits the UTF-8 check (what skipping and
converting accept), `.legacy` additionally knows none of the kinds introduced with protocol 1.20. -/
def dec (cfg : DecCfg) : Nat → Bytes → Nat → Except DeErr (Value × Bytes)
  | 0, _, _ => .error .fuel
  | fuel + 1, bs, depth =>
    if depth + 1 > maxValueDepth then .error .tooDeep else
    match bs with
    | [] => .error .eoi
    | kb :: r => match classifyC cfg kb with
      | Option.none => .error .invalid
      | Option.some .none => .ok (.none, r)
      | Option.some .some => match dec cfg fuel r (depth + 1) with
        | .error e => .error e
        | .ok (v, r') => .ok (.some v, r')
      | Option.some .bool => match r with
        | [] => .error .eoi
        | x :: r' => .ok (.bool (x != 0), r')
      | Option.some (.int t) => match decInt t r with
        | .error e => .error e
        | .ok (i, r') => .ok (.int t i, r')
      | Option.some (.fixed k) => match takeN k.len r with
        | .error e => .error e
        | .ok (s, r') => .ok (.fixed k s, r')
      | Option.some .string => match getVarint 4 r with
        | .error e => .error e
        | .ok (n, r1) => match takeN n r1 with
          | .error e => .error e
          | .ok (s, r2) => if cfg.utf8 && !validUtf8 s then .error .invalid else .ok (.string s, r2)
      | Option.some .vec1 => match getVarint 4 r with
        | .error e => .error e
        | .ok (n, r1) => match decElems1 cfg fuel n r1 (depth + 1) with
          | .error e => .error e
          | .ok (vs, r2) => .ok (.vec vs, r2)
      | Option.some .bytes1 => match getVarint 4 r with
        | .error e => .error e
        | .ok (n, r1) =>
          if short r1 n then .error .invalid else .ok (.bytes (r1.take n), r1.drop n)
      | Option.some (.map1 kt) => match getVarint 4 r with
        | .error e => .error e
        | .ok (n, r1) => match decEntries1 cfg kt fuel n r1 (depth + 1) with
          | .error e => .error e
          | .ok (es, r2) => .ok (.map kt es, r2)
      | Option.some (.set1 kt) => match getVarint 4 r with
        | .error e => .error e
        | .ok (n, r1) => match decKeys1 cfg.utf8 kt fuel n r1 with
          | .error e => .error e
          | .ok (ks, r2) => .ok (.set kt ks, r2)
      | Option.some .enum => match getVarint 4 r with
        | .error e => .error e
        | .ok (id, r1) => match dec cfg fuel r1 (depth + 1) with
          | .error e => .error e
          | .ok (v, r2) => .ok (.enum id v, r2)
      | Option.some .vec2 => match decElems2 cfg fuel r (depth + 1) with
        | .error e => .error e
        | .ok (vs, r1) => .ok (.vec vs, r1)
      | Option.some .bytes2 => match decChunks fuel r with
        | .error e => .error e
        | .ok (s, r1) => .ok (.bytes s, r1)
      | Option.some (.map2 kt) => match decEntries2 cfg kt fuel r (depth + 1) with
        | .error e => .error e
        | .ok (es, r1) => .ok (.map kt es, r1)
      | Option.some (.set2 kt) => match decKeys2 cfg.utf8 kt fuel r with
        | .error e => .error e
        | .ok (ks, r1) => .ok (.set kt ks, r1)
termination_by structural x _ _ => x

/-- `Vec1Deserializer::deserialize_extend`. -/
def decElems1 (cfg : DecCfg) : Nat → Nat → Bytes → Nat → Except DeErr (List Value × Bytes)
  | 0, _, _, _ => .error .fuel
  | fuel + 1, n, bs, d =>
    if n = 0 then .ok ([], bs) else
    match dec cfg fuel bs d with
    | .error e => .error e
    | .ok (v, r) => match decElems1 cfg fuel (n - 1) r d with
      | .error e => .error e
      | .ok (vs, r') => .ok (v :: vs, r')
termination_by structural x _ _ _ => x

/-- `Vec2Deserializer::deserialize_extend`. -/
def decElems2 (cfg : DecCfg) : Nat → Bytes → Nat → Except DeErr (List Value × Bytes)
  | 0, _, _ => .error .fuel
  | _ + 1, [], _ => .error .eoi
  | fuel + 1, m :: r, d =>
    if m = Kind.none.b then .ok ([], r)
    else if m = Kind.some.b then
      match dec cfg fuel r d with
      | .error e => .error e
      | .ok (v, r1) => match decElems2 cfg fuel r1 d with
        | .error e => .error e
        | .ok (vs, r2) => .ok (v :: vs, r2)
    else .error .invalid
termination_by structural x _ _ => x

/-- `Map1Deserializer::deserialize_extend` / `Struct1Deserializer` loop. -/
def decEntries1 (cfg : DecCfg) (kt : KeyTy) : Nat → Nat → Bytes → Nat → Except DeErr (List (Key × Value) × Bytes)
  | 0, _, _, _ => .error .fuel
  | fuel + 1, n, bs, d =>
    if n = 0 then .ok ([], bs) else
    match decKey cfg.utf8 kt bs with
    | .error e => .error e
    | .ok (k, r0) => match dec cfg fuel r0 d with
      | .error e => .error e
      | .ok (v, r) => match decEntries1 cfg kt fuel (n - 1) r d with
        | .error e => .error e
        | .ok (es, r') => .ok ((k, v) :: es, r')
termination_by structural x _ _ _ => x

/-- `Map2Deserializer::deserialize_extend` / `Struct2Deserializer` loop. -/
def decEntries2 (cfg : DecCfg) (kt : KeyTy) : Nat → Bytes → Nat → Except DeErr (List (Key × Value) × Bytes)
  | 0, _, _ => .error .fuel
  | _ + 1, [], _ => .error .eoi
  | fuel + 1, m :: r, d =>
    if m = Kind.none.b then .ok ([], r)
    else if m = Kind.some.b then
      match decKey cfg.utf8 kt r with
      | .error e => .error e
      | .ok (k, r0) => match dec cfg fuel r0 d with
        | .error e => .error e
        | .ok (v, r1) => match decEntries2 cfg kt fuel r1 d with
          | .error e => .error e
          | .ok (es, r2) => .ok ((k, v) :: es, r2)
    else .error .invalid
termination_by structural x _ _ => x
end

/-! ### Skipping -/

def skipKeys1 (kt : KeyTy) : Nat → Nat → Bytes → Except DeErr Bytes
  | 0, _, _ => .error .fuel
  | fuel + 1, n, bs =>
    if n = 0 then .ok bs else
    match skipKey kt bs with
    | .error e => .error e
    | .ok r => skipKeys1 kt fuel (n - 1) r

def skipKeys2 (kt : KeyTy) : Nat → Bytes → Except DeErr Bytes
  | 0, _ => .error .fuel
  | _ + 1, [] => .error .eoi
  | fuel + 1, m :: r =>
    if m = Kind.none.b then .ok r
    else if m = Kind.some.b then
      match skipKey kt r with
      | .error e => .error e
      | .ok r1 => skipKeys2 kt fuel r1
    else .error .invalid

/-- `Bytes2Deserializer::skip`. -/
def skipChunks : Nat → Bytes → Except DeErr Bytes
  | 0, _ => .error .fuel
  | fuel + 1, bs => match getVarint 4 bs with
    | .error e => .error e
    | .ok (n, r) =>
      if n = 0 then .ok r
      else if short r n then .error .eoi
      else skipChunks fuel (r.drop n)

mutual
/-- `Deserializer::new(buf, depth)?.skip()`. -/
def skip : Nat → Bytes → Nat → Except DeErr Bytes
  | 0, _, _ => .error .fuel
  | fuel + 1, bs, depth =>
    if depth + 1 > maxValueDepth then .error .tooDeep else
    match bs with
    | [] => .error .eoi
    | kb :: r => match classify kb with
      | Option.none => .error .invalid
      | Option.some .none => .ok r
      | Option.some .some => skip fuel r (depth + 1)
      | Option.some .bool => skipBy skipBool r
      | Option.some (.int t) => skipBy (intSkipSpec t) r
      | Option.some (.fixed k) => skipBy (fixedSkipSpec k) r
      | Option.some .string => match getVarint 4 r with
        | .error e => .error e
        | .ok (n, r1) => match takeN n r1 with
          | .error e => .error e
          | .ok (_, r2) => .ok r2
      | Option.some .vec1 => match getVarint 4 r with
        | .error e => .error e
        | .ok (n, r1) => skipElems1 fuel n r1 (depth + 1)
      | Option.some .bytes1 => match getVarint 4 r with
        | .error e => .error e
        | .ok (n, r1) => if short r1 n then .error .invalid else .ok (r1.drop n)
      | Option.some (.map1 kt) => match getVarint 4 r with
        | .error e => .error e
        | .ok (n, r1) => skipEntries1 kt fuel n r1 (depth + 1)
      | Option.some (.set1 kt) => match getVarint 4 r with
        | .error e => .error e
        | .ok (n, r1) => skipKeys1 kt fuel n r1
      | Option.some .enum => match getVarint 4 r with
        | .error e => .error e
        | .ok (_, r1) => skip fuel r1 (depth + 1)
      | Option.some .vec2 => skipElems2 fuel r (depth + 1)
      | Option.some .bytes2 => skipChunks fuel r
      | Option.some (.map2 kt) => skipEntries2 kt fuel r (depth + 1)
      | Option.some (.set2 kt) => skipKeys2 kt fuel r
termination_by structural x _ _ => x

def skipElems1 : Nat → Nat → Bytes → Nat → Except DeErr Bytes
  | 0, _, _, _ => .error .fuel
  | fuel + 1, n, bs, d =>
    if n = 0 then .ok bs else
    match skip fuel bs d with
    | .error e => .error e
    | .ok r => skipElems1 fuel (n - 1) r d
termination_by structural x _ _ _ => x

def skipElems2 : Nat → Bytes → Nat → Except DeErr Bytes
  | 0, _, _ => .error .fuel
  | _ + 1, [], _ => .error .eoi
  | fuel + 1, m :: r, d =>
    if m = Kind.none.b then .ok r
    else if m = Kind.some.b then
      match skip fuel r d with
      | .error e => .error e
      | .ok r1 => skipElems2 fuel r1 d
    else .error .invalid
termination_by structural x _ _ => x

def skipEntries1 (kt : KeyTy) : Nat → Nat → Bytes → Nat → Except DeErr Bytes
  | 0, _, _, _ => .error .fuel
  | fuel + 1, n, bs, d =>
    if n = 0 then .ok bs else
    match skipKey kt bs with
    | .error e => .error e
    | .ok r0 => match skip fuel r0 d with
      | .error e => .error e
      | .ok r => skipEntries1 kt fuel (n - 1) r d
termination_by structural x _ _ _ => x

def skipEntries2 (kt : KeyTy) : Nat → Bytes → Nat → Except DeErr Bytes
  | 0, _, _ => .error .fuel
  | _ + 1, [], _ => .error .eoi
  | fuel + 1, m :: r, d =>
    if m = Kind.none.b then .ok r
    else if m = Kind.some.b then
      match skipKey kt r with
      | .error e => .error e
      | .ok r0 => match skip fuel r0 d with
        | .error e => .error e
        | .ok r1 => skipEntries2 kt fuel r1 d
    else .error .invalid
termination_by structural x _ _ => x
end

/-! ### Conversion to the legacy epoch (`Convert` with `epoch = V1`) -/

/-- `convert_set1` body: `n` keys. Result: (output, rest). -/
def convKeys1 (kt : KeyTy) : Nat → Nat → Bytes → Except DeErr (Bytes × Bytes)
  | 0, _, _ => .error .fuel
  | fuel + 1, n, bs =>
    if n = 0 then .ok ([], bs) else
    match convKey kt bs with
    | .error e => .error e
    | .ok (o, r) => match convKeys1 kt fuel (n - 1) r with
      | .error e => .error e
      | .ok (os, r') => .ok (o ++ os, r')

/-- `convert_set2_to_set1` loop: (count, buffered output, rest). -/
def convKeys2 (kt : KeyTy) : Nat → Bytes → Except DeErr (Nat × Bytes × Bytes)
  | 0, _ => .error .fuel
  | _ + 1, [] => .error .eoi
  | fuel + 1, m :: r =>
    if m = Kind.none.b then .ok (0, [], r)
    else if m = Kind.some.b then
      match convKey kt r with
      | .error e => .error e
      | .ok (o, r1) => match convKeys2 kt fuel r1 with
        | .error e => .error e
        | .ok (n, os, r2) => .ok (n + 1, o ++ os, r2)
    else .error .invalid

/-- `convert_bytes2_to_bytes1` loop. -/
def convChunks : Nat → Bytes → Except DeErr (Bytes × Bytes)
  | 0, _ => .error .fuel
  | fuel + 1, bs => match getVarint 4 bs with
    | .error e => .error e
    | .ok (n, r) =>
      if n = 0 then .ok ([], r)
      else if short r n then .error .invalid
      else match convChunks fuel (r.drop n) with
        | .error e => .error e
        | .ok (more, r') => .ok (r.take n ++ more, r')

mutual
/-- `Convert::new(src, dst, V1, depth)?.convert()`: (bytes appended to `dst`, rest of `src`). -/
def conv : Nat → Bytes → Nat → Except DeErr (Bytes × Bytes)
  | 0, _, _ => .error .fuel
  | fuel + 1, bs, depth =>
    if depth + 1 > maxValueDepth then .error .tooDeep else
    match bs with
    | [] => .error .eoi
    | kb :: r => match classify kb with
      | Option.none => .error .invalid
      | Option.some .none => .ok ([Kind.none.b], r)
      | Option.some .some => match conv fuel r (depth + 1) with
        | .error e => .error e
        | .ok (o, r') => .ok (Kind.some.b :: o, r')
      | Option.some .bool => match r with
        | [] => .error .eoi
        | x :: r' => .ok ([Kind.bool.b, if x != 0 then 1 else 0], r')
      | Option.some (.int t) => match decInt t r with
        | .error e => .error e
        | .ok (i, r') => .ok ((Kind.int t).b :: encInt t i, r')
      | Option.some (.fixed k) => match takeN k.len r with
        | .error e => .error e
        | .ok (s, r') => .ok ((Kind.fixed k).b :: s, r')
      | Option.some .string => match getVarint 4 r with
        | .error e => .error e
        | .ok (n, r1) => match takeN n r1 with
          | .error e => .error e
          | .ok (s, r2) => .ok (Kind.string.b :: (putVarint 4 n ++ s), r2)
      | Option.some .vec1 => match getVarint 4 r with
        | .error e => .error e
        | .ok (n, r1) => match convElems1 fuel n r1 (depth + 1) with
          | .error e => .error e
          | .ok (o, r2) => .ok (Kind.vec1.b :: (putVarint 4 n ++ o), r2)
      | Option.some .bytes1 => match getVarint 4 r with
        | .error e => .error e
        | .ok (n, r1) =>
          if short r1 n then .error .eoi
          else .ok (Kind.bytes1.b :: (putVarint 4 n ++ r1.take n), r1.drop n)
      | Option.some (.map1 kt) => match getVarint 4 r with
        | .error e => .error e
        | .ok (n, r1) => match convEntries1 kt fuel n r1 (depth + 1) with
          | .error e => .error e
          | .ok (o, r2) => .ok ((Kind.map1 kt).b :: (putVarint 4 n ++ o), r2)
      | Option.some (.set1 kt) => match getVarint 4 r with
        | .error e => .error e
        | .ok (n, r1) => match convKeys1 kt fuel n r1 with
          | .error e => .error e
          | .ok (o, r2) => .ok ((Kind.set1 kt).b :: (putVarint 4 n ++ o), r2)
      | Option.some .enum => match getVarint 4 r with
        | .error e => .error e
        | .ok (id, r1) => match conv fuel r1 (depth + 1) with
          | .error e => .error e
          | .ok (o, r2) => .ok (Kind.enum.b :: (putVarint 4 id ++ o), r2)
      | Option.some .vec2 => match convElems2 fuel r (depth + 1) with
        | .error e => .error e
        | .ok (n, o, r1) =>
          if n > u32Max then .error .overflow
          else .ok (Kind.vec1.b :: (putVarint 4 n ++ o), r1)
      | Option.some .bytes2 => match convChunks fuel r with
        | .error e => .error e
        | .ok (s, r1) =>
          if s.length > u32Max then .error .overflow
          else .ok (Kind.bytes1.b :: (putVarint 4 s.length ++ s), r1)
      | Option.some (.map2 kt) => match convEntries2 kt fuel r (depth + 1) with
        | .error e => .error e
        | .ok (n, o, r1) =>
          if n > u32Max then .error .overflow
          else .ok ((Kind.map1 kt).b :: (putVarint 4 n ++ o), r1)
      | Option.some (.set2 kt) => match convKeys2 kt fuel r with
        | .error e => .error e
        | .ok (n, o, r1) =>
          if n > u32Max then .error .overflow
          else .ok ((Kind.set1 kt).b :: (putVarint 4 n ++ o), r1)
termination_by structural x _ _ => x

def convElems1 : Nat → Nat → Bytes → Nat → Except DeErr (Bytes × Bytes)
  | 0, _, _, _ => .error .fuel
  | fuel + 1, n, bs, d =>
    if n = 0 then .ok ([], bs) else
    match conv fuel bs d with
    | .error e => .error e
    | .ok (o, r) => match convElems1 fuel (n - 1) r d with
      | .error e => .error e
      | .ok (os, r') => .ok (o ++ os, r')
termination_by structural x _ _ _ => x

def convElems2 : Nat → Bytes → Nat → Except DeErr (Nat × Bytes × Bytes)
  | 0, _, _ => .error .fuel
  | _ + 1, [], _ => .error .eoi
  | fuel + 1, m :: r, d =>
    if m = Kind.none.b then .ok (0, [], r)
    else if m = Kind.some.b then
      match conv fuel r d with
      | .error e => .error e
      | .ok (o, r1) => match convElems2 fuel r1 d with
        | .error e => .error e
        | .ok (n, os, r2) => .ok (n + 1, o ++ os, r2)
    else .error .invalid
termination_by structural x _ _ => x

def convEntries1 (kt : KeyTy) : Nat → Nat → Bytes → Nat → Except DeErr (Bytes × Bytes)
  | 0, _, _, _ => .error .fuel
  | fuel + 1, n, bs, d =>
    if n = 0 then .ok ([], bs) else
    match convKey kt bs with
    | .error e => .error e
    | .ok (ko, r0) => match conv fuel r0 d with
      | .error e => .error e
      | .ok (o, r) => match convEntries1 kt fuel (n - 1) r d with
        | .error e => .error e
        | .ok (os, r') => .ok (ko ++ o ++ os, r')
termination_by structural x _ _ _ => x

def convEntries2 (kt : KeyTy) : Nat → Bytes → Nat → Except DeErr (Nat × Bytes × Bytes)
  | 0, _, _ => .error .fuel
  | _ + 1, [], _ => .error .eoi
  | fuel + 1, m :: r, d =>
    if m = Kind.none.b then .ok (0, [], r)
    else if m = Kind.some.b then
      match convKey kt r with
      | .error e => .error e
      | .ok (ko, r0) => match conv fuel r0 d with
        | .error e => .error e
        | .ok (o, r1) => match convEntries2 kt fuel r1 d with
          | .error e => .error e
          | .ok (n, os, r2) => .ok (n + 1, ko ++ o ++ os, r2)
    else .error .invalid
termination_by structural x _ _ => x
end

/-! ### Top-level entry points (`SerializedValue` / `SerializedValueSlice`) -/

/-- Enough fuel for any walk over `bs` (proved in `Lemmas/Fuel.lean`). -/
def fuelFor (bs : Bytes) : Nat := 2 * bs.length + 2

/-- `SerializedValue::serialize_as` (V2) or the same through the `*1` API (V1). -/
def encodeTop (ep : Epoch) (v : Value) : Except SerErr Bytes := enc ep v 0

/-- `SerializedValueSlice::deserialize_as_value`: decode at depth 0, then the `TrailingData` check. -/
def decodeTop (cfg : DecCfg) (bs : Bytes) : Except DeErr Value :=
  match dec cfg (fuelFor bs) bs 0 with
  | .error e => .error e
  | .ok (v, rest) => if rest.isEmpty then .ok v else .error .trailing

/-- `Deserializer::len` on a fresh top-level deserializer: number of bytes of the first value. -/
def lenTop (bs : Bytes) : Except DeErr Nat :=
  match skip (fuelFor bs) bs 0 with
  | .error e => .error e
  | .ok rest => .ok (bs.length - rest.length)

/-- `SerializedValueSlice::kind`. -/
def kindTop (bs : Bytes) : Except DeErr Kind :=
  if 1 > maxValueDepth then .error .tooDeep else
  match bs with
  | [] => .error .eoi
  | b :: _ => match classify b with
    | Option.none => .error .invalid
    | Option.some k => .ok k

/-- `Epoch::try_from(ProtocolVersion)`; versions are `(major, minor)` pairs ordered
lexicographically as the derived `Ord` does. -/
def verLe (a b : Nat × Nat) : Bool := a.1 < b.1 || (a.1 == b.1 && a.2 ≤ b.2)

def epochOf (v : Nat × Nat) : Option Epoch :=
  if verLe epochV1min v && verLe v epochV1max then Option.some .v1
  else if verLe epochV2min v && verLe v epochV2max then Option.some .v2
  else Option.none

/-- `convert_value::convert(value, from, to)`; `none` result bytes = input returned unchanged
(`Cow::Borrowed`). -/
def convertTop (frm : Option (Nat × Nat)) (to : Nat × Nat) (bs : Bytes) : Except DeErr Bytes :=
  match epochOf (frm.getD convertDefaultFrom) with
  | Option.none => .error .version
  | Option.some ef => match epochOf to with
    | Option.none => .error .version
    | Option.some et =>
      if et = .v1 ∧ ef = .v2 then
        match conv (fuelFor bs) bs 0 with
        | .error e => .error e
        | .ok (o, rest) => if rest.isEmpty then .ok o else .error .trailing
      else .ok bs

end Aldrin
