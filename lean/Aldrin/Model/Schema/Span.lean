/-
M8 — the position arithmetic of `parser/src/warning/broken_doc_link.rs`: a (line, column) position that the
markdown parser reports inside a doc comment is mapped back to a byte offset of the schema source
(`linecol_to_index`), two of them to a span (`sourcepos_to_span`). Strings are their UTF-8 bytes, as in Rust;
`usize` subtraction that would wrap is an explicit outcome.
-/
import Aldrin.Model.Bytes

namespace Aldrin.Schema.Span

/-- a doc string of the comment: `span_inner().start` and the bytes of `value_inner()` -/
structure DocLine where
  start : Nat
  value : Bytes
  deriving Repr

/-- `str::split('\r')`: the pieces between carriage returns (at least one piece) -/
def splitCR : Bytes → List Bytes
  | [] => [[]]
  | b :: r =>
    if b = 13 then [] :: splitCR r
    else match splitCR r with
      | p :: ps => (b :: p) :: ps
      | [] => [[b]]

/-- `str::is_char_boundary` -/
def isCharBoundary (v : Bytes) (idx : Nat) : Bool :=
  if idx = 0 then true
  else match v[idx]? with
    | none => idx = v.length
    | some b => b < 128 || b ≥ 192      -- not a continuation byte

inductive Res where
  | underflow             -- `offset + column - 1` below zero: a panic with overflow checks
  | none
  | some (i : Nat)
  deriving DecidableEq, Repr

/-- what is done with the piece that holds the wanted line (`offset` = where the piece starts in the value) -/
def atPart (d : DocLine) (col : Nat) (e : Bool) (offset : Nat) (part : Bytes) : Res :=
  if col > part.length then .none
  else if offset + col = 0 then .underflow
  else
    let idx := offset + col - 1 + (if e then 1 else 0)
    if isCharBoundary d.value idx then .some (d.start + idx) else .none

/-- the loop over the pieces of one doc string; `inr` = the line counter afterwards -/
def inner (d : DocLine) (target col : Nat) (e : Bool) : Nat → Nat → List Bytes → Sum Res Nat
  | line, _, [] => .inr line
  | line, offset, part :: rest =>
    if line + 1 = target then .inl (atPart d col e offset part)
    else inner d target col e (line + 1) (offset + part.length + 1) rest

/-- `linecol_to_index` -/
def linecolFrom (target col : Nat) (e : Bool) : Nat → List DocLine → Res
  | _, [] => .none
  | line, d :: ds =>
    match inner d target col e line 0 (splitCR d.value) with
    | .inl r => r
    | .inr line' => linecolFrom target col e line' ds

def linecolToIndex (docs : List DocLine) (line col : Nat) (e : Bool) : Res := linecolFrom line col e 0 docs

/-- `sourcepos_to_span`: `(start, end)`; `none` when the arithmetic would wrap -/
def sourceposToSpan (docs : List DocLine) (l1 c1 l2 c2 : Nat) : Option (Nat × Nat) :=
  match linecolToIndex docs l1 c1 false with
  | .underflow => none
  | .some s =>
    match linecolToIndex docs l2 c2 true with
    | .underflow => none
    | .some t => some (s, t)
    | .none => some ((docs.head?.map (·.start)).getD 0, (docs.getLast?.map (fun d => d.start + d.value.length)).getD 0)
  | .none => some ((docs.head?.map (·.start)).getD 0, (docs.getLast?.map (fun d => d.start + d.value.length)).getD 0)

end Aldrin.Schema.Span
