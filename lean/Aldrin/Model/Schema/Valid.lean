/-
M10 — executable well-formedness of a schema AST: what the round-trip theorem (`Props/C18.lean`) assumes of an
AST, as a Boolean function. The driver evaluates it on every AST the model parser produces (`sval` command), and
`Lemmas/Schema/ValidSound.lean` proves that it implies the propositional `ValidSchema`.
-/
import Aldrin.Model.Schema.Parse
import Aldrin.Model.Schema.Fmt

namespace Aldrin.Schema

def validIdentB : Str → Bool
  | c :: r => isIdStart c && r.all isIdCont
  | [] => false

def digitsB (ds : Str) : Bool := !ds.isEmpty && ds.all Char.isDigit

def validIntB : Str → Bool
  | '-' :: ds => digitsB ds
  | ds => digitsB ds

def hexRunB (n : Nat) (s : Str) : Bool := s.length == n && s.all isHex

/-- 8-4-4-4-12 hex digits. -/
def validUuidB (u : Str) : Bool :=
  hexRunB 8 (u.take 8) &&
  match u.drop 8 with
  | '-' :: r1 => hexRunB 4 (r1.take 4) &&
    match r1.drop 4 with
    | '-' :: r2 => hexRunB 4 (r2.take 4) &&
      match r2.drop 4 with
      | '-' :: r3 => hexRunB 4 (r3.take 4) &&
        match r3.drop 4 with
        | '-' :: r4 => hexRunB 12 r4
        | _ => false
      | _ => false
    | _ => false
  | _ => false

def validLitStringB : Str → Bool
  | '"' :: body => litStringTail (body.length + 1) body == some (body, [])
  | _ => false

def validLinesB (k : Nat) (ls : List Line) : Bool := ls.all (fun l => !(inner k l).contains '\n')

def allPrimsB : List Prim := [.bool, .u8, .i8, .u16, .i16, .u32, .i32, .u64, .i64, .f32, .f64, .string, .uuid,
  .objectId, .serviceId, .value, .bytes, .lifetime, .unit]

def notKwPrefixedB (n : Str) : Bool := allPrimsB.all (fun p => !(p.kwText.isPrefixOf n))

def validRefB : NamedRef → Bool
  | .intern n => validIdentB n
  | .extern s n => validIdentB s && validIdentB n

def refHead : NamedRef → Str
  | .intern n => n
  | .extern s _ => s

def validLenB : ArrayLen → Bool
  | .lit v => validIntB v
  | .ref r => validRefB r

def validTypeB : TypeName → Bool
  | .prim _ => true
  | .option t | .box t | .vec t | .set t | .sender t | .receiver t => validTypeB t
  | .map k v => validTypeB k && validTypeB v
  | .result a b => validTypeB a && validTypeB b
  | .array t l => validTypeB t && validLenB l
  | .ref r => validRefB r && notKwPrefixedB (refHead r)

def validAttrB (a : Attribute) : Bool := validIdentB a.name && a.options.all validIdentB

def validFieldB (f : StructField) : Bool :=
  validLinesB 2 f.comment && validLinesB 3 f.doc && validIdentB f.name && validIntB f.id && validTypeB f.ty

def validVariantB (v : EnumVariant) : Bool :=
  validLinesB 2 v.comment && validLinesB 3 v.doc && validIdentB v.name && validIntB v.id &&
    (match v.ty with | some t => validTypeB t | none => true)

def validFallbackB (fb : Fallback) : Bool := validLinesB 2 fb.comment && validLinesB 3 fb.doc && validIdentB fb.name

def validOptFallbackB : Option Fallback → Bool
  | some fb => validFallbackB fb
  | none => true

def validInlineB : TypeOrInline → Bool
  | .ty t => validTypeB t
  | .struct s => validLinesB 3 s.doc && s.attrs.all validAttrB && s.fields.all validFieldB && validOptFallbackB s.fallback
  | .enum e => validLinesB 3 e.doc && e.attrs.all validAttrB && e.variants.all validVariantB && validOptFallbackB e.fallback

def validPartB (p : FnPart) : Bool := validLinesB 2 p.comment && validInlineB p.ty

def validOptPartB : Option FnPart → Bool
  | some p => validPartB p
  | none => true

def validItemB : ServiceItem → Bool
  | .fn f => validLinesB 2 f.comment && validLinesB 3 f.doc && validIdentB f.name && validIntB f.id &&
      validOptPartB f.args && validOptPartB f.ok && validOptPartB f.err
  | .event e => validLinesB 2 e.comment && validLinesB 3 e.doc && validIdentB e.name && validIntB e.id &&
      (match e.ty with | some t => validInlineB t | none => true)

def constKindsB : List Prim := [.u8, .i8, .u16, .i16, .u32, .i32, .u64, .i64]

def validDefB : Definition → Bool
  | .struct d => validLinesB 2 d.comment && validLinesB 3 d.doc && d.attrs.all validAttrB && validIdentB d.name &&
      d.fields.all validFieldB && validOptFallbackB d.fallback
  | .enum d => validLinesB 2 d.comment && validLinesB 3 d.doc && d.attrs.all validAttrB && validIdentB d.name &&
      d.variants.all validVariantB && validOptFallbackB d.fallback
  | .service d => validLinesB 2 d.comment && validLinesB 3 d.doc && validIdentB d.name && validLinesB 2 d.uuidComment &&
      validUuidB d.uuid && validLinesB 2 d.versionComment && validIntB d.version && d.items.all validItemB &&
      validOptFallbackB d.fnFallback && validOptFallbackB d.evFallback
  | .const d => validLinesB 2 d.comment && validLinesB 3 d.doc && validIdentB d.name &&
      ((constKindsB.contains d.kind && validIntB d.value) || (d.kind == .string && validLitStringB d.value) ||
        (d.kind == .uuid && validUuidB d.value))
  | .newtype d => validLinesB 2 d.comment && validLinesB 3 d.doc && d.attrs.all validAttrB && validIdentB d.name &&
      validTypeB d.target

def validImportB (i : Import) : Bool := validLinesB 2 i.comment && validIdentB i.name

def validSchemaB (s : Schema) : Bool :=
  validLinesB 2 s.comment && validLinesB 3 s.doc && (!s.doc.isEmpty || s.comment.isEmpty) &&
    s.imports.all validImportB && s.defs.all validDefB

end Aldrin.Schema
