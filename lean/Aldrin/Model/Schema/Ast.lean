/-
M10 — the schema AST as the parser builds it (`parser/src/ast/*.rs`), without spans.

Text is `List Char` (pest works on characters). Identifiers, integer and uuid literals are kept as the text
the parser saw. Comments and doc strings keep their raw text (`//…` / `///…` / `//!…` up to and including the
line end) as in `Comment::value`; `inner` is `value_inner` (prefix dropped, one leading space dropped, end
trimmed), which is all the formatter looks at.
-/
open Lean in
/-- `chars! "abc"` is the list literal `['a', 'b', 'c']` (no `String.toList` left to unfold in proofs). -/
macro "chars!" s:str : term => do
  let elems := s.getString.toList.toArray.map (fun c => (Syntax.mkCharLit c : TSyntax `term))
  `([$elems,*])

namespace Aldrin.Schema

abbrev Str := List Char

inductive NamedRef where
  | intern (name : Str)
  | extern (schema : Str) (name : Str)
  deriving Repr, DecidableEq, Inhabited

inductive ArrayLen where
  | lit (v : Str)
  | ref (r : NamedRef)
  deriving Repr, DecidableEq, Inhabited

/-- Built-in type keywords without parameters, in grammar order. -/
inductive Prim where
  | bool | u8 | i8 | u16 | i16 | u32 | i32 | u64 | i64 | f32 | f64 | string | uuid | objectId | serviceId
  | value | bytes | lifetime | unit
  deriving Repr, DecidableEq, Inhabited

inductive TypeName where
  | prim (p : Prim)
  | option (t : TypeName)
  | box (t : TypeName)
  | vec (t : TypeName)
  | map (k v : TypeName)
  | set (t : TypeName)
  | sender (t : TypeName)
  | receiver (t : TypeName)
  | result (ok err : TypeName)
  | array (t : TypeName) (len : ArrayLen)
  | ref (r : NamedRef)
  deriving Repr, DecidableEq, Inhabited

structure Attribute where
  name : Str
  options : List Str
  deriving Repr, DecidableEq, Inhabited

/-- Raw text of a `//`, `///` or `//!` line including its prefix and line end. -/
abbrev Line := Str

structure StructField where
  comment : List Line
  doc : List Line
  required : Bool
  name : Str
  id : Str
  ty : TypeName
  deriving Repr, DecidableEq, Inhabited

/-- Fallback field / variant / function / event: prelude and a name. -/
structure Fallback where
  comment : List Line
  doc : List Line
  name : Str
  deriving Repr, DecidableEq, Inhabited

structure EnumVariant where
  comment : List Line
  doc : List Line
  name : Str
  id : Str
  ty : Option TypeName
  deriving Repr, DecidableEq, Inhabited

structure InlineStruct where
  doc : List Line
  attrs : List Attribute
  fields : List StructField
  fallback : Option Fallback
  deriving Repr, DecidableEq, Inhabited

structure InlineEnum where
  doc : List Line
  attrs : List Attribute
  variants : List EnumVariant
  fallback : Option Fallback
  deriving Repr, DecidableEq, Inhabited

inductive TypeOrInline where
  | ty (t : TypeName)
  | struct (s : InlineStruct)
  | enum (e : InlineEnum)
  deriving Repr, DecidableEq, Inhabited

structure FnPart where
  comment : List Line
  ty : TypeOrInline
  deriving Repr, DecidableEq, Inhabited

structure FnDef where
  comment : List Line
  doc : List Line
  name : Str
  id : Str
  args : Option FnPart
  ok : Option FnPart
  err : Option FnPart
  deriving Repr, DecidableEq, Inhabited

structure EventDef where
  comment : List Line
  doc : List Line
  name : Str
  id : Str
  ty : Option TypeOrInline
  deriving Repr, DecidableEq, Inhabited

inductive ServiceItem where
  | fn (f : FnDef)
  | event (e : EventDef)
  deriving Repr, DecidableEq, Inhabited

structure StructDef where
  comment : List Line
  doc : List Line
  attrs : List Attribute
  name : Str
  fields : List StructField
  fallback : Option Fallback
  deriving Repr, DecidableEq, Inhabited

structure EnumDef where
  comment : List Line
  doc : List Line
  attrs : List Attribute
  name : Str
  variants : List EnumVariant
  fallback : Option Fallback
  deriving Repr, DecidableEq, Inhabited

structure ServiceDef where
  comment : List Line
  doc : List Line
  name : Str
  uuidComment : List Line
  uuid : Str
  versionComment : List Line
  version : Str
  items : List ServiceItem
  fnFallback : Option Fallback
  evFallback : Option Fallback
  deriving Repr, DecidableEq, Inhabited

/-- `const N = <kind>(<value>)`: the kind keyword (`u8` … `i64`, `string`, `uuid`) and the literal's text. -/
structure ConstDef where
  comment : List Line
  doc : List Line
  name : Str
  kind : Prim
  value : Str
  deriving Repr, DecidableEq, Inhabited

structure NewtypeDef where
  comment : List Line
  doc : List Line
  attrs : List Attribute
  name : Str
  target : TypeName
  deriving Repr, DecidableEq, Inhabited

inductive Definition where
  | struct (d : StructDef)
  | enum (d : EnumDef)
  | service (d : ServiceDef)
  | const (d : ConstDef)
  | newtype (d : NewtypeDef)
  deriving Repr, DecidableEq, Inhabited

structure Import where
  comment : List Line
  name : Str
  deriving Repr, DecidableEq, Inhabited

structure Schema where
  comment : List Line
  doc : List Line
  imports : List Import
  defs : List Definition
  deriving Repr, DecidableEq, Inhabited

end Aldrin.Schema
