/-
M10 — the formatter (`parser/src/fmt.rs`), function by function.

`Formatter` carries four pieces of state besides the writer: `newline` (a blank line is due before the next
item), `first` (first item of a block), `last_def` and `last_item` (kind of the previous definition / service
item; a change of kind forces a blank line). Here the state is `FSt` and every method is a function
`FSt → FSt` that appends to `out`.
-/
import Aldrin.Model.Schema.Ast

namespace Aldrin.Schema

inductive DefKind where
  | struct | enum | service | const | newtype
  deriving DecidableEq, Repr, Inhabited

inductive ItemKind where
  | function | event
  deriving DecidableEq, Repr, Inhabited

structure FSt where
  newline : Bool := false
  first : Bool := true
  lastDef : Option DefKind := none
  lastItem : Option ItemKind := none
  out : Str := []
  deriving Repr, Inhabited

abbrev F := FSt → FSt

def w (s : Str) : F := fun st => { st with out := st.out ++ s }
def nl : F := w ['\n']

def seqF : List F → F
  | [] => id
  | f :: fs => fun st => seqF fs (f st)

def forF {α : Type} (l : List α) (f : α → F) : F := fun st => l.foldl (fun st a => f a st) st

def indent (n : Nat) : F := w (List.replicate n ' ')

/-! ### `value_inner` -/

/-- `char::is_whitespace`: the Unicode `White_Space` property (25 code points) -/
def isWs (c : Char) : Bool :=
  let n := c.toNat
  (9 ≤ n && n ≤ 13) || n == 32 || n == 0x85 || n == 0xA0 || n == 0x1680 || (0x2000 ≤ n && n ≤ 0x200A) ||
  n == 0x2028 || n == 0x2029 || n == 0x202F || n == 0x205F || n == 0x3000

/-- `str::trim_end` -/
def trimEnd (s : Str) : Str := (s.reverse.dropWhile isWs).reverse

/-- `value_inner` of a comment (`skip = 2`) or doc string (`skip = 3`). -/
def inner (skip : Nat) (raw : Line) : Str :=
  let v := raw.drop skip
  trimEnd (match v with | ' ' :: r => r | _ => v)

/-! ### preludes -/

def commentLines (cs : List Line) (ind : Nat) : F :=
  forF cs (fun c => seqF [indent ind,
    let i := inner 2 c
    if i.isEmpty then w (chars! "//") else seqF [w (chars! "// "), w i], nl])

def docLines (ds : List Line) (ind : Nat) (style : Str) : F :=
  forF ds (fun d => seqF [indent ind,
    let i := inner 3 d
    if i.isEmpty then w style else seqF [w style, w (chars! " "), w i], nl])

def intercalate (sep : Str) : List Str → Str
  | [] => []
  | [a] => a
  | a :: r => a ++ sep ++ intercalate sep r

def attributeF (a : Attribute) (ind : Nat) (inline : Bool) : F :=
  seqF [indent ind, w (if inline then chars! "#![" else chars! "#["), w a.name,
    if a.options.isEmpty then id else seqF [w (chars! "("), w (intercalate (chars! ", ") a.options), w (chars! ")")],
    w (chars! "]"), nl]

def prelude (comment doc : List Line) (attrs : List Attribute) (ind : Nat) (inline : Bool) : F :=
  seqF [commentLines comment ind, docLines doc ind (if inline then chars! "//!" else chars! "///"),
    forF attrs (fun a => attributeF a ind inline)]

/-! ### blank-line logic -/

def newlineF : F := fun st => if st.newline then { (nl st) with newline := false } else st

def newlineWithFirst (multi : Bool) : F := fun st =>
  newlineF { st with newline := st.newline || (!st.first && multi), first := false }

def newlineDef (kind : DefKind) (multi : Bool) : F := fun st =>
  let st := match st.lastDef with
    | some last =>
      let st := if last ≠ kind then { st with newline := true, lastDef := some kind } else st
      { st with first := false }
    | none => { st with lastDef := some kind, first := true }
  newlineWithFirst multi st

def newlineItem (kind : ItemKind) (multi : Bool) : F := fun st =>
  let st := match st.lastItem with
    | some last => if last ≠ kind then { st with newline := true, lastItem := some kind } else st
    | none => { st with lastItem := some kind }
  newlineWithFirst multi st

def setNewline (b : Bool) : F := fun st => { st with newline := b }
def orNewline (b : Bool) : F := fun st => { st with newline := st.newline || b }
def setFirst (b : Bool) : F := fun st => { st with first := b }

/-! ### types -/

def Prim.text : Prim → Str
  | .bool => chars! "bool" | .u8 => chars! "u8" | .i8 => chars! "i8" | .u16 => chars! "u16" | .i16 => chars! "i16" | .u32 => chars! "u32" | .i32 => chars! "i32"
  | .u64 => chars! "u64" | .i64 => chars! "i64" | .f32 => chars! "f32" | .f64 => chars! "f64" | .string => chars! "string" | .uuid => chars! "uuid"
  | .objectId => chars! "object_id" | .serviceId => chars! "service_id" | .value => chars! "value" | .bytes => chars! "bytes"
  | .lifetime => chars! "lifetime" | .unit => chars! "unit"

def namedRefText : NamedRef → Str
  | .intern n => n
  | .extern s n => s ++ (chars! "::") ++ n

def arrayLenText : ArrayLen → Str
  | .lit v => v
  | .ref r => namedRefText r

def typeText : TypeName → Str
  | .prim p => p.text
  | .option t => (chars! "option<") ++ typeText t ++ (chars! ">")
  | .box t => (chars! "box<") ++ typeText t ++ (chars! ">")
  | .vec t => (chars! "vec<") ++ typeText t ++ (chars! ">")
  | .map k v => (chars! "map<") ++ typeText k ++ (chars! " -> ") ++ typeText v ++ (chars! ">")
  | .set t => (chars! "set<") ++ typeText t ++ (chars! ">")
  | .sender t => (chars! "sender<") ++ typeText t ++ (chars! ">")
  | .receiver t => (chars! "receiver<") ++ typeText t ++ (chars! ">")
  | .result a b => (chars! "result<") ++ typeText a ++ (chars! ", ") ++ typeText b ++ (chars! ">")
  | .array t l => (chars! "[") ++ typeText t ++ (chars! "; ") ++ arrayLenText l ++ (chars! "]")
  | .ref r => namedRefText r

/-! ### structs and enums -/

def fieldF (f : StructField) (ind : Nat) : F :=
  let multi := !f.comment.isEmpty || !f.doc.isEmpty
  seqF [newlineWithFirst multi, prelude f.comment f.doc [] ind false, indent ind,
    if f.required then w (chars! "required ") else id,
    w f.name, w (chars! " @ "), w f.id, w (chars! " = "), w (typeText f.ty), w (chars! ";"), nl, setNewline multi]

/-- `fallback_field` / `fallback_variant`: note that neither resets `newline` afterwards. -/
def fallbackEntryF (fb : Fallback) (ind : Nat) : F :=
  let multi := !fb.comment.isEmpty || !fb.doc.isEmpty
  seqF [newlineWithFirst multi, prelude fb.comment fb.doc [] ind false, indent ind,
    w fb.name, w (chars! " = fallback;"), nl]

def fieldsF (fs : List StructField) (fb : Option Fallback) (ind : Nat) : F :=
  seqF [setFirst true, forF fs (fun f => fieldF f ind),
    match fb with | some fb => fallbackEntryF fb ind | none => id]

def variantF (v : EnumVariant) (ind : Nat) : F :=
  let multi := !v.comment.isEmpty || !v.doc.isEmpty
  seqF [newlineWithFirst multi, prelude v.comment v.doc [] ind false, indent ind,
    w v.name, w (chars! " @ "), w v.id,
    match v.ty with | some t => seqF [w (chars! " = "), w (typeText t)] | none => id,
    w (chars! ";"), nl, setNewline multi]

def variantsF (vs : List EnumVariant) (fb : Option Fallback) (ind : Nat) : F :=
  seqF [setFirst true, forF vs (fun v => variantF v ind),
    match fb with | some fb => fallbackEntryF fb ind | none => id]

def isMultiStruct (comment doc : List Line) (attrs : List Attribute) (fs : List StructField) (fb : Option Fallback) : Bool :=
  !comment.isEmpty || !doc.isEmpty || !attrs.isEmpty || !fs.isEmpty || fb.isSome

def isMultiEnum (comment doc : List Line) (attrs : List Attribute) (vs : List EnumVariant) (fb : Option Fallback) : Bool :=
  !comment.isEmpty || !doc.isEmpty || !attrs.isEmpty || !vs.isEmpty || fb.isSome

def structDefF (d : StructDef) : F :=
  let hasFields := !d.fields.isEmpty || d.fallback.isSome
  let multi := isMultiStruct d.comment d.doc d.attrs d.fields d.fallback
  seqF [newlineDef .struct multi, prelude d.comment d.doc d.attrs 0 false,
    if hasFields then seqF [w (chars! "struct "), w d.name, w (chars! " {"), nl, fieldsF d.fields d.fallback 4, w (chars! "}"), nl]
    else seqF [w (chars! "struct "), w d.name, w (chars! " {}"), nl],
    setNewline multi]

def enumDefF (d : EnumDef) : F :=
  let hasVars := !d.variants.isEmpty || d.fallback.isSome
  let multi := isMultiEnum d.comment d.doc d.attrs d.variants d.fallback
  seqF [newlineDef .enum multi, prelude d.comment d.doc d.attrs 0 false,
    if hasVars then seqF [w (chars! "enum "), w d.name, w (chars! " {"), nl, variantsF d.variants d.fallback 4, w (chars! "}"), nl]
    else seqF [w (chars! "enum "), w d.name, w (chars! " {}"), nl],
    setNewline multi]

def inlineStructF (s : InlineStruct) (ind : Nat) : F :=
  let hasPrelude := !s.doc.isEmpty || !s.attrs.isEmpty
  if isMultiStruct [] s.doc s.attrs s.fields s.fallback then
    seqF [w (chars! "struct {"), nl,
      if hasPrelude then prelude [] s.doc s.attrs (ind + 4) true else id,
      setNewline hasPrelude, fieldsF s.fields s.fallback (ind + 4), indent ind, w (chars! "}"), nl]
  else seqF [w (chars! "struct {}"), nl]

def inlineEnumF (e : InlineEnum) (ind : Nat) : F :=
  let hasPrelude := !e.doc.isEmpty || !e.attrs.isEmpty
  if isMultiEnum [] e.doc e.attrs e.variants e.fallback then
    seqF [w (chars! "enum {"), nl,
      if hasPrelude then prelude [] e.doc e.attrs (ind + 4) true else id,
      setNewline hasPrelude, variantsF e.variants e.fallback (ind + 4), indent ind, w (chars! "}"), nl]
  else seqF [w (chars! "enum {}"), nl]

def typeOrInlineF (t : TypeOrInline) (ind : Nat) : F :=
  match t with
  | .ty t => w (typeText t)
  | .struct s => inlineStructF s ind
  | .enum e => inlineEnumF e ind

def isMultiTypeOrInline : TypeOrInline → Bool
  | .ty _ => false
  | .struct s => isMultiStruct [] s.doc s.attrs s.fields s.fallback
  | .enum e => isMultiEnum [] e.doc e.attrs e.variants e.fallback

def isTypeName : TypeOrInline → Bool
  | .ty _ => true
  | _ => false

/-! ### services -/

def fnPartF (p : FnPart) (kind : Str) : F :=
  let multi := !p.comment.isEmpty || isMultiTypeOrInline p.ty
  seqF [newlineWithFirst multi, prelude p.comment [] [] 8 false, w (chars! "        "), w kind, w (chars! " = "),
    typeOrInlineF p.ty 8, if isTypeName p.ty then seqF [w (chars! ";"), nl] else id, setNewline multi]

def okHasComment (f : FnDef) : Bool := match f.ok with | some ok => !ok.comment.isEmpty | none => false

def fnMulti (f : FnDef) : Bool :=
  !f.comment.isEmpty || !f.doc.isEmpty || f.args.isSome || f.err.isSome ||
    (match f.ok with | some ok => !ok.comment.isEmpty || isMultiTypeOrInline ok.ty | none => false)

def optPartF (o : Option FnPart) (kind : Str) : F := match o with | some p => fnPartF p kind | none => id

/-- `= type_or_inline` with `;` and the line end when it is a type name. -/
def eqInlineF (t : TypeOrInline) (ind : Nat) : F :=
  seqF [w (chars! " = "), typeOrInlineF t ind, if isTypeName t then seqF [w (chars! ";"), nl] else id]

def fnDefF (f : FnDef) : F :=
  seqF [newlineItem .function (fnMulti f), prelude f.comment f.doc [] 4 false,
    w (chars! "    fn "), w f.name, w (chars! " @ "), w f.id,
    if f.args.isSome || okHasComment f || f.err.isSome then
      seqF [w (chars! " {"), nl, setNewline false, setFirst true,
        optPartF f.args (chars! "args"), optPartF f.ok (chars! "ok"), optPartF f.err (chars! "err"),
        w (chars! "    }"), nl]
    else match f.ok with
      | some ok => eqInlineF ok.ty 4
      | none => seqF [w (chars! ";"), nl],
    setNewline (fnMulti f)]

def eventMulti (e : EventDef) : Bool :=
  !e.comment.isEmpty || !e.doc.isEmpty || (match e.ty with | some t => isMultiTypeOrInline t | none => false)

def eventF (e : EventDef) : F :=
  seqF [newlineItem .event (eventMulti e), prelude e.comment e.doc [] 4 false,
    w (chars! "    event "), w e.name, w (chars! " @ "), w e.id,
    match e.ty with
      | some t => eqInlineF t 4
      | none => seqF [w (chars! ";"), nl],
    setNewline (eventMulti e)]

def itemFallbackF (fb : Fallback) (kw : Str) : F :=
  let multi := !fb.comment.isEmpty || !fb.doc.isEmpty
  seqF [newlineWithFirst multi, prelude fb.comment fb.doc [] 4 false,
    w (chars! "    "), w kw, w (chars! " "), w fb.name, w (chars! " = fallback;"), nl, setNewline multi]

def isFn : ServiceItem → Bool
  | .fn _ => true
  | _ => false

def serviceItemF : ServiceItem → F
  | .fn f => fnDefF f
  | .event e => eventF e

/-- A fallback entry of the item block, after adjusting the blank-line flag. -/
def optFallbackF (fb : Option Fallback) (pre : F) (k : Str) : F :=
  match fb with
  | some f => seqF [pre, itemFallbackF f k]
  | none => id

def fallbackMulti (fb : Option Fallback) : Bool :=
  match fb with | some f => !f.comment.isEmpty || !f.doc.isEmpty | none => false

def itemsF (items : List ServiceItem) (fnFb evFb : Option Fallback) : F :=
  let hasFns := items.any isFn
  let hasEvs := evFb.isSome || items.any (fun i => !isFn i)
  seqF [fun st => { st with lastItem := none },
    forF items serviceItemF,
    optFallbackF fnFb (orNewline hasEvs) (chars! "fn"),
    optFallbackF evFb (orNewline (fallbackMulti fnFb || (fnFb.isNone && hasFns))) (chars! "event")]

def serviceF (d : ServiceDef) : F :=
  seqF [newlineDef .service true, prelude d.comment d.doc [] 0 false,
    w (chars! "service "), w d.name, w (chars! " {"), nl,
    prelude d.uuidComment [] [] 4 false, w (chars! "    uuid = "), w d.uuid, w (chars! ";"), nl,
    if !d.uuidComment.isEmpty || !d.versionComment.isEmpty then nl else id,
    prelude d.versionComment [] [] 4 false, w (chars! "    version = "), w d.version, w (chars! ";"), nl,
    setNewline true, itemsF d.items d.fnFallback d.evFallback, w (chars! "}"), nl, setNewline true]

/-! ### consts, newtypes, imports, the schema -/

def constF (d : ConstDef) : F :=
  let multi := !d.comment.isEmpty || !d.doc.isEmpty
  seqF [newlineDef .const multi, prelude d.comment d.doc [] 0 false,
    w (chars! "const "), w d.name, w (chars! " = "), w d.kind.text, w (chars! "("), w d.value, w (chars! ");"), nl, setNewline multi]

def newtypeF (d : NewtypeDef) : F :=
  let multi := !d.comment.isEmpty || !d.doc.isEmpty || !d.attrs.isEmpty
  seqF [newlineDef .newtype multi, prelude d.comment d.doc d.attrs 0 false,
    w (chars! "newtype "), w d.name, w (chars! " = "), w (typeText d.target), w (chars! ";"), nl, setNewline multi]

def definitionF : Definition → F
  | .struct d => structDefF d
  | .enum d => enumDefF d
  | .service d => serviceF d
  | .const d => constF d
  | .newtype d => newtypeF d

def importF (i : Import) : F :=
  let multi := !i.comment.isEmpty
  seqF [newlineWithFirst multi, prelude i.comment [] [] 0 false, w (chars! "import "), w i.name, w (chars! ";"), nl, setNewline multi]

/-- `sort_by_key` is a stable sort by the schema name. -/
def strLt (a b : Str) : Bool := a.map Char.toNat < b.map Char.toNat

def insertImport (i : Import) : List Import → List Import
  | [] => [i]
  | j :: r => if strLt j.name i.name then j :: insertImport i r else i :: j :: r

/-- Stable insertion sort: elements are inserted from the right and go in front of equal keys. -/
def sortImports (l : List Import) : List Import := l.foldr insertImport []

def importsF (is : List Import) : F :=
  let sorted := sortImports is
  seqF [forF sorted importF, orNewline (!sorted.isEmpty)]

def schemaF (s : Schema) : F :=
  seqF [if !s.comment.isEmpty then seqF [setNewline true, commentLines s.comment 0] else id,
    if !s.doc.isEmpty then seqF [newlineF, docLines s.doc 0 (chars! "//!"), setNewline true] else id,
    importsF s.imports, forF s.defs definitionF]

def format (s : Schema) : Str := (schemaF s {}).out

end Aldrin.Schema
