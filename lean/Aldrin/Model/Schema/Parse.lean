/-
M10 — the schema parser: `parser/grammar.pest` read as the PEG that pest executes, rule by rule, together with
the AST construction of `parser/src/ast/*.rs` and `schema.rs`.

pest semantics that matter here:
* ordered choice commits to the first alternative that succeeds; `e?` and `e*` are greedy and never give back;
* in a normal rule (`{ … }`) optional whitespace (`WHITESPACE*`; there is no implicit `COMMENT`) is skipped
  between the elements of a sequence and between the repetitions of `e*`, nowhere else;
* atomic rules (`@{ … }`) match their text literally;
* `&ws` is a look-ahead for white space, a comment or the end of input.

A parser is a function from the remaining input to `Option (result × rest)`. Recursion through nested types and
repetition is bounded by an explicit fuel, which `parseSchema` sets to more than the input length.

Only ASCII identifiers are modelled (`XID_START` / `XID_CONTINUE` restricted to ASCII); `WHITE_SPACE` is the
full Unicode property (25 code points).
-/
import Aldrin.Model.Schema.Ast

namespace Aldrin.Schema

abbrev P (α : Type) := Str → Option (α × Str)

/-- Unicode `White_Space`. -/
def isWhiteSpace (c : Char) : Bool :=
  let n := c.toNat
  (9 ≤ n && n ≤ 13) || n == 32 || n == 0x85 || n == 0xA0 || n == 0x1680 || (0x2000 ≤ n && n ≤ 0x200A) ||
  n == 0x2028 || n == 0x2029 || n == 0x202F || n == 0x205F || n == 0x3000

def skipWs (cs : Str) : Str := cs.dropWhile isWhiteSpace

/-- Match a literal prefix. -/
def lit (s : Str) : P Unit := fun cs =>
  if s.isPrefixOf cs then some ((), cs.drop s.length) else none

def kw (s : Str) : P Unit := lit s

/-- `(!newline ~ ANY)* ~ (newline | EOI)`: the rest of the line including its end. -/
def lineTail : Str → Str × Str
  | [] => ([], [])
  | '\n' :: r => (['\n'], r)
  | '\r' :: '\n' :: r => (['\r', '\n'], r)
  | c :: r => let (a, b) := lineTail r; (c :: a, b)

/-- `comment = @{ !"///" ~ !"//!" ~ "//" ~ … }` -/
def commentP : P Line := fun cs =>
  if (chars! "///").isPrefixOf cs || (chars! "//!").isPrefixOf cs then none
  else if (chars! "//").isPrefixOf cs then let (a, b) := lineTail cs; some (a, b) else none

def docP : P Line := fun cs =>
  if (chars! "///").isPrefixOf cs then let (a, b) := lineTail cs; some (a, b) else none

def docInlineP : P Line := fun cs =>
  if (chars! "//!").isPrefixOf cs then let (a, b) := lineTail cs; some (a, b) else none

/-- `&ws` with `ws = _{ WHITESPACE | comment | EOI }`. -/
def atWs (cs : Str) : Bool :=
  match cs with
  | [] => true
  | c :: _ => isWhiteSpace c || (commentP cs).isSome

/-- Keywords that demand `&ws`. -/
def kwWs (s : Str) : P Unit := fun cs =>
  match kw s cs with
  | some ((), r) => if atWs r then some ((), r) else none
  | none => none

def isIdStart (c : Char) : Bool := c.isAlpha || c == '_'
def isIdCont (c : Char) : Bool := c.isAlphanum || c == '_'

def identP : P Str := fun cs =>
  match cs with
  | c :: r => if isIdStart c then some (c :: r.takeWhile isIdCont, r.dropWhile isIdCont) else none
  | [] => none

/-- `ASCII_DIGIT+` -/
def digitsP : P Str := fun cs =>
  let ds := cs.takeWhile Char.isDigit
  if ds.isEmpty then none else some (ds, cs.dropWhile Char.isDigit)

/-- `lit_int = @{ "-"? ~ ASCII_DIGIT+ }` -/
def litIntP : P Str := fun cs =>
  match cs with
  | '-' :: r => (digitsP r).map (fun (ds, rest) => ('-' :: ds, rest))
  | _ => digitsP cs

def isHex (c : Char) : Bool := c.isDigit || ('a' ≤ c && c ≤ 'f') || ('A' ≤ c && c ≤ 'F')

def hexN : Nat → P Str
  | 0, cs => some ([], cs)
  | n + 1, c :: r => if isHex c then (hexN n r).map (fun (a, b) => (c :: a, b)) else none
  | _ + 1, [] => none

def litUuidP : P Str := fun cs => do
  let (a, r) ← hexN 8 cs
  let ((), r) ← kw (chars! "-") r
  let (b, r) ← hexN 4 r
  let ((), r) ← kw (chars! "-") r
  let (c, r) ← hexN 4 r
  let ((), r) ← kw (chars! "-") r
  let (d, r) ← hexN 4 r
  let ((), r) ← kw (chars! "-") r
  let (e, r) ← hexN 12 r
  pure (a ++ ['-'] ++ b ++ ['-'] ++ c ++ ['-'] ++ d ++ ['-'] ++ e, r)

/-- One `lit_string_char` (`"\\\\" | "\\\"" | (!("\"" | newline) ~ ANY)`) at the head of the input: how many characters it
takes (0 = none matches). -/
def strCharLen : Str → Nat
  | '\\' :: '\\' :: _ => 2
  | '\\' :: '"' :: _ => 2
  | '"' :: _ => 0
  | '\n' :: _ => 0
  | '\r' :: '\n' :: _ => 0
  | _ :: _ => 1
  | [] => 0

/-- `lit_string_char* ~ "\""` after the opening quote. -/
def litStringTail : Nat → Str → Option (Str × Str)
  | 0, _ => none
  | fuel + 1, cs =>
    match strCharLen cs with
    | 0 => match cs with
      | '"' :: r => some (['"'], r)
      | _ => none
    | n + 1 => (litStringTail fuel (cs.drop (n + 1))).map (fun (a, b) => (cs.take (n + 1) ++ a, b))

def litStringP : P Str := fun cs =>
  match cs with
  | '"' :: r => (litStringTail (r.length + 1) r).map (fun (a, b) => ('"' :: a, b))
  | _ => none

/-- A token of a normal rule: optional whitespace first. -/
def tok (s : Str) : P Unit := fun cs => kw s (skipWs cs)

/-! ### references and types -/

/-- `named_ref = { external_ref | ident }` -/
def namedRefP : P NamedRef := fun cs =>
  match identP cs with
  | none => none
  | some (a, r) =>
    match tok (chars! "::") r with
    | some ((), r2) =>
      match identP (skipWs r2) with
      | some (b, r3) => some (.extern a b, r3)
      | none => some (.intern a, r)
    | none => some (.intern a, r)

def arrayLenP : P ArrayLen := fun cs =>
  match litIntP cs with
  | some (v, r) => some (.lit v, r)
  | none => (namedRefP cs).map (fun (n, r) => (.ref n, r))

/-- Parameterless keywords of `type_name` in grammar order, up to `value`. -/
def primsA : List Prim := [.bool, .u8, .i8, .u16, .i16, .u32, .i32, .u64, .i64, .f32, .f64, .string, .uuid,
  .objectId, .serviceId, .value]

def Prim.kwText : Prim → Str
  | .bool => chars! "bool" | .u8 => chars! "u8" | .i8 => chars! "i8" | .u16 => chars! "u16" | .i16 => chars! "i16" | .u32 => chars! "u32" | .i32 => chars! "i32"
  | .u64 => chars! "u64" | .i64 => chars! "i64" | .f32 => chars! "f32" | .f64 => chars! "f64" | .string => chars! "string" | .uuid => chars! "uuid"
  | .objectId => chars! "object_id" | .serviceId => chars! "service_id" | .value => chars! "value" | .bytes => chars! "bytes"
  | .lifetime => chars! "lifetime" | .unit => chars! "unit"

def firstPrim : List Prim → P Prim
  | [], _ => none
  | p :: ps, cs =>
    match kw p.kwText cs with
    | some ((), r) => some (p, r)
    | none => firstPrim ps cs

/-- `kw ~ "<" ~ type_name ~ ">"` -/
def generic1P (rec : P TypeName) (k : Str) (mk : TypeName → TypeName) : P TypeName := fun cs =>
  match kw k cs with
  | none => none
  | some ((), r) =>
    match tok (chars! "<") r with
    | none => none
    | some ((), r) =>
      match rec (skipWs r) with
      | none => none
      | some (t, r) =>
        match tok (chars! ">") r with
        | none => none
        | some ((), r) => some (mk t, r)

/-- `kw ~ "<" ~ type_name ~ sep ~ type_name ~ ">"` -/
def generic2P (rec : P TypeName) (k sep : Str) (mk : TypeName → TypeName → TypeName) : P TypeName := fun cs =>
  match kw k cs with
  | none => none
  | some ((), r) =>
    match tok (chars! "<") r with
    | none => none
    | some ((), r) =>
      match rec (skipWs r) with
      | none => none
      | some (a, r) =>
        match tok sep r with
        | none => none
        | some ((), r) =>
          match rec (skipWs r) with
          | none => none
          | some (b, r) =>
            match tok (chars! ">") r with
            | none => none
            | some ((), r) => some (mk a b, r)

/-- `array_type = { "[" ~ type_name ~ ";" ~ array_len ~ "]" }` -/
def arrayP (rec : P TypeName) : P TypeName := fun cs =>
  match kw (chars! "[") cs with
  | none => none
  | some ((), r) =>
    match rec (skipWs r) with
    | none => none
    | some (t, r) =>
      match tok (chars! ";") r with
      | none => none
      | some ((), r) =>
        match arrayLenP (skipWs r) with
        | none => none
        | some (l, r) =>
          match tok (chars! "]") r with
          | none => none
          | some ((), r) => some (.array t l, r)

def primKwP (p : Prim) : P TypeName := fun cs => (kw p.kwText cs).map (fun ((), r) => (.prim p, r))

/-- `type_name`, alternatives in the order of the grammar. -/
def typeNameP : Nat → P TypeName
  | 0, _ => none
  | fuel + 1, cs =>
    ((firstPrim primsA cs).map (fun (p, r) => (TypeName.prim p, r)))
    <|> generic1P (typeNameP fuel) (chars! "option") .option cs
    <|> generic1P (typeNameP fuel) (chars! "box") .box cs
    <|> generic1P (typeNameP fuel) (chars! "vec") .vec cs
    <|> primKwP .bytes cs
    <|> generic2P (typeNameP fuel) (chars! "map") (chars! "->") .map cs
    <|> generic1P (typeNameP fuel) (chars! "set") .set cs
    <|> generic1P (typeNameP fuel) (chars! "sender") .sender cs
    <|> generic1P (typeNameP fuel) (chars! "receiver") .receiver cs
    <|> primKwP .lifetime cs
    <|> primKwP .unit cs
    <|> generic2P (typeNameP fuel) (chars! "result") (chars! ",") .result cs
    <|> arrayP (typeNameP fuel) cs
    <|> (namedRefP cs).map (fun (n, r) => (TypeName.ref n, r))

/-! ### repetition with implicit whitespace -/

/-- `(skip ~ e)*`: further repetitions; white space is only consumed together with a match. -/
def manyTail {α : Type} (p : P α) : Nat → Str → List α × Str
  | 0, r => ([], r)
  | f + 1, r =>
    match p (skipWs r) with
    | none => ([], r)
    | some (a, r') => ((manyTail p f r').1.cons a, (manyTail p f r').2)

/-- `e*` in a normal rule: `e ~ (skip ~ e)*`, giving nothing back. -/
def many {α : Type} (p : P α) : Nat → Str → List α × Str
  | 0, cs => ([], cs)
  | fuel + 1, cs =>
    match p cs with
    | none => ([], cs)
    | some (a, r) => ((manyTail p fuel r).1.cons a, (manyTail p fuel r).2)

/-! ### preludes -/

inductive PreItem where
  | comment (l : Line)
  | doc (l : Line)
  | attr (a : Attribute)
  deriving Inhabited

/-- `tok_comma ~ ident` -/
def commaIdentP : P Str := fun cs =>
  match kw (chars! ",") cs with
  | none => none
  | some ((), r) => identP (skipWs r)

/-- `tok_par_open ~ ident ~ (tok_comma ~ ident)* ~ tok_comma? ~ tok_par_close` -/
def attrOptionsInnerP (fuel : Nat) : P (List Str) := fun cs =>
  match tok (chars! "(") cs with
  | none => none
  | some ((), r) =>
    match identP (skipWs r) with
    | none => none
    | some (a, r) =>
      let m := many commaIdentP fuel (skipWs r)
      let r := match tok (chars! ",") m.2 with | some ((), r) => r | none => m.2
      match tok (chars! ")") r with
      | none => none
      | some ((), r) => some (a :: m.1, r)

/-- `(tok_par_open ~ ident ~ (tok_comma ~ ident)* ~ tok_comma? ~ tok_par_close)?` -/
def attrOptionsP (fuel : Nat) : P (List Str) := fun cs =>
  match attrOptionsInnerP fuel cs with
  | some x => some x
  | none => some ([], cs)

/-- `attribute` (`inline = false`) and `attribute_inline` (`inline = true`). -/
def attributeP (inline : Bool) (fuel : Nat) : P Attribute := fun cs => do
  let ((), r) ← kw (chars! "#") cs
  let r ← if inline then (tok (chars! "!") r).map (·.2) else some r
  let ((), r) ← tok (chars! "[") r
  let (name, r) ← identP (skipWs r)
  let (opts, r) ← attrOptionsP fuel r
  let ((), r) ← tok (chars! "]") r
  pure ({ name := name, options := opts }, r)

def preItemP (comments docs attrs : Bool) (fuel : Nat) : P PreItem := fun cs =>
  match (if comments then commentP cs else none) with
  | some (l, r) => some (.comment l, r)
  | none =>
    match (if docs then docP cs else none) with
    | some (l, r) => some (.doc l, r)
    | none => if attrs then (attributeP false fuel cs).map (fun (a, r) => (.attr a, r)) else none

def preComments (l : List PreItem) : List Line := l.filterMap (fun | .comment c => some c | _ => none)
def preDocs (l : List PreItem) : List Line := l.filterMap (fun | .doc c => some c | _ => none)
def preAttrs (l : List PreItem) : List Attribute := l.filterMap (fun | .attr c => some c | _ => none)

/-- `(comment | doc_string | attribute)*` followed by the implicit whitespace before the next element. -/
def preludeP (comments docs attrs : Bool) (fuel : Nat) (cs : Str) : List PreItem × Str :=
  ((many (preItemP comments docs attrs fuel) fuel cs).1, skipWs (many (preItemP comments docs attrs fuel) fuel cs).2)

def inlinePreItemP (fuel : Nat) : P PreItem := fun cs =>
  match docInlineP cs with
  | some (l, r) => some (.doc l, r)
  | none => (attributeP true fuel cs).map (fun (a, r) => (.attr a, r))

/-! ### structs and enums -/

/-- `(kw_required ~ &ident)?`: the keyword only when an identifier follows. -/
def requiredP (r : Str) : Bool × Str :=
  match kwWs (chars! "required") r with
  | some ((), r') => if (identP (skipWs r')).isSome then (true, skipWs r') else (false, r)
  | none => (false, r)

/-- `ident ~ tok_at ~ lit_int` -/
def nameIdP : P (Str × Str) := fun r =>
  match identP r with
  | none => none
  | some (name, r) =>
    match tok (chars! "@") r with
    | none => none
    | some ((), r) =>
      match litIntP (skipWs r) with
      | none => none
      | some (id, r) => some ((name, id), r)

/-- `tok_eq ~ type_name` -/
def eqTypeP (fuel : Nat) : P TypeName := fun r =>
  match tok (chars! "=") r with
  | none => none
  | some ((), r) => typeNameP fuel (skipWs r)

/-- `struct_field` -/
def structFieldP (fuel : Nat) : P StructField := fun cs =>
  let pre := preludeP true true false fuel cs
  let rq := requiredP pre.2
  match nameIdP rq.2 with
  | none => none
  | some ((name, id), r) =>
    match eqTypeP fuel r with
    | none => none
    | some (ty, r) =>
      match tok (chars! ";") r with
      | none => none
      | some ((), r) =>
        some ({ comment := preComments pre.1, doc := preDocs pre.1, required := rq.1, name := name, id := id, ty := ty }, r)

/-- `ident ~ tok_eq ~ kw_fallback ~ tok_term` -/
def fallbackTailP : P Str := fun r =>
  match identP r with
  | none => none
  | some (name, r) =>
    match tok (chars! "=") r with
    | none => none
    | some ((), r) =>
      match tok (chars! "fallback") r with
      | none => none
      | some ((), r) =>
        match tok (chars! ";") r with
        | none => none
        | some ((), r) => some (name, r)

/-- `struct_fallback`, `enum_fallback`: `(comment | doc_string)* ~ ident ~ tok_eq ~ kw_fallback ~ tok_term` -/
def fallbackP (fuel : Nat) : P Fallback := fun cs =>
  let pre := preludeP true true false fuel cs
  match fallbackTailP pre.2 with
  | none => none
  | some (name, r) => some ({ comment := preComments pre.1, doc := preDocs pre.1, name := name }, r)

def enumVariantP (fuel : Nat) : P EnumVariant := fun cs =>
  let pre := preludeP true true false fuel cs
  match nameIdP pre.2 with
  | none => none
  | some ((name, id), r) =>
    -- `(tok_eq ~ type_name)?`
    let ty : Option TypeName × Str := match eqTypeP fuel r with
      | some (t, r') => (some t, r')
      | none => (none, r)
    match tok (chars! ";") ty.2 with
    | none => none
    | some ((), r) =>
      some ({ comment := preComments pre.1, doc := preDocs pre.1, name := name, id := id, ty := ty.1 }, r)

/-- `e* ~ f? ~ tok_cur_close` for the body of a struct or enum, starting after `{` and its whitespace. -/
def bodyP {α : Type} (item : Nat → P α) (fuel : Nat) : P (List α × Option Fallback) := fun cs =>
  let m := many (item fuel) fuel cs
  let fb : Option Fallback × Str := match fallbackP fuel (skipWs m.2) with
    | some (f, r) => (some f, r)
    | none => (none, skipWs m.2)
  match tok (chars! "}") fb.2 with
  | none => none
  | some ((), r) => some ((m.1, fb.1), r)

/-- `kw ~ ident` for the keywords that demand `&ws`. -/
def headerP (k : Str) : P Str := fun cs =>
  match kwWs k cs with
  | none => none
  | some ((), r) => identP (skipWs r)

/-- `kw_struct ~ tok_cur_open ~ (doc_string_inline | attribute_inline)*` and the white space before the body. -/
def inlineOpenP (k : Str) (fuel : Nat) : P (List PreItem) := fun cs =>
  match kwWs k cs with
  | none => none
  | some ((), r) =>
    match tok (chars! "{") r with
    | none => none
    | some ((), r) =>
      some ((many (inlinePreItemP fuel) fuel (skipWs r)).1, skipWs (many (inlinePreItemP fuel) fuel (skipWs r)).2)

def inlineStructP (fuel : Nat) : P InlineStruct := fun cs =>
  match inlineOpenP (chars! "struct") fuel cs with
  | none => none
  | some (pre, r) =>
    match bodyP structFieldP fuel r with
    | none => none
    | some ((fields, fb), r) => some ({ doc := preDocs pre, attrs := preAttrs pre, fields := fields, fallback := fb }, r)

def inlineEnumP (fuel : Nat) : P InlineEnum := fun cs =>
  match inlineOpenP (chars! "enum") fuel cs with
  | none => none
  | some (pre, r) =>
    match bodyP enumVariantP fuel r with
    | none => none
    | some ((vars, fb), r) => some ({ doc := preDocs pre, attrs := preAttrs pre, variants := vars, fallback := fb }, r)

/-- `type_name ~ tok_term` -/
def typeTermP (fuel : Nat) : P TypeName := fun cs =>
  match typeNameP fuel cs with
  | none => none
  | some (t, r) =>
    match tok (chars! ";") r with
    | none => none
    | some ((), r) => some (t, r)

/-- `type_name_or_inline = { (type_name ~ tok_term) | struct_inline | enum_inline }` -/
def typeOrInlineP (fuel : Nat) : P TypeOrInline := fun cs =>
  match typeTermP fuel cs with
  | some (t, r) => some (.ty t, r)
  | none =>
    match inlineStructP fuel cs with
    | some (s, r) => some (.struct s, r)
    | none => (inlineEnumP fuel cs).map (fun (e, r) => (.enum e, r))

/-- `kw ~ ident ~ tok_cur_open` and the white space before the body. -/
def defOpenP (k : Str) : P Str := fun cs =>
  match headerP k cs with
  | none => none
  | some (name, r) =>
    match tok (chars! "{") r with
    | none => none
    | some ((), r) => some (name, skipWs r)

def structDefP (fuel : Nat) : P StructDef := fun cs =>
  let pre := preludeP true true true fuel cs
  match defOpenP (chars! "struct") pre.2 with
  | none => none
  | some (name, r) =>
    match bodyP structFieldP fuel r with
    | none => none
    | some ((fields, fb), r) =>
      some ({ comment := preComments pre.1, doc := preDocs pre.1, attrs := preAttrs pre.1, name := name, fields := fields,
              fallback := fb }, r)

def enumDefP (fuel : Nat) : P EnumDef := fun cs =>
  let pre := preludeP true true true fuel cs
  match defOpenP (chars! "enum") pre.2 with
  | none => none
  | some (name, r) =>
    match bodyP enumVariantP fuel r with
    | none => none
    | some ((vars, fb), r) =>
      some ({ comment := preComments pre.1, doc := preDocs pre.1, attrs := preAttrs pre.1, name := name, variants := vars,
              fallback := fb }, r)

/-! ### services -/

/-- `kw ~ tok_eq ~ type_name_or_inline` (the keywords `args`, `ok`, `err` have no `&ws`). -/
def kwEqInlineP (k : Str) (fuel : Nat) : P TypeOrInline := fun r =>
  match kw k r with
  | none => none
  | some ((), r) =>
    match tok (chars! "=") r with
    | none => none
    | some ((), r) => typeOrInlineP fuel (skipWs r)

/-- `fn_args`, `fn_ok`, `fn_err`: `comment* ~ kw ~ tok_eq ~ type_name_or_inline` -/
def fnPartP (k : Str) (fuel : Nat) : P FnPart := fun cs =>
  let pre := preludeP true false false fuel cs
  match kwEqInlineP k fuel pre.2 with
  | none => none
  | some (t, r) => some ({ comment := preComments pre.1, ty := t }, r)

def optP {α : Type} (p : P α) (cs : Str) : Option α × Str :=
  match p cs with
  | some (a, r) => (some a, r)
  | none => (none, cs)

/-- `fn_body_full = _{ tok_cur_open ~ fn_args? ~ fn_ok? ~ fn_err? ~ tok_cur_close }` -/
def fnBodyFullP (fuel : Nat) : P (Option FnPart × Option FnPart × Option FnPart) := fun r =>
  match kw (chars! "{") r with
  | none => none
  | some ((), r) =>
    let a := optP (fnPartP (chars! "args") fuel) (skipWs r)
    let o := optP (fnPartP (chars! "ok") fuel) (skipWs a.2)
    let e := optP (fnPartP (chars! "err") fuel) (skipWs o.2)
    match tok (chars! "}") e.2 with
    | none => none
    | some ((), r) => some ((a.1, o.1, e.1), r)

/-- `tok_eq ~ type_name_or_inline` -/
def eqInlineP (fuel : Nat) : P TypeOrInline := fun r =>
  match kw (chars! "=") r with
  | none => none
  | some ((), r) => typeOrInlineP fuel (skipWs r)

/-- `fn_body = _{ fn_body_full | fn_body_ok | tok_term }` -/
def fnBodyP (fuel : Nat) : P (Option FnPart × Option FnPart × Option FnPart) := fun r =>
  match fnBodyFullP fuel r with
  | some x => some x
  | none =>
    match eqInlineP fuel r with
    | some (t, r) => some ((none, some { comment := [], ty := t }, none), r)
    | none => (kw (chars! ";") r).map (fun ((), r) => ((none, none, none), r))

/-- `kw ~ ident ~ tok_at ~ lit_int` and the white space after it. -/
def itemHeadP (k : Str) : P (Str × Str) := fun cs =>
  match kwWs k cs with
  | none => none
  | some ((), r) =>
    match nameIdP (skipWs r) with
    | none => none
    | some (x, r) => some (x, skipWs r)

/-- `fn_def` -/
def fnDefP (fuel : Nat) : P FnDef := fun cs =>
  let pre := preludeP true true false fuel cs
  match itemHeadP (chars! "fn") pre.2 with
  | none => none
  | some ((name, id), r) =>
    match fnBodyP fuel r with
    | none => none
    | some ((a, o, e), r) =>
      some ({ comment := preComments pre.1, doc := preDocs pre.1, name := name, id := id, args := a, ok := o, err := e }, r)

/-- `(tok_eq ~ type_name_or_inline) | tok_term` -/
def eventBodyP (fuel : Nat) : P (Option TypeOrInline) := fun r =>
  match eqInlineP fuel r with
  | some (t, r) => some (some t, r)
  | none => (kw (chars! ";") r).map (fun ((), r) => (none, r))

/-- `event_def` -/
def eventDefP (fuel : Nat) : P EventDef := fun cs =>
  let pre := preludeP true true false fuel cs
  match itemHeadP (chars! "event") pre.2 with
  | none => none
  | some ((name, id), r) =>
    match eventBodyP fuel r with
    | none => none
    | some (ty, r) =>
      some ({ comment := preComments pre.1, doc := preDocs pre.1, name := name, id := id, ty := ty }, r)

def serviceItemP (fuel : Nat) : P ServiceItem := fun cs =>
  match fnDefP fuel cs with
  | some (f, r) => some (.fn f, r)
  | none => (eventDefP fuel cs).map (fun (e, r) => (.event e, r))

/-- `fn_fallback`, `event_fallback` -/
def itemFallbackP (k : Str) (fuel : Nat) : P Fallback := fun cs =>
  let pre := preludeP true true false fuel cs
  match kwWs k pre.2 with
  | none => none
  | some ((), r) =>
    match fallbackTailP (skipWs r) with
    | none => none
    | some (name, r) => some ({ comment := preComments pre.1, doc := preDocs pre.1, name := name }, r)

/-- `service_fallback = { (fn_fallback ~ event_fallback?) | (event_fallback ~ fn_fallback?) }` -/
def serviceFallbackP (fuel : Nat) : P (Option Fallback × Option Fallback) := fun cs =>
  match itemFallbackP (chars! "fn") fuel cs with
  | some (f, r) =>
    some ((some f, (optP (itemFallbackP (chars! "event") fuel) (skipWs r)).1),
      (optP (itemFallbackP (chars! "event") fuel) (skipWs r)).2)
  | none =>
    match itemFallbackP (chars! "event") fuel cs with
    | some (e, r) =>
      some (((optP (itemFallbackP (chars! "fn") fuel) (skipWs r)).1, some e),
        (optP (itemFallbackP (chars! "fn") fuel) (skipWs r)).2)
    | none => none

/-- `comment* ~ kw ~ tok_eq ~ lit ~ tok_term` for the `uuid` and `version` lines. -/
def kwEqLitP (k : Str) (lit : P Str) (fuel : Nat) : P (List Line × Str) := fun cs =>
  let pre := preludeP true false false fuel cs
  match kw k pre.2 with
  | none => none
  | some ((), r) =>
    match tok (chars! "=") r with
    | none => none
    | some ((), r) =>
      match lit (skipWs r) with
      | none => none
      | some (v, r) =>
        match tok (chars! ";") r with
        | none => none
        | some ((), r) => some ((preComments pre.1, v), skipWs r)

/-- `service_fallback?` -/
def serviceFallbackOptP (fuel : Nat) (cs : Str) : (Option Fallback × Option Fallback) × Str :=
  match serviceFallbackP fuel cs with
  | some (x, r) => (x, r)
  | none => ((none, none), cs)

/-- `service_item* ~ service_fallback? ~ tok_cur_close` -/
def serviceBodyP (fuel : Nat) : P (List ServiceItem × Option Fallback × Option Fallback) := fun cs =>
  let m := many (serviceItemP fuel) fuel cs
  let fb := serviceFallbackOptP fuel (skipWs m.2)
  match tok (chars! "}") fb.2 with
  | none => none
  | some ((), r) => some ((m.1, fb.1.1, fb.1.2), r)

def serviceDefP (fuel : Nat) : P ServiceDef := fun cs =>
  let pre := preludeP true true false fuel cs
  match defOpenP (chars! "service") pre.2 with
  | none => none
  | some (name, r) =>
    match kwEqLitP (chars! "uuid") litUuidP fuel r with
    | none => none
    | some ((uc, uuid), r) =>
      match kwEqLitP (chars! "version") litIntP fuel r with
      | none => none
      | some ((vc, ver), r) =>
        match serviceBodyP fuel r with
        | none => none
        | some ((items, ff, ef), r) =>
          some ({ comment := preComments pre.1, doc := preDocs pre.1, name := name, uuidComment := uc, uuid := uuid,
                  versionComment := vc, version := ver, items := items, fnFallback := ff, evFallback := ef }, r)

/-! ### consts, newtypes, imports, the file -/

def constKinds : List Prim := [.u8, .i8, .u16, .i16, .u32, .i32, .u64, .i64]

/-- `tok_par_open ~ lit ~ tok_par_close` for one kind of literal. -/
def parenP (lit : P Str) : P Str := fun r =>
  match tok (chars! "(") r with
  | none => none
  | some ((), r) =>
    match lit (skipWs r) with
    | none => none
    | some (v, r) =>
      match tok (chars! ")") r with
      | none => none
      | some ((), r) => some (v, r)

/-- `const_int = _{ const_int_kw ~ tok_par_open ~ lit_int ~ tok_par_close }` -/
def constIntP : P (Prim × Str) := fun r =>
  match firstPrim constKinds r with
  | none => none
  | some (k, r) =>
    match parenP litIntP r with
    | none => none
    | some (v, r) => some ((k, v), r)

/-- `const_string`, `const_uuid`: `kw ~ tok_par_open ~ lit ~ tok_par_close` -/
def constKwP (k : Str) (p : Prim) (lit : P Str) : P (Prim × Str) := fun r =>
  match kw k r with
  | none => none
  | some ((), r) =>
    match parenP lit r with
    | none => none
    | some (v, r) => some ((p, v), r)

/-- `const_value = { const_int | const_string | const_uuid }` -/
def constValueP : P (Prim × Str) := fun r =>
  match constIntP r with
  | some x => some x
  | none =>
    match constKwP (chars! "string") .string litStringP r with
    | some x => some x
    | none => constKwP (chars! "uuid") .uuid litUuidP r

/-- `kw ~ ident ~ tok_eq` and the white space after it. -/
def nameEqP (k : Str) : P Str := fun cs =>
  match headerP k cs with
  | none => none
  | some (name, r) =>
    match tok (chars! "=") r with
    | none => none
    | some ((), r) => some (name, skipWs r)

/-- `const_def` -/
def constDefP (fuel : Nat) : P ConstDef := fun cs =>
  let pre := preludeP true true false fuel cs
  match nameEqP (chars! "const") pre.2 with
  | none => none
  | some (name, r) =>
    match constValueP r with
    | none => none
    | some ((k, v), r) =>
      match tok (chars! ";") r with
      | none => none
      | some ((), r) => some ({ comment := preComments pre.1, doc := preDocs pre.1, name := name, kind := k, value := v }, r)

def newtypeDefP (fuel : Nat) : P NewtypeDef := fun cs =>
  let pre := preludeP true true true fuel cs
  match nameEqP (chars! "newtype") pre.2 with
  | none => none
  | some (name, r) =>
    match typeTermP fuel r with
    | none => none
    | some (t, r) =>
      some ({ comment := preComments pre.1, doc := preDocs pre.1, attrs := preAttrs pre.1, name := name, target := t }, r)

/-- `def = { struct_def | enum_def | service_def | const_def | newtype_def }` -/
def defP (fuel : Nat) : P Definition := fun cs =>
  match structDefP fuel cs with
  | some (d, r) => some (.struct d, r)
  | none =>
  match enumDefP fuel cs with
  | some (d, r) => some (.enum d, r)
  | none =>
  match serviceDefP fuel cs with
  | some (d, r) => some (.service d, r)
  | none =>
  match constDefP fuel cs with
  | some (d, r) => some (.const d, r)
  | none => (newtypeDefP fuel cs).map (fun (d, r) => (.newtype d, r))

/-- `import_stmt = { comment* ~ kw_import ~ ident ~ tok_term }` -/
def importP (fuel : Nat) : P Import := fun cs =>
  let pre := preludeP true false false fuel cs
  match headerP (chars! "import") pre.2 with
  | none => none
  | some (name, r) =>
    match tok (chars! ";") r with
    | none => none
    | some ((), r) => some ({ comment := preComments pre.1, name := name }, r)

/-- One group of the file prelude: `comment* ~ doc_string_inline`. -/
def fileGroupP (fuel : Nat) : P (List Line × Line) := fun cs =>
  match docInlineP (skipWs (many commentP fuel cs).2) with
  | none => none
  | some (d, r) => some (((many commentP fuel cs).1, d), r)

/-- `file = _{ SOI ~ (comment* ~ doc_string_inline)* ~ import_stmt* ~ def* ~ EOI }` -/
def fileP (fuel : Nat) (cs : Str) : Option Schema :=
  let groups := many (fileGroupP fuel) fuel (skipWs cs)
  let imports := many (importP fuel) fuel (skipWs groups.2)
  let defs := many (defP fuel) fuel (skipWs imports.2)
  if (skipWs defs.2).isEmpty then
    some { comment := (groups.1.map (·.1)).flatten, doc := groups.1.map (·.2), imports := imports.1, defs := defs.1 }
  else none

def parseSchema (cs : Str) : Option Schema := fileP (cs.length + 2) cs

end Aldrin.Schema
