/-
M3 — protocol messages and frames (`core/src/message.rs`, `message/serializer.rs`,
`message/deserializer.rs`, `message/*.rs`).

The layout of every message kind is *generated* from the Rust source (`Generated/Msg.lean`): a
decision tree from each `deserialize_message` body and the set of paths of each
`serialize_message` body. This file is the generic interpreter for those layouts plus the frame
header logic of `MessageSerializer` / `MessageWith(out)ValueDeserializer` and the kind dispatch of
`Message::deserialize_message`.

A message is represented generically as its kind byte, the list of wire fields after the header in
wire order, and the carried value (if the path keeps one).
-/
import Aldrin.Model.Bytes
import Aldrin.Generated.Msg

namespace Aldrin
open Generated

/-- One wire field after the frame header. Discriminant bytes (of `match`ed tags and of enum-typed
struct fields alike) are `disc`. -/
inductive Fld where
  | u32 (n : Nat)
  | uuid (bs : Bytes)
  | disc (n : Nat)
  deriving DecidableEq, Repr, Inhabited

/-- Generic message: kind byte, fields in wire order, carried value. -/
structure Rec where
  kind : Nat
  flds : List Fld
  value : Option Bytes
  deriving DecidableEq, Repr, Inhabited

def encFld : Fld → Bytes
  | .u32 n => putVarint 4 n
  | .uuid bs => bs
  | .disc n => [UInt8.ofNat n]

def encFlds : List Fld → Bytes
  | [] => []
  | f :: fs => encFld f ++ encFlds fs

def lookupAlt (n : Nat) : List (Nat × L) → Option L
  | [] => none
  | (m, k) :: r => if m = n then some k else lookupAlt n r

mutual
/-- Run the decision tree of a `deserialize_message` body over the bytes after the header:
fields read, how the value slot is treated, and what is left for `finish()` to complain about. -/
def decTree : L → Bytes → Except DeErr (List Fld × VMode × Bytes)
  | .u32 k, bs => match getVarint 4 bs with
    | .error e => .error e
    | .ok (n, r) => match decTree k r with
      | .error e => .error e
      | .ok (fs, m, r') => .ok (.u32 n :: fs, m, r')
  | .uuid k, bs => match takeN 16 bs with
    | .error e => .error e
    | .ok (u, r) => match decTree k r with
      | .error e => .error e
      | .ok (fs, m, r') => .ok (.uuid u :: fs, m, r')
  | .enumv _ _, [] => .error .eoi
  | .enumv vals k, b :: r =>
    if vals.contains b.toNat then
      match decTree k r with
      | .error e => .error e
      | .ok (fs, m, r') => .ok (.disc b.toNat :: fs, m, r')
    else .error .invalid
  | .tag _, [] => .error .eoi
  | .tag alts, b :: r => match decAlts alts b.toNat r with
    | .error e => .error e
    | .ok (fs, m, r') => .ok (.disc b.toNat :: fs, m, r')
  | .fin m, bs => .ok ([], m, bs)

/-- `match deserializer.try_get_discriminant_u8()? { … }`: the first arm for the byte. -/
def decAlts : List (Nat × L) → Nat → Bytes → Except DeErr (List Fld × VMode × Bytes)
  | [], _, _ => .error .invalid
  | (m, k) :: rest, n, bs => if m = n then decTree k bs else decAlts rest n bs
end

mutual
/-- Which path of the tree a field list follows (the serializer's side of the same tree): the value
mode at its end, if the fields conform. -/
def modeOf : L → List Fld → Option VMode
  | .u32 k, .u32 n :: fs => if n < 256 ^ 4 then modeOf k fs else none
  | .uuid k, .uuid u :: fs => if u.length = 16 then modeOf k fs else none
  | .enumv vals k, .disc n :: fs => if vals.contains n && n < 256 then modeOf k fs else none
  | .tag alts, .disc n :: fs => if n < 256 then modeOfAlts alts n fs else none
  | .fin m, [] => some m
  | _, _ => none
def modeOfAlts : List (Nat × L) → Nat → List Fld → Option VMode
  | [], _, _ => none
  | (m, k) :: rest, n, fs => if m = n then modeOf k fs else modeOfAlts rest n fs
end

def u32le (n : Nat) : Bytes := leBytes 4 n

def lookupKind {α : Type} (k : Nat) : List (Nat × α) → Option α
  | [] => none
  | (m, a) :: r => if m = k then some a else lookupKind k r

/-- `MessageKind::has_value` as generated from `kind.rs`. -/
def hasValue (k : Nat) : Bool := (lookupKind k hasValueTable).getD false

inductive MsgSerErr where
  | invalidValue   -- MessageSerializeError::InvalidValue (empty value)
  | overflow       -- MessageSerializeError::Overflow
  | noLayout       -- not a message: unknown kind or fields that follow no path (cannot be built in Rust)
  deriving DecidableEq, Repr

/-- `serialize_message` + `MessageSerializer::{without_value, with_value, with_none_value, finish}`. -/
def encodeFrame (r : Rec) : Except MsgSerErr Bytes :=
  match lookupKind r.kind deTrees with
  | none => .error .noLayout
  | some t => match modeOf t r.flds with
    | none => .error .noLayout
    | some .none =>
      let len := 5 + (encFlds r.flds).length
      if len > 4294967295 then .error .overflow
      else .ok (u32le len ++ UInt8.ofNat r.kind :: encFlds r.flds)
    | some m =>
      let v := match m with
        | .keep => r.value.getD []
        | _ => [0]                           -- `SerializedValue::serialize(())`: a `None` value
      if v.length < 1 then .error .invalidValue
      else if v.length > 4294967295 then .error .overflow
      else
        let len := 9 + v.length + (encFlds r.flds).length
        if len > 4294967295 then .error .overflow
        else .ok (u32le len ++ UInt8.ofNat r.kind :: (u32le v.length ++ (v ++ encFlds r.flds)))

/-- `Message::deserialize_message`: length check, kind dispatch, header of
`MessageWith(out)ValueDeserializer::new`, the kind's field tree, `finish()`. -/
def decodeFrame (fr : Bytes) : Except DeErr Rec :=
  if fr.length < 5 then .error .eoi else
  let kind := (fr.getD 4 0).toNat
  match lookupKind kind deTrees, lookupKind kind deCtorHasValue with
  | some t, some false =>
    if ofLeBytes (fr.take 4) ≠ fr.length then .error .invalid else
    match decTree t (fr.drop 5) with
    | .error e => .error e
    | .ok (fs, _, rest) =>
      if rest.isEmpty then .ok { kind := kind, flds := fs, value := none } else .error .trailing
  | some t, some true =>
    if fr.length < 10 then .error .eoi
    else if ofLeBytes (fr.take 4) ≠ fr.length then .error .invalid
    else
      let vlen := ofLeBytes ((fr.drop 5).take 4)
      if vlen < 1 then .error .invalid
      else if vlen > fr.length - 9 then .error .eoi
      else
        let v := (fr.drop 9).take vlen
        match decTree t (fr.drop (9 + vlen)) with
        | .error e => .error e
        | .ok (fs, m, rest) =>
          if rest.isEmpty then
            .ok { kind := kind, flds := fs, value := if m = .keep then some v else none }
          else .error .trailing
  | _, _ => .error .invalid

end Aldrin
