/-
Model of `broker/src/conn_id.rs`: the allocator of connection ids (`Inner::acquire`, `Inner::release`) and the
discipline under which the broker uses it (`ConnectionId` is an `Arc`; the id is released exactly once, when the
last clone is dropped, so only an id that is in use is ever released).
`usize` is modelled as `Nat`: `next += 1` would have to be executed 2^64 times to overflow.
-/
namespace Aldrin.ConnId

structure Ids where
  next : Nat := 0
  /-- `Vec<usize>` used as a stack; the top (the end of the `Vec`) is the head of the list -/
  free : List Nat := []
  deriving Repr, DecidableEq, Inhabited

/-- the two `debug_assert!`s of `Inner::release` -/
inductive Panic where
  | notBelowNext
  | alreadyFree
  deriving Repr, DecidableEq, Inhabited

def Ids.acquire (s : Ids) : Nat × Ids :=
  match s.free with
  | id :: r => (id, { s with free := r })
  | [] => (s.next, { s with next := s.next + 1 })

def Ids.release (s : Ids) (id : Nat) : Except Panic Ids :=
  if ¬ id < s.next then .error .notBelowNext
  else if s.free.contains id then .error .alreadyFree
  else if id + 1 = s.next then .ok { s with next := s.next - 1 }
  else .ok { s with free := id :: s.free }

/-- the allocator together with the ids that are in use (each held by one `Arc<ConnectionIdInner>`) -/
structure Sys where
  ids : Ids := {}
  held : List Nat := []
  deriving Repr, DecidableEq, Inhabited

inductive Op where
  | acquire
  /-- the last clone of the `ConnectionId` with this number is dropped; nothing happens if no such id is in use,
  because then there is no `ConnectionIdInner` whose `Drop` could run -/
  | release (id : Nat)
  deriving Repr, DecidableEq, Inhabited

def Sys.step (s : Sys) : Op → Except Panic Sys
  | .acquire =>
    let (id, ids) := s.ids.acquire
    .ok { ids := ids, held := id :: s.held }
  | .release id =>
    if id ∈ s.held then
      match s.ids.release id with
      | .ok ids => .ok { ids := ids, held := s.held.erase id }
      | .error e => .error e
    else .ok s

def Sys.run (s : Sys) : List Op → Except Panic Sys
  | [] => .ok s
  | op :: ops =>
    match s.step op with
    | .ok s' => s'.run ops
    | .error e => .error e

end Aldrin.ConnId
