/-
M3 — `Packetizer` (`core/src/message/packetizer.rs`) and the stream transport built on it
(`core/src/tokio.rs`, `core/src/transport/buffered.rs`).

`BytesMut` is a byte list plus an abstract capacity; `reserve(n)` guarantees
`capacity ≥ len + n` and nothing else, which is all the code relies on.
The underlying I/O object of the transport is a *script*: the sequence of results its
`poll_read` / `poll_write` / `poll_flush` calls return.
-/
import Aldrin.Model.Msg
import Aldrin.Generated.Core

namespace Aldrin

structure Pk where
  buf : Bytes := []
  len : Option Nat := none
  cap : Nat := 0
  deriving Repr, Inhabited, DecidableEq

def minReserve : Nat := Generated.minReserveCapacity
def maxReserve : Nat := Generated.maxReserveCapacity

/-- `BytesMut::reserve`. -/
def Pk.reserve (p : Pk) (n : Nat) : Pk := { p with cap := max p.cap (p.buf.length + n) }

/-- `Packetizer::extend_from_slice`. -/
def Pk.extend (p : Pk) (bs : Bytes) : Pk :=
  { p with buf := p.buf ++ bs, cap := max p.cap (p.buf.length + bs.length) }

def clamp (x lo hi : Nat) : Nat := if x < lo then lo else if x > hi then hi else x

/-- `Packetizer::spare_capacity_mut`: the state after the reservations it makes; the slice it
returns has `cap - buf.length` bytes. The shape of the two conditions is generated from the source
(`Generated.spareSecondCheckIsElse`): in the original code the "buffer full" check is the `else` of
"a frame length is cached", in the repaired code it is a check of its own. -/
def Pk.spare (p : Pk) : Pk :=
  let p1 := match p.len with
    | some len => if p.cap < len then p.reserve (clamp (len - p.buf.length) minReserve maxReserve) else p
    | none => p
  if Generated.spareSecondCheckIsElse && p.len.isSome then p1
  else if p1.cap = p1.buf.length then p1.reserve minReserve else p1

def Pk.spareLen (p : Pk) : Nat := p.spare.cap - p.spare.buf.length

/-- `spare_capacity_mut` + `bytes_written(bs.length)` with the bytes the caller put there.
Callers must not write more than the slice holds. -/
def Pk.written (p : Pk) (bs : Bytes) : Pk :=
  let q := p.spare
  { q with buf := q.buf ++ bs }

/-- The frame length `next_message` works with: the cached one, else the 4-byte prefix. -/
def Pk.curLen (p : Pk) : Nat :=
  match p.len with
  | some len => len
  | none => ofLeBytes (p.buf.take 4)

/-- `Packetizer::next_message`. -/
def Pk.next (p : Pk) : Pk × Option Bytes :=
  if p.buf.length < 4 then (p, none) else
  let len := p.curLen
  let p := { p with len := some len }
  if p.buf.length ≥ len then
    ({ p with buf := p.buf.drop (max len 4), len := none, cap := p.cap - max len 4 },
      some ((p.buf.take (max len 4)).take len))
  else (p, none)

/-! ### Scripted use of the packetizer -/

inductive PkOp where
  | extend (n : Nat)      -- feed the next `n` bytes of the stream with `extend_from_slice`
  | fill (n : Nat)        -- feed the next `n` bytes with `spare_capacity_mut`/`bytes_written` (the caller's
                          -- obligation: `n` ≤ length of the slice it was handed)
  | drain                 -- one call of `next_message`
  deriving Repr, DecidableEq

structure PkRun where
  pk : Pk := {}
  unfed : Bytes
  out : List Bytes := []      -- frames emitted so far, oldest first
  emptySlice : Bool := false  -- `spare_capacity_mut` returned an empty slice at some point
  deriving Repr

def PkRun.step (r : PkRun) : PkOp → PkRun
  | .extend n => { r with pk := r.pk.extend (r.unfed.take n), unfed := r.unfed.drop n }
  | .fill n =>
    { r with pk := r.pk.written (r.unfed.take n), unfed := r.unfed.drop n,
             emptySlice := r.emptySlice || r.pk.spareLen == 0 }
  | .drain => match r.pk.next with
    | (pk, none) => { r with pk := pk }
    | (pk, some f) => { r with pk := pk, out := r.out ++ [f] }

def PkRun.run (r : PkRun) (ops : List PkOp) : PkRun := ops.foldl PkRun.step r

/-! ### Stream transport over a scripted I/O object -/

/-- One result of the scripted I/O object, interpreted by whichever poll function consumes it:
`ok n` = `poll_read` delivers up to `n` pending bytes (none deliverable = end of stream) /
`poll_write` accepts up to `n` bytes (`0` = zero-length write) / `poll_flush` succeeds;
`pending` = `Poll::Pending`; `fail` = an I/O error. -/
inductive IoStep where
  | ok (n : Nat)
  | pending
  | fail
  deriving Repr, DecidableEq

inductive TErr where
  | eof | writeZero | io | deserialize (e : DeErr) | script
  deriving Repr, DecidableEq

inductive Poll (α : Type) where
  | ready (a : α)
  | pending
  | err (e : TErr)
  deriving Repr

structure Tp where
  pk : Pk := {}
  wbuf : Bytes := []
  inp : Bytes := []         -- bytes the peer has sent and the I/O object has not yet delivered
  written : Bytes := []     -- everything the I/O object accepted so far (ghost)
  flushed : Nat := 0        -- number of successful poll_flush calls (ghost)
  deriving Repr

/-- `TokioTransport::send_start` with an already serialised frame. -/
def Tp.sendStart (t : Tp) (frame : Bytes) : Tp := { t with wbuf := t.wbuf ++ frame }

/-- `TokioTransport::send_poll_flush` against a script; returns the unconsumed script. -/
def Tp.flush : Tp → List IoStep → Tp × Poll Unit × List IoStep
  | t, [] => (t, .err .script, [])
  | t, step :: s =>
    if t.wbuf.isEmpty then
      match step with
      | .ok _ => ({ t with flushed := t.flushed + 1 }, .ready (), s)
      | .pending => (t, .pending, s)
      | .fail => (t, .err .io, s)
    else
      match step with
      | .ok n =>
        if n = 0 then (t, .err .writeZero, s)
        else
          Tp.flush { t with wbuf := t.wbuf.drop (min n t.wbuf.length),
                            written := t.written ++ t.wbuf.take (min n t.wbuf.length) } s
      | .pending => (t, .pending, s)
      | .fail => (t, .err .io, s)

def backpressureBoundary : Nat := Generated.backpressureBoundary

/-- `TokioTransport::send_poll_ready`. -/
def Tp.pollReady (t : Tp) (script : List IoStep) : Tp × Poll Unit × List IoStep :=
  if t.wbuf.length ≥ backpressureBoundary then t.flush script else (t, .ready (), script)

/-- `TokioTransport::receive_poll` against a script: the next frame (undecoded), or why not.
`ok n` = the I/O object delivers `n` of the pending input bytes (all of them if fewer are pending)
into the slice it was offered — which is never empty (`spare_nonempty`), so `n ≥ 1` is always possible. -/
def Tp.receive : Tp → List IoStep → Tp × Poll Bytes × List IoStep
  | t, [] =>
    match t.pk.next with
    | (pk, some f) => ({ t with pk := pk }, .ready f, [])
    | (pk, none) => ({ t with pk := pk }, .err .script, [])
  | t, step :: s =>
    match t.pk.next with
    | (pk, some f) => ({ t with pk := pk }, .ready f, step :: s)
    | (pk, none) =>
      match step with
      | .ok n =>
        if min n t.inp.length = 0 then ({ t with pk := pk }, .err .eof, s)
        else Tp.receive { t with pk := pk.written (t.inp.take (min n t.inp.length)),
                                 inp := t.inp.drop (min n t.inp.length) } s
      | .pending => ({ t with pk := pk }, .pending, s)
      | .fail => ({ t with pk := pk }, .err .io, s)

end Aldrin
