/-
M6 — the client's protocol core as seen at its transport (`aldrin/src/client.rs`).

`Client::run` is a sequential state machine: it takes one item at a time (a message from the broker, or a
request from a handle) and updates maps keyed by serials and cookies. Whether a message from the broker is
accepted depends only on those maps, and every change to them is tied to a message that crosses the transport:
an entry is inserted when the request carrying its serial is sent, removed when the reply arrives. The model
therefore follows the client through the messages it sends (`onSend`) and receives (`onRecv`) and needs no view
of the application side. `onRecv` mirrors `handle_message` and every `msg_*` function: `unexpected` is
`RunError::UnexpectedMessageReceived`, `panic` an `expect` / `assert!` / `unreachable!()` / `debug_assert!` of
the real code, `shutdown` the broker's `Shutdown`.

Vocabulary (`Req` = client to broker, `Rsp` = broker to client) is the broker model's.
-/
import Aldrin.Model.Broker.Types

namespace Aldrin.Client
open Aldrin.Broker

/-- `SenderState` / `ReceiverState`. -/
inductive EndSt where
  | pending | established | peerClosed
  deriving DecidableEq, Repr, Inhabited

/-- `BusListenerHandle` without its filters (they never decide acceptance). -/
structure Lsn where
  scope : Option Scope := none
  currentFinished : Bool := false
  deriving DecidableEq, Repr, Inhabited

/-- `CloseChannelEndRequest`: the `claimed` flag is fixed when the request is made. -/
structure CloseReq where
  cookie : Cookie
  e : ChanEnd
  claimed : Bool
  deriving DecidableEq, Repr, Inhabited

/-- Why `Client::run` returned. -/
inductive StopResult where
  | clean          -- `Ok(())`
  | transport      -- `RunError::Transport`
  | unexpected     -- `RunError::UnexpectedMessageReceived`
  | panicked
  deriving DecidableEq, Repr, Inhabited

/-- Where `Client::run` is: in its main loop, in `drain_transport` (having said `Shutdown`; `wait` = it still
waits for the broker's), or returned. -/
inductive Phase where
  | running
  | draining (wait : Bool)
  | stopped (r : StopResult)
  deriving DecidableEq, Repr, Inhabited

structure CSt where
  version : Nat
  phase : Phase := .running
  createObject : List Nat := []
  createService : List Nat := []
  destroyService : List (Nat × Cookie) := []
  createChannel : List (Nat × ChanEnd) := []
  closeChannelEnd : List (Nat × CloseReq) := []
  claimChannelEnd : List (Nat × (ChanEnd × Cookie)) := []
  sync : List Nat := []
  createBusListener : List Nat := []
  destroyBusListener : List (Nat × Cookie) := []
  startBusListener : List (Nat × (Cookie × Scope)) := []
  stopBusListener : List (Nat × Cookie) := []
  queryServiceInfo : List Nat := []
  queryServiceVersion : List Nat := []
  subscribeEvent : List Nat := []
  subscribeService : List Nat := []
  subscribeAllEvents : List Nat := []
  unsubscribeAllEvents : List Nat := []
  queryIntrospection : List Nat := []
  services : List Cookie := []
  senders : List (Cookie × EndSt) := []
  receivers : List (Cookie × EndSt) := []
  listeners : List (Cookie × Lsn) := []
  abortHandles : List Nat := []
  deriving DecidableEq, Repr, Inhabited

inductive Verdict where
  | ok (s : CSt)
  | unexpected
  | panic (site : String)
  | shutdown
  deriving DecidableEq, Repr

def ends (s : CSt) : ChanEnd → List (Cookie × EndSt)
  | .sender => s.senders
  | .receiver => s.receivers

def setEnds (s : CSt) (e : ChanEnd) (m : List (Cookie × EndSt)) : CSt :=
  match e with
  | .sender => { s with senders := m }
  | .receiver => { s with receivers := m }

/-! ### what the client remembers when it sends a request -/

def onSend (s : CSt) : Req → CSt
  | .createObject serial _ => { s with createObject := sinsert serial s.createObject }
  | .createService serial _ _ _ => { s with createService := sinsert serial s.createService }
  | .createService2 serial _ _ _ => { s with createService := sinsert serial s.createService }
  | .destroyService serial ck => { s with destroyService := AL.insert serial ck s.destroyService }
  | .callFunctionReply serial _ => { s with abortHandles := sremove serial s.abortHandles }
  | .subscribeEvent (some serial) _ _ => { s with subscribeEvent := sinsert serial s.subscribeEvent }
  | .queryServiceVersion serial _ => { s with queryServiceVersion := sinsert serial s.queryServiceVersion }
  | .queryServiceInfo serial _ => { s with queryServiceInfo := sinsert serial s.queryServiceInfo }
  | .subscribeService serial _ => { s with subscribeService := sinsert serial s.subscribeService }
  | .subscribeAllEvents (some serial) _ => { s with subscribeAllEvents := sinsert serial s.subscribeAllEvents }
  | .unsubscribeAllEvents (some serial) _ => { s with unsubscribeAllEvents := sinsert serial s.unsubscribeAllEvents }
  | .createChannel serial e _ => { s with createChannel := AL.insert serial e s.createChannel }
  | .closeChannelEnd serial ck e =>
    -- `claimed` is a flag of the channel end that is being closed. It is set when the end was created claimed,
    -- and by `claim` before the request is made (so that an abandoned claim is undone); an end whose claim has
    -- failed closes without a message. At the transport this is: the end is in the map, or its claim is on its way.
    let claimed := AL.contains ck (ends s e) || s.claimChannelEnd.any (fun p => p.2 = (e, ck))
    { s with closeChannelEnd := AL.insert serial ⟨ck, e, claimed⟩ s.closeChannelEnd }
  | .claimChannelEnd serial ck e _ => { s with claimChannelEnd := AL.insert serial (e, ck) s.claimChannelEnd }
  | .sync serial => { s with sync := sinsert serial s.sync }
  | .createBusListener serial => { s with createBusListener := sinsert serial s.createBusListener }
  | .destroyBusListener serial ck => { s with destroyBusListener := AL.insert serial ck s.destroyBusListener }
  | .startBusListener serial ck sc => { s with startBusListener := AL.insert serial (ck, sc) s.startBusListener }
  | .stopBusListener serial ck => { s with stopBusListener := AL.insert serial ck s.stopBusListener }
  | .queryIntrospection serial _ => { s with queryIntrospection := sinsert serial s.queryIntrospection }
  | _ => s

/-! ### `handle_message` -/

/-- `SerialMap::remove` on a map without payload: `none` if the serial is unknown. -/
def take (serial : Nat) (m : List Nat) : Option (List Nat) :=
  if m.contains serial then some (sremove serial m) else none

def takeAL {V : Type} (serial : Nat) (m : List (Nat × V)) : Option (V × List (Nat × V)) :=
  (AL.find? serial m).map (fun v => (v, AL.erase serial m))

/-- the other end of a channel -/
def peerEnd : ChanEnd → ChanEnd
  | .sender => .receiver
  | .receiver => .sender

def channelEndClosed (s : CSt) (ck : Cookie) (e : ChanEnd) : Verdict :=
  -- `e` is the end that was closed; the state kept is the one of the *other* end
  let mine : ChanEnd := peerEnd e
  match AL.find? ck (ends s mine) with
  | some .pending | some .established => .ok (setEnds s mine (AL.insert ck .peerClosed (ends s mine)))
  | some .peerClosed =>
    -- the state has been replaced before the check (`mem::replace`), which nobody can observe afterwards
    .unexpected
  | none => .unexpected

def channelEndClaimed (s : CSt) (ck : Cookie) (e : ChanEnd) : Verdict :=
  let mine : ChanEnd := peerEnd e
  match AL.find? ck (ends s mine) with
  | some .pending => .ok (setEnds s mine (AL.insert ck .established (ends s mine)))
  | some _ => .unexpected
  | none => .unexpected

def onRecv (s : CSt) : Rsp → Verdict
  | .createObjectReply serial _ =>
    match take serial s.createObject with
    | some m => .ok { s with createObject := m }
    | none => .unexpected
  | .destroyObjectReply _ _ => .ok s
  | .createServiceReply serial r =>
    match take serial s.createService with
    | none => .unexpected
    | some m =>
      let s := { s with createService := m }
      match r with
      | .ok ck =>
        if s.services.contains ck then .panic "msg_create_service_reply: dup" else
        .ok { s with services := s.services ++ [ck] }
      | .foreignObject => .panic "msg_create_service_reply: unreachable"
      | _ => .ok s
  | .destroyServiceReply serial r =>
    match takeAL serial s.destroyService with
    | none => .ok s
    | some (ck, m) =>
      let s := { s with destroyService := m }
      match r with
      | .ok =>
        if !s.services.contains ck then .panic "msg_destroy_service_reply: contained" else
        .ok { s with services := sremove ck s.services }
      | .foreignObject => .panic "msg_destroy_service_reply: unreachable"
      | .invalidService => .ok s
  | .callFunction serial svc _ _ | .callFunction2 serial svc _ _ _ =>
    if !s.services.contains svc then .panic "msg_call_function2: inconsistent state" else
    if s.abortHandles.contains serial then .panic "msg_call_function2: dup" else
    -- if the `Service` no longer listens the client answers `InvalidService` itself; that reply passes
    -- `onSend`, which clears the entry again
    .ok { s with abortHandles := s.abortHandles ++ [serial] }
  | .callFunctionReply _ _ => .ok s
  | .subscribeEvent _ _ | .unsubscribeEvent _ _ => .ok s
  | .createChannelReply serial ck =>
    match takeAL serial s.createChannel with
    | none => .unexpected
    | some (e, m) =>
      let s := { s with createChannel := m }
      if AL.contains ck (ends s e) then .panic "msg_create_channel_reply: dup" else
      .ok (setEnds s e (AL.insert ck .pending (ends s e)))
  | .closeChannelEndReply serial r =>
    match takeAL serial s.closeChannelEnd with
    | none => .unexpected
    | some (req, m) =>
      let s := { s with closeChannelEnd := m }
      if req.claimed then
        if !AL.contains req.cookie (ends s req.e) && r = .ok then .panic "msg_close_channel_end_reply: contained" else
        .ok (setEnds s req.e (AL.erase req.cookie (ends s req.e)))
      else .ok s
  | .channelEndClosed ck e => channelEndClosed s ck e
  | .claimChannelEndReply serial r =>
    match takeAL serial s.claimChannelEnd with
    | none => .unexpected
    | some ((e, ck), m) =>
      let s := { s with claimChannelEnd := m }
      match e, r with
      | .sender, .senderClaimed _ | .receiver, .receiverClaimed =>
        if AL.contains ck (ends s e) then .panic "msg_claim_channel_end_reply: dup" else
        .ok (setEnds s e (AL.insert ck .established (ends s e)))
      | .sender, .receiverClaimed | .receiver, .senderClaimed _ => .unexpected
      | _, .invalidChannel | _, .alreadyClaimed => .ok s
  | .channelEndClaimed ck e _ => channelEndClaimed s ck e
  | .itemReceived ck _ =>
    if AL.find? ck s.receivers = some .established then .ok s else .unexpected
  | .addChannelCapacity ck _ =>
    if AL.find? ck s.senders = some .established then .ok s else .unexpected
  | .syncReply serial =>
    match take serial s.sync with
    | some m => .ok { s with sync := m }
    | none => .unexpected
  | .createBusListenerReply serial ck =>
    match take serial s.createBusListener with
    | none => .unexpected
    | some m =>
      let s := { s with createBusListener := m }
      if AL.contains ck s.listeners then .panic "msg_create_bus_listener_reply: dup" else
      .ok { s with listeners := AL.insert ck {} s.listeners }
  | .destroyBusListenerReply serial r =>
    match takeAL serial s.destroyBusListener with
    | none => .unexpected
    | some (ck, m) =>
      let s := { s with destroyBusListener := m }
      if r = .ok then
        if !AL.contains ck s.listeners then .panic "msg_destroy_bus_listener_reply: contained" else
        .ok { s with listeners := AL.erase ck s.listeners }
      else .ok s
  | .startBusListenerReply serial r =>
    match takeAL serial s.startBusListener with
    | none => .unexpected
    | some ((ck, sc), m) =>
      let s := { s with startBusListener := m }
      if r = .ok then
        match AL.find? ck s.listeners with
        | none => .unexpected
        | some l =>
          if l.scope.isNone then
            .ok { s with listeners := AL.insert ck { scope := some sc, currentFinished := !sc.includesCurrent } s.listeners }
          else .unexpected
      else .ok s
  | .stopBusListenerReply serial r =>
    match takeAL serial s.stopBusListener with
    | none => .unexpected
    | some (ck, m) =>
      let s := { s with stopBusListener := m }
      if r = .ok then
        match AL.find? ck s.listeners with
        | none => .unexpected
        | some l =>
          if l.scope.isSome then .ok { s with listeners := AL.insert ck { l with scope := none } s.listeners }
          else .unexpected
      else .ok s
  | .emitBusEvent (some ck) _ =>
    match AL.find? ck s.listeners with
    | none => .unexpected
    | some l =>
      if (l.scope.map Scope.includesCurrent).getD false && !l.currentFinished then .ok s else .unexpected
  | .emitBusEvent none _ => .ok s
  | .busListenerCurrentFinished ck =>
    match AL.find? ck s.listeners with
    | none => .unexpected
    | some l =>
      if !l.currentFinished then .ok { s with listeners := AL.insert ck { l with currentFinished := true } s.listeners }
      else .unexpected
  | .abortFunctionCall serial =>
    if s.version ≥ v1_16 then .ok { s with abortHandles := sremove serial s.abortHandles } else .unexpected
  | .queryIntrospection _ _ => if s.version ≥ v1_17 then .ok s else .unexpected
  | .queryIntrospectionReply serial _ =>
    if s.version < v1_17 then .unexpected else
    match take serial s.queryIntrospection with
    | some m => .ok { s with queryIntrospection := m }
    | none => .unexpected
  | .queryServiceInfoReply serial _ =>
    match take serial s.queryServiceInfo with
    | some m => .ok { s with queryServiceInfo := m }
    | none => .unexpected
  | .queryServiceVersionReply serial _ =>
    match take serial s.queryServiceVersion with
    | some m => .ok { s with queryServiceVersion := m }
    | none => .unexpected
  | .subscribeEventReply serial _ =>
    match take serial s.subscribeEvent with
    | some m => .ok { s with subscribeEvent := m }
    | none => .unexpected
  | .emitEvent _ _ _ => .ok s
  | .serviceDestroyed _ => .ok s
  | .subscribeServiceReply serial _ =>
    match take serial s.subscribeService with
    | some m => .ok { s with subscribeService := m }
    | none => .unexpected
  | .subscribeAllEvents _ | .unsubscribeAllEvents _ =>
    -- the broker model only has the `serial = None` form of these
    if s.version ≥ v1_18 then .ok s else .unexpected
  | .subscribeAllEventsReply serial r =>
    match take serial s.subscribeAllEvents with
    | none => .unexpected
    | some m => if r = .notSupported then .unexpected else .ok { s with subscribeAllEvents := m }
  | .unsubscribeAllEventsReply serial r =>
    match take serial s.unsubscribeAllEvents with
    | none => .unexpected
    | some m => if r = .notSupported then .unexpected else .ok { s with unsubscribeAllEvents := m }
  | .shutdown => .shutdown


/-! ### `Client::run`: the loop around `handle_message` -/

/-- The client is given a message by its transport. -/
def recv (s : CSt) (m : Rsp) : CSt × String :=
  match s.phase with
  | .running =>
    match onRecv s m with
    | .ok s' => (s', "ok")
    | .unexpected => ({ s with phase := .stopped .unexpected }, "unexpected")
    | .panic _ => ({ s with phase := .stopped .panicked }, "panic")
    | .shutdown => ({ s with phase := .draining false }, "shutdown")   -- answers `Shutdown`, flushes, returns
  | .draining wait =>
    -- `drain_transport` looks at nothing but the broker's `Shutdown`
    if m = .shutdown then ({ s with phase := if wait then .stopped .clean else .draining false }, "shutdown")
    else (s, "ok")
  | .stopped _ => (s, "stopped")

/-- The client puts a message on its transport. `none` = its own `Shutdown` (a stop was requested, or the last
handle is gone, or the broker said `Shutdown` first). -/
def sent (s : CSt) (r : Option Req) : CSt :=
  match r with
  | some r => onSend s r
  | none =>
    match s.phase with
    | .running => { s with phase := .draining true }
    | _ => s

/-- The transport fails (error or end of stream) under a client that has not returned yet. -/
def transportFailed (s : CSt) : CSt :=
  match s.phase with
  | .stopped _ => s
  | _ => { s with phase := .stopped .transport }

/-- The transport has been flushed after the client answered the broker's `Shutdown`. -/
def flushed (s : CSt) : CSt :=
  match s.phase with
  | .draining false => { s with phase := .stopped .clean }
  | _ => s

end Aldrin.Client
