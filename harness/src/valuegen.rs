//! Structured, boundary-biased generator for `aldrin_core::Value`, a reference raw encoder
//! (no depth limit, both epochs, same container iteration order as the real serializer) and a
//! V1 serializer that goes through the public `serialize_*1` API.

use crate::Rng;
use aldrin_core::tags::{self, Tag};
use aldrin_core::{
    Bytes, ChannelCookie, Enum, ObjectCookie, ObjectId, ObjectUuid, Serialize, SerializeError,
    SerializedValue, Serializer, ServiceCookie, ServiceId, ServiceUuid, Struct, Value,
};
use std::collections::{HashMap, HashSet};
use uuid::Uuid;

pub fn gen_uuid(rng: &mut Rng) -> Uuid {
    if rng.chance(1, 8) {
        return Uuid::nil();
    }
    let mut b = [0u8; 16];
    for x in b.iter_mut() {
        *x = rng.next() as u8;
    }
    Uuid::from_bytes(b)
}

/// Unsigned boundary values for an `n`-byte integer (varint markers, byte boundaries, max).
pub fn gen_unsigned(rng: &mut Rng, n: u32) -> u64 {
    let max: u64 = if n == 8 { u64::MAX } else { (1u64 << (8 * n)) - 1 };
    let cands: [u64; 16] = [
        0,
        1,
        (255 - n as u64).saturating_sub(1),
        255 - n as u64,
        255 - n as u64 + 1,
        254,
        255,
        256,
        257,
        65535,
        65536,
        (1u64 << 24) - 1,
        1u64 << 24,
        u32::MAX as u64,
        u32::MAX as u64 + 1,
        max,
    ];
    let v = match rng.below(4) {
        0 => *rng.pick(&cands),
        1 => {
            // a value with exactly k significant bytes
            let k = rng.range(1, n as u64);
            let hi = if k == 8 { u64::MAX } else { (1u64 << (8 * k)) - 1 };
            let lo = if k == 1 { 0 } else { 1u64 << (8 * (k - 1)) };
            lo + rng.below(hi - lo + 1).min(hi - lo)
        }
        2 => rng.next() >> rng.below(64),
        _ => rng.next(),
    };
    v & max
}

pub fn gen_signed(rng: &mut Rng, n: u32) -> i64 {
    let bits = 8 * n;
    let min: i64 = if n == 8 { i64::MIN } else { -(1i64 << (bits - 1)) };
    let max: i64 = if n == 8 { i64::MAX } else { (1i64 << (bits - 1)) - 1 };
    match rng.below(5) {
        0 => *rng.pick(&[0, 1, -1, 2, -2, 63, 64, -64, -65, 127, 128, -128, -129, max, min, max - 1, min + 1]),
        1 => {
            // zig-zag images around the varint boundaries
            let u = gen_unsigned(rng, n);
            let z = ((u >> 1) as i64) ^ -((u & 1) as i64);
            z
        }
        _ => {
            let u = gen_unsigned(rng, n);
            // sign-extend from `bits`
            let sh = 64 - bits;
            ((u << sh) as i64) >> sh
        }
    }
    .clamp(min, max)
}

pub fn gen_string(rng: &mut Rng) -> String {
    let len = match rng.below(10) {
        0 => 0,
        1..=6 => rng.range(1, 8),
        7 | 8 => rng.range(9, 40),
        _ => rng.range(200, 300),
    };
    let mut s = String::new();
    for _ in 0..len {
        let c = match rng.below(8) {
            0 => char::from_u32(rng.range(0x80, 0x7ff) as u32),
            1 => char::from_u32(rng.range(0x800, 0xffff) as u32),
            2 => char::from_u32(rng.range(0x10000, 0x10ffff) as u32),
            3 => Some(*rng.pick(&['\u{0}', '\u{7f}', '\u{80}', '\u{7ff}', '\u{800}', '\u{d7ff}', '\u{e000}', '\u{ffff}', '\u{10000}', '\u{10ffff}'])),
            _ => char::from_u32(rng.range(0x20, 0x7e) as u32),
        };
        if let Some(c) = c {
            s.push(c);
        }
    }
    s
}

fn gen_f32(rng: &mut Rng) -> f32 {
    let bits = match rng.below(4) {
        0 => *rng.pick(&[0u32, 0x8000_0000, 0x7f80_0000, 0xff80_0000, 0x7fc0_0000, 0x7f80_0001, 0xffff_ffff, 0x3f80_0000, 1]),
        1 => 0x7f80_0000 | (rng.next() as u32 & 0x007f_ffff) | ((rng.next() as u32 & 1) << 31),
        _ => rng.next() as u32,
    };
    f32::from_bits(bits)
}

fn gen_f64(rng: &mut Rng) -> f64 {
    let bits = match rng.below(4) {
        0 => *rng.pick(&[0u64, 1 << 63, 0x7ff0_0000_0000_0000, 0xfff0_0000_0000_0000, 0x7ff8_0000_0000_0000, 0x7ff0_0000_0000_0001, u64::MAX, 1]),
        1 => 0x7ff0_0000_0000_0000 | (rng.next() & 0x000f_ffff_ffff_ffff) | ((rng.next() & 1) << 63),
        _ => rng.next(),
    };
    f64::from_bits(bits)
}

pub fn gen_leaf(rng: &mut Rng) -> Value {
    match rng.below(20) {
        0 => Value::None,
        1 => Value::Bool(rng.chance(1, 2)),
        2 => Value::U8(gen_unsigned(rng, 1) as u8),
        3 => Value::I8(gen_signed(rng, 1) as i8),
        4 => Value::U16(gen_unsigned(rng, 2) as u16),
        5 => Value::I16(gen_signed(rng, 2) as i16),
        6 => Value::U32(gen_unsigned(rng, 4) as u32),
        7 => Value::I32(gen_signed(rng, 4) as i32),
        8 => Value::U64(gen_unsigned(rng, 8)),
        9 => Value::I64(gen_signed(rng, 8)),
        10 => Value::F32(gen_f32(rng)),
        11 => Value::F64(gen_f64(rng)),
        12 => Value::String(gen_string(rng)),
        13 => Value::Uuid(gen_uuid(rng)),
        14 => Value::ObjectId(ObjectId::new(ObjectUuid(gen_uuid(rng)), ObjectCookie(gen_uuid(rng)))),
        15 => Value::ServiceId(ServiceId::new(
            ObjectId::new(ObjectUuid(gen_uuid(rng)), ObjectCookie(gen_uuid(rng))),
            ServiceUuid(gen_uuid(rng)),
            ServiceCookie(gen_uuid(rng)),
        )),
        16 => Value::Sender(ChannelCookie(gen_uuid(rng))),
        17 => Value::Receiver(ChannelCookie(gen_uuid(rng))),
        18 => {
            let n = match rng.below(6) {
                0 => 0,
                1..=3 => rng.range(1, 12),
                4 => rng.range(240, 270),
                _ => rng.range(1000, 70000),
            };
            Value::Bytes(Bytes(rng.bytes(n as usize)))
        }
        _ => gen_set(rng),
    }
}

fn set_len(rng: &mut Rng) -> usize {
    (match rng.below(10) {
        0 => 0,
        1..=7 => rng.range(1, 5),
        8 => rng.range(6, 40),
        _ => rng.range(250, 300),
    }) as usize
}

pub fn gen_set(rng: &mut Rng) -> Value {
    let n = set_len(rng);
    macro_rules! set {
        ($variant:ident, $gen:expr) => {{
            let mut s = HashSet::new();
            for _ in 0..n {
                s.insert($gen);
            }
            Value::$variant(s)
        }};
    }
    match rng.below(10) {
        0 => set!(U8Set, gen_unsigned(rng, 1) as u8),
        1 => set!(I8Set, gen_signed(rng, 1) as i8),
        2 => set!(U16Set, gen_unsigned(rng, 2) as u16),
        3 => set!(I16Set, gen_signed(rng, 2) as i16),
        4 => set!(U32Set, gen_unsigned(rng, 4) as u32),
        5 => set!(I32Set, gen_signed(rng, 4) as i32),
        6 => set!(U64Set, gen_unsigned(rng, 8)),
        7 => set!(I64Set, gen_signed(rng, 8)),
        8 => set!(StringSet, gen_string(rng)),
        _ => set!(UuidSet, gen_uuid(rng)),
    }
}

/// Wrap children into a container of kind `which` (0..=13): Some, Enum, Vec, Struct, ten maps.
/// `Some`/`Enum` use the first child only.
pub fn wrap(rng: &mut Rng, which: u64, mut children: Vec<Value>) -> Value {
    macro_rules! map {
        ($variant:ident, $gen:expr) => {{
            let mut m = HashMap::new();
            for c in children {
                // distinct keys are not forced: a collision simply replaces (still a valid map)
                m.insert($gen, c);
            }
            Value::$variant(m)
        }};
    }
    match which {
        0 => Value::Some(Box::new(children.pop().unwrap_or(Value::None))),
        1 => Value::Enum(Box::new(Enum::new(
            gen_unsigned(rng, 4) as u32,
            children.pop().unwrap_or(Value::None),
        ))),
        2 => Value::Vec(children),
        3 => {
            let mut m = HashMap::new();
            for c in children {
                m.insert(gen_unsigned(rng, 4) as u32, c);
            }
            Value::Struct(Struct(m))
        }
        4 => map!(U8Map, gen_unsigned(rng, 1) as u8),
        5 => map!(I8Map, gen_signed(rng, 1) as i8),
        6 => map!(U16Map, gen_unsigned(rng, 2) as u16),
        7 => map!(I16Map, gen_signed(rng, 2) as i16),
        8 => map!(U32Map, gen_unsigned(rng, 4) as u32),
        9 => map!(I32Map, gen_signed(rng, 4) as i32),
        10 => map!(U64Map, gen_unsigned(rng, 8)),
        11 => map!(I64Map, gen_signed(rng, 8)),
        12 => map!(StringMap, gen_string(rng)),
        _ => map!(UuidMap, gen_uuid(rng)),
    }
}

pub const NUM_WRAP: u64 = 14;

/// Bushy random tree with at most `budget` nodes and nesting at most `max_depth`.
pub fn gen_tree(rng: &mut Rng, max_depth: u32, budget: &mut i64) -> Value {
    *budget -= 1;
    if max_depth <= 1 || *budget <= 0 || rng.chance(2, 5) {
        return gen_leaf(rng);
    }
    let which = rng.below(NUM_WRAP);
    let n = if which < 2 {
        1
    } else {
        match rng.below(8) {
            0 => 0,
            1..=5 => rng.range(1, 4),
            _ => rng.range(5, 12),
        }
    };
    let children = (0..n).map(|_| gen_tree(rng, max_depth - 1, budget)).collect();
    wrap(rng, which, children)
}

/// A value whose nesting depth is exactly `depth` (a spine of random container kinds, with
/// small random siblings hanging off it).
pub fn gen_spine(rng: &mut Rng, depth: u32, fixed_kind: Option<u64>) -> Value {
    let mut v = gen_leaf(rng);
    // leaves have depth 1
    for _ in 1..depth {
        let which = fixed_kind.unwrap_or_else(|| rng.below(NUM_WRAP));
        let mut children = vec![];
        if which >= 2 && rng.chance(1, 3) {
            let mut b = 3;
            children.push(gen_tree(rng, 1, &mut b));
        }
        children.push(v);
        v = wrap(rng, which, children);
    }
    v
}

thread_local! {
    /// non-zero: the reference encoder writes byte strings of the current encoding in several chunks
    pub static CHUNK_SEED: std::cell::Cell<u64> = const { std::cell::Cell::new(0) };
}

#[derive(Clone, Copy, PartialEq, Eq, Debug)]
pub enum Ep {
    V1,
    V2,
}

// ------------------------------------------------------------------------------------------------
// Reference raw encoder: the wire format written down independently of aldrin-core's serializer,
// with no depth limit. For values within the limit it must agree byte for byte with the real
// serializer (the harness checks that on every case), which is what licenses its use to build
// over-deep inputs for the deserializer.

pub fn put_varint(out: &mut Vec<u8>, n: u64, width: usize) {
    let bytes = n.to_le_bytes();
    let mut sig = 8;
    while sig > 0 && bytes[sig - 1] == 0 {
        sig -= 1;
    }
    debug_assert!(sig <= width);
    if sig >= 2 {
        out.push((255 - width + sig) as u8);
        out.extend_from_slice(&bytes[..sig]);
    } else if n as usize > 255 - width {
        out.push((255 - width + 1) as u8);
        out.push(n as u8);
    } else {
        out.push(n as u8);
    }
}

fn zz(i: i64) -> u64 {
    ((i << 1) ^ (i >> 63)) as u64
}

fn zz_w(i: i64, width: usize) -> u64 {
    let z = zz(i);
    if width == 8 {
        z
    } else {
        z & ((1u64 << (8 * width)) - 1)
    }
}

pub fn raw_encode(v: &Value, ep: Ep, out: &mut Vec<u8>) {
    fn seq<'a>(
        out: &mut Vec<u8>,
        ep: Ep,
        k1: u8,
        k2: u8,
        len: usize,
        items: impl Iterator<Item = (Option<Box<dyn Fn(&mut Vec<u8>) + 'a>>, Option<&'a Value>)>,
    ) {
        match ep {
            Ep::V1 => {
                out.push(k1);
                put_varint(out, len as u64, 4);
                for (k, v) in items {
                    if let Some(k) = k {
                        k(out);
                    }
                    if let Some(v) = v {
                        raw_encode(v, ep, out);
                    }
                }
            }
            Ep::V2 => {
                out.push(k2);
                for (k, v) in items {
                    out.push(1);
                    if let Some(k) = k {
                        k(out);
                    }
                    if let Some(v) = v {
                        raw_encode(v, ep, out);
                    }
                }
                out.push(0);
            }
        }
    }
    macro_rules! map {
        ($m:expr, $k1:expr, $k2:expr, $kf:expr) => {{
            let m = $m;
            seq(
                out,
                ep,
                $k1,
                $k2,
                m.len(),
                m.iter().map(|(k, v)| {
                    let k = k.clone();
                    let f: Box<dyn Fn(&mut Vec<u8>)> = Box::new(move |o: &mut Vec<u8>| $kf(o, &k));
                    (Some(f), Some(v))
                }),
            )
        }};
    }
    macro_rules! set {
        ($m:expr, $k1:expr, $k2:expr, $kf:expr) => {{
            let m = $m;
            seq(
                out,
                ep,
                $k1,
                $k2,
                m.len(),
                m.iter().map(|k| {
                    let k = k.clone();
                    let f: Box<dyn Fn(&mut Vec<u8>)> = Box::new(move |o: &mut Vec<u8>| $kf(o, &k));
                    (Some(f), None)
                }),
            )
        }};
    }
    let ku8 = |o: &mut Vec<u8>, k: &u8| o.push(*k);
    let ki8 = |o: &mut Vec<u8>, k: &i8| o.push(*k as u8);
    let ku16 = |o: &mut Vec<u8>, k: &u16| put_varint(o, *k as u64, 2);
    let ki16 = |o: &mut Vec<u8>, k: &i16| put_varint(o, zz_w(*k as i64, 2), 2);
    let ku32 = |o: &mut Vec<u8>, k: &u32| put_varint(o, *k as u64, 4);
    let ki32 = |o: &mut Vec<u8>, k: &i32| put_varint(o, zz_w(*k as i64, 4), 4);
    let ku64 = |o: &mut Vec<u8>, k: &u64| put_varint(o, *k, 8);
    let ki64 = |o: &mut Vec<u8>, k: &i64| put_varint(o, zz_w(*k, 8), 8);
    let kstr = |o: &mut Vec<u8>, k: &String| {
        put_varint(o, k.len() as u64, 4);
        o.extend_from_slice(k.as_bytes());
    };
    let kuuid = |o: &mut Vec<u8>, k: &Uuid| o.extend_from_slice(k.as_bytes());
    match v {
        Value::None => out.push(0),
        Value::Some(v) => {
            out.push(1);
            raw_encode(v, ep, out);
        }
        Value::Bool(b) => out.extend_from_slice(&[2, *b as u8]),
        Value::U8(x) => out.extend_from_slice(&[3, *x]),
        Value::I8(x) => out.extend_from_slice(&[4, *x as u8]),
        Value::U16(x) => {
            out.push(5);
            put_varint(out, *x as u64, 2)
        }
        Value::I16(x) => {
            out.push(6);
            put_varint(out, zz_w(*x as i64, 2), 2)
        }
        Value::U32(x) => {
            out.push(7);
            put_varint(out, *x as u64, 4)
        }
        Value::I32(x) => {
            out.push(8);
            put_varint(out, zz_w(*x as i64, 4), 4)
        }
        Value::U64(x) => {
            out.push(9);
            put_varint(out, *x, 8)
        }
        Value::I64(x) => {
            out.push(10);
            put_varint(out, zz_w(*x, 8), 8)
        }
        Value::F32(x) => {
            out.push(11);
            out.extend_from_slice(&x.to_bits().to_le_bytes())
        }
        Value::F64(x) => {
            out.push(12);
            out.extend_from_slice(&x.to_bits().to_le_bytes())
        }
        Value::String(s) => {
            out.push(13);
            put_varint(out, s.len() as u64, 4);
            out.extend_from_slice(s.as_bytes())
        }
        Value::Uuid(u) => {
            out.push(14);
            out.extend_from_slice(u.as_bytes())
        }
        Value::ObjectId(id) => {
            out.push(15);
            out.extend_from_slice(id.uuid.0.as_bytes());
            out.extend_from_slice(id.cookie.0.as_bytes())
        }
        Value::ServiceId(id) => {
            out.push(16);
            out.extend_from_slice(id.object_id.uuid.0.as_bytes());
            out.extend_from_slice(id.object_id.cookie.0.as_bytes());
            out.extend_from_slice(id.uuid.0.as_bytes());
            out.extend_from_slice(id.cookie.0.as_bytes())
        }
        Value::Vec(vs) => seq(out, ep, 17, 43, vs.len(), vs.iter().map(|v| (None, Some(v)))),
        Value::Bytes(b) => match ep {
            Ep::V1 => {
                out.push(18);
                put_varint(out, b.0.len() as u64, 4);
                out.extend_from_slice(&b.0)
            }
            Ep::V2 => {
                out.push(44);
                let seed = CHUNK_SEED.with(|c| c.get());
                if seed != 0 && b.0.len() >= 2 {
                    // the same byte string in several chunks (what a serializer fed from a ring buffer writes)
                    let mut x = seed ^ (b.0.len() as u64).wrapping_mul(0x9e37_79b9_7f4a_7c15);
                    let mut rest = &b.0[..];
                    while !rest.is_empty() {
                        x = x.wrapping_mul(6364136223846793005).wrapping_add(1442695040888963407);
                        let n = 1 + ((x >> 33) as usize) % rest.len().min(9);
                        put_varint(out, n as u64, 4);
                        out.extend_from_slice(&rest[..n]);
                        rest = &rest[n..];
                    }
                } else if !b.0.is_empty() {
                    put_varint(out, b.0.len() as u64, 4);
                    out.extend_from_slice(&b.0);
                }
                out.push(0)
            }
        },
        Value::U8Map(m) => map!(m, 19, 45, ku8),
        Value::I8Map(m) => map!(m, 20, 46, ki8),
        Value::U16Map(m) => map!(m, 21, 47, ku16),
        Value::I16Map(m) => map!(m, 22, 48, ki16),
        Value::U32Map(m) => map!(m, 23, 49, ku32),
        Value::I32Map(m) => map!(m, 24, 50, ki32),
        Value::U64Map(m) => map!(m, 25, 51, ku64),
        Value::I64Map(m) => map!(m, 26, 52, ki64),
        Value::StringMap(m) => map!(m, 27, 53, kstr),
        Value::UuidMap(m) => map!(m, 28, 54, kuuid),
        Value::U8Set(m) => set!(m, 29, 55, ku8),
        Value::I8Set(m) => set!(m, 30, 56, ki8),
        Value::U16Set(m) => set!(m, 31, 57, ku16),
        Value::I16Set(m) => set!(m, 32, 58, ki16),
        Value::U32Set(m) => set!(m, 33, 59, ku32),
        Value::I32Set(m) => set!(m, 34, 60, ki32),
        Value::U64Set(m) => set!(m, 35, 61, ku64),
        Value::I64Set(m) => set!(m, 36, 62, ki64),
        Value::StringSet(m) => set!(m, 37, 63, kstr),
        Value::UuidSet(m) => set!(m, 38, 64, kuuid),
        Value::Struct(Struct(m)) => map!(m, 39, 65, ku32),
        Value::Enum(e) => {
            out.push(40);
            put_varint(out, e.id as u64, 4);
            raw_encode(&e.value, ep, out)
        }
        Value::Sender(c) => {
            out.push(41);
            out.extend_from_slice(c.0.as_bytes())
        }
        Value::Receiver(c) => {
            out.push(42);
            out.extend_from_slice(c.0.as_bytes())
        }
    }
}

// ------------------------------------------------------------------------------------------------
// Legacy (V1) serialization of a `Value` through the public `serialize_*1` API.

pub struct V1<'a>(pub &'a Value);

impl Serialize<tags::Value> for V1<'_> {
    fn serialize(self, serializer: Serializer) -> Result<(), SerializeError> {
        fn map<'a, K: tags::KeyTag, L: aldrin_core::SerializeKey<K> + 'a>(
            serializer: Serializer,
            m: &'a HashMap<L, Value>,
        ) -> Result<(), SerializeError> {
            let mut s = serializer.serialize_map1::<K>(m.len())?;
            for (k, v) in m {
                s.serialize::<tags::Value>(k, V1(v))?;
            }
            s.finish()
        }
        fn set<'a, K: tags::KeyTag, L: aldrin_core::SerializeKey<K> + 'a>(
            serializer: Serializer,
            m: &'a HashSet<L>,
        ) -> Result<(), SerializeError> {
            let mut s = serializer.serialize_set1::<K>(m.len())?;
            for k in m {
                s.serialize(k)?;
            }
            s.finish()
        }
        match self.0 {
            Value::Some(v) => serializer.serialize_some::<tags::Value>(V1(v)),
            Value::Vec(vs) => {
                let mut s = serializer.serialize_vec1(vs.len())?;
                for v in vs {
                    s.serialize::<tags::Value>(V1(v))?;
                }
                s.finish()
            }
            Value::Bytes(b) => serializer.serialize_byte_slice1(&b.0),
            Value::U8Map(m) => map::<tags::U8, _>(serializer, m),
            Value::I8Map(m) => map::<tags::I8, _>(serializer, m),
            Value::U16Map(m) => map::<tags::U16, _>(serializer, m),
            Value::I16Map(m) => map::<tags::I16, _>(serializer, m),
            Value::U32Map(m) => map::<tags::U32, _>(serializer, m),
            Value::I32Map(m) => map::<tags::I32, _>(serializer, m),
            Value::U64Map(m) => map::<tags::U64, _>(serializer, m),
            Value::I64Map(m) => map::<tags::I64, _>(serializer, m),
            Value::StringMap(m) => map::<tags::String, _>(serializer, m),
            Value::UuidMap(m) => map::<tags::Uuid, _>(serializer, m),
            Value::U8Set(m) => set::<tags::U8, _>(serializer, m),
            Value::I8Set(m) => set::<tags::I8, _>(serializer, m),
            Value::U16Set(m) => set::<tags::U16, _>(serializer, m),
            Value::I16Set(m) => set::<tags::I16, _>(serializer, m),
            Value::U32Set(m) => set::<tags::U32, _>(serializer, m),
            Value::I32Set(m) => set::<tags::I32, _>(serializer, m),
            Value::U64Set(m) => set::<tags::U64, _>(serializer, m),
            Value::I64Set(m) => set::<tags::I64, _>(serializer, m),
            Value::StringSet(m) => set::<tags::String, _>(serializer, m),
            Value::UuidSet(m) => set::<tags::Uuid, _>(serializer, m),
            Value::Struct(Struct(m)) => {
                let mut s = serializer.serialize_struct1(m.len())?;
                for (id, v) in m {
                    s.serialize::<tags::Value>(*id, V1(v))?;
                }
                s.finish()
            }
            Value::Enum(e) => serializer.serialize_enum::<tags::Value>(e.id, V1(&e.value)),
            other => serializer.serialize::<tags::Value>(other),
        }
    }
}

pub fn ser_v1(v: &Value) -> Result<SerializedValue, SerializeError> {
    SerializedValue::serialize_as::<tags::Value>(V1(v))
}

pub fn ser_v2(v: &Value) -> Result<SerializedValue, SerializeError> {
    SerializedValue::serialize(v)
}

fn _assert_tag<T: Tag>() {}
