//! Shared pieces of the correspondence harness: PRNG, hex, the value text format (identical to
//! `lean/Driver/Text.lean`), generators, and ways to reach the real codec through public API.

pub mod valuegen;
pub mod msgtext;

use aldrin_core::message::{EmitEvent, Message, MessageOps};
use aldrin_core::{SerializedValue, ServiceCookie, Value};
use bytes::BytesMut;
use std::fmt::Write;
use uuid::Uuid;

/// xorshift64* — every random choice of a run derives from one state.
#[derive(Clone)]
pub struct Rng(pub u64);

impl Rng {
    pub fn new(seed: u64) -> Self {
        let mut r = Rng(seed ^ 0x9E37_79B9_7F4A_7C15);
        if r.0 == 0 {
            r.0 = 0x1234_5678_9ABC_DEF1;
        }
        for _ in 0..8 {
            r.next();
        }
        r
    }
    pub fn next(&mut self) -> u64 {
        let mut x = self.0;
        x ^= x >> 12;
        x ^= x << 25;
        x ^= x >> 27;
        self.0 = x;
        x.wrapping_mul(0x2545_F491_4F6C_DD1D)
    }
    pub fn below(&mut self, n: u64) -> u64 {
        if n == 0 {
            0
        } else {
            self.next() % n
        }
    }
    pub fn range(&mut self, lo: u64, hi: u64) -> u64 {
        lo + self.below(hi - lo + 1)
    }
    pub fn chance(&mut self, num: u64, den: u64) -> bool {
        self.below(den) < num
    }
    pub fn pick<'a, T>(&mut self, xs: &'a [T]) -> &'a T {
        &xs[self.below(xs.len() as u64) as usize]
    }
    pub fn bytes(&mut self, n: usize) -> Vec<u8> {
        (0..n).map(|_| self.next() as u8).collect()
    }
    pub fn fork(&mut self) -> Rng {
        Rng::new(self.next())
    }
}

pub fn hex(bs: &[u8]) -> String {
    if bs.is_empty() {
        return "-".to_string();
    }
    let mut s = String::with_capacity(bs.len() * 2);
    for b in bs {
        write!(s, "{:02x}", b).unwrap();
    }
    s
}

pub fn unhex(s: &str) -> Option<Vec<u8>> {
    if s == "-" {
        return Some(Vec::new());
    }
    if s.len() % 2 != 0 {
        return None;
    }
    let b = s.as_bytes();
    let mut out = Vec::with_capacity(s.len() / 2);
    for i in (0..b.len()).step_by(2) {
        let x = (b[i] as char).to_digit(16)?;
        let y = (b[i + 1] as char).to_digit(16)?;
        out.push((x * 16 + y) as u8);
    }
    Some(out)
}

/// Raw bytes -> `SerializedValue` through public API only: wrap them into an `EmitEvent` frame and
/// parse that. `None` for the empty string (a `SerializedValue` cannot be empty) or if the frame
/// is rejected.
pub fn sv_from_bytes(bs: &[u8]) -> Option<SerializedValue> {
    if bs.is_empty() {
        return None;
    }
    let total = 4 + 1 + 4 + bs.len() + 16 + 1;
    let mut buf = BytesMut::with_capacity(total);
    buf.extend_from_slice(&(total as u32).to_le_bytes());
    buf.extend_from_slice(&[16]);
    buf.extend_from_slice(&(bs.len() as u32).to_le_bytes());
    buf.extend_from_slice(bs);
    buf.extend_from_slice(Uuid::nil().as_bytes());
    buf.extend_from_slice(&[0]);
    match Message::deserialize_message(buf) {
        Ok(Message::EmitEvent(EmitEvent { value, .. })) => Some(value),
        _ => None,
    }
}

pub fn _unused(_: ServiceCookie) {}

pub mod text {
    //! The value text format. Maps and sets are printed sorted by key (integers numerically,
    //! blobs bytewise) — the canonical form both sides agree on.
    use super::hex;
    use aldrin_core::{Struct, Value};
    use std::collections::{HashMap, HashSet};
    use std::fmt::Write;

    #[derive(Clone, PartialEq, Eq, PartialOrd, Ord)]
    pub enum K {
        Int(i128),
        Blob(Vec<u8>),
    }

    impl K {
        pub fn text(&self) -> String {
            match self {
                K::Int(i) => format!("i{}", i),
                K::Blob(b) => format!("b{}", hex(b)),
            }
        }
    }

    fn map_text<KT, F: Fn(&KT) -> K>(out: &mut String, name: &str, m: &HashMap<KT, Value>, f: F) {
        let mut es: Vec<(K, &Value)> = m.iter().map(|(k, v)| (f(k), v)).collect();
        es.sort_by(|a, b| a.0.cmp(&b.0));
        write!(out, "M {} {}", name, es.len()).unwrap();
        for (k, v) in es {
            out.push(' ');
            out.push_str(&k.text());
            out.push(' ');
            value_text_into(out, v);
        }
    }

    fn set_text<KT, F: Fn(&KT) -> K>(out: &mut String, name: &str, m: &HashSet<KT>, f: F) {
        let mut es: Vec<K> = m.iter().map(f).collect();
        es.sort();
        write!(out, "E {} {}", name, es.len()).unwrap();
        for k in es {
            out.push(' ');
            out.push_str(&k.text());
        }
    }

    pub fn value_text(v: &Value) -> String {
        let mut s = String::new();
        value_text_into(&mut s, v);
        s
    }

    pub fn value_text_into(out: &mut String, v: &Value) {
        match v {
            Value::None => out.push('N'),
            Value::Some(v) => {
                out.push_str("S ");
                value_text_into(out, v)
            }
            Value::Bool(b) => out.push_str(if *b { "B1" } else { "B0" }),
            Value::U8(x) => write!(out, "I u8 {}", x).unwrap(),
            Value::I8(x) => write!(out, "I i8 {}", x).unwrap(),
            Value::U16(x) => write!(out, "I u16 {}", x).unwrap(),
            Value::I16(x) => write!(out, "I i16 {}", x).unwrap(),
            Value::U32(x) => write!(out, "I u32 {}", x).unwrap(),
            Value::I32(x) => write!(out, "I i32 {}", x).unwrap(),
            Value::U64(x) => write!(out, "I u64 {}", x).unwrap(),
            Value::I64(x) => write!(out, "I i64 {}", x).unwrap(),
            Value::F32(x) => write!(out, "F f32 {}", hex(&x.to_bits().to_le_bytes())).unwrap(),
            Value::F64(x) => write!(out, "F f64 {}", hex(&x.to_bits().to_le_bytes())).unwrap(),
            Value::String(s) => write!(out, "T {}", hex(s.as_bytes())).unwrap(),
            Value::Uuid(u) => write!(out, "F uuid {}", hex(u.as_bytes())).unwrap(),
            Value::ObjectId(id) => write!(
                out,
                "F oid {}{}",
                hex(id.uuid.0.as_bytes()),
                hex(id.cookie.0.as_bytes())
            )
            .unwrap(),
            Value::ServiceId(id) => write!(
                out,
                "F sid {}{}{}{}",
                hex(id.object_id.uuid.0.as_bytes()),
                hex(id.object_id.cookie.0.as_bytes()),
                hex(id.uuid.0.as_bytes()),
                hex(id.cookie.0.as_bytes())
            )
            .unwrap(),
            Value::Vec(vs) => {
                write!(out, "V {}", vs.len()).unwrap();
                for v in vs {
                    out.push(' ');
                    value_text_into(out, v);
                }
            }
            Value::Bytes(b) => write!(out, "Y {}", hex(&b.0)).unwrap(),
            Value::U8Map(m) => map_text(out, "u8", m, |k| K::Int(*k as i128)),
            Value::I8Map(m) => map_text(out, "i8", m, |k| K::Int(*k as i128)),
            Value::U16Map(m) => map_text(out, "u16", m, |k| K::Int(*k as i128)),
            Value::I16Map(m) => map_text(out, "i16", m, |k| K::Int(*k as i128)),
            Value::U32Map(m) => map_text(out, "u32", m, |k| K::Int(*k as i128)),
            Value::I32Map(m) => map_text(out, "i32", m, |k| K::Int(*k as i128)),
            Value::U64Map(m) => map_text(out, "u64", m, |k| K::Int(*k as i128)),
            Value::I64Map(m) => map_text(out, "i64", m, |k| K::Int(*k as i128)),
            Value::StringMap(m) => map_text(out, "str", m, |k| K::Blob(k.as_bytes().to_vec())),
            Value::UuidMap(m) => map_text(out, "uuid", m, |k| K::Blob(k.as_bytes().to_vec())),
            Value::U8Set(m) => set_text(out, "u8", m, |k| K::Int(*k as i128)),
            Value::I8Set(m) => set_text(out, "i8", m, |k| K::Int(*k as i128)),
            Value::U16Set(m) => set_text(out, "u16", m, |k| K::Int(*k as i128)),
            Value::I16Set(m) => set_text(out, "i16", m, |k| K::Int(*k as i128)),
            Value::U32Set(m) => set_text(out, "u32", m, |k| K::Int(*k as i128)),
            Value::I32Set(m) => set_text(out, "i32", m, |k| K::Int(*k as i128)),
            Value::U64Set(m) => set_text(out, "u64", m, |k| K::Int(*k as i128)),
            Value::I64Set(m) => set_text(out, "i64", m, |k| K::Int(*k as i128)),
            Value::StringSet(m) => set_text(out, "str", m, |k| K::Blob(k.as_bytes().to_vec())),
            Value::UuidSet(m) => set_text(out, "uuid", m, |k| K::Blob(k.as_bytes().to_vec())),
            Value::Struct(Struct(m)) => map_text(out, "field", m, |k| K::Int(*k as i128)),
            Value::Enum(e) => {
                write!(out, "U {} ", e.id).unwrap();
                value_text_into(out, &e.value)
            }
            Value::Sender(c) => write!(out, "F snd {}", hex(c.0.as_bytes())).unwrap(),
            Value::Receiver(c) => write!(out, "F rcv {}", hex(c.0.as_bytes())).unwrap(),
        }
    }
}

pub fn value_depth(v: &Value) -> usize {
    use aldrin_core::Struct;
    fn m<'a>(it: impl Iterator<Item = &'a Value>) -> usize {
        1 + it.map(value_depth).max().unwrap_or(0)
    }
    match v {
        Value::Some(v) => 1 + value_depth(v),
        Value::Enum(e) => 1 + value_depth(&e.value),
        Value::Vec(vs) => m(vs.iter()),
        Value::U8Map(x) => m(x.values()),
        Value::I8Map(x) => m(x.values()),
        Value::U16Map(x) => m(x.values()),
        Value::I16Map(x) => m(x.values()),
        Value::U32Map(x) => m(x.values()),
        Value::I32Map(x) => m(x.values()),
        Value::U64Map(x) => m(x.values()),
        Value::I64Map(x) => m(x.values()),
        Value::StringMap(x) => m(x.values()),
        Value::UuidMap(x) => m(x.values()),
        Value::Struct(Struct(x)) => m(x.values()),
        _ => 1,
    }
}
