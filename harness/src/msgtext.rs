//! Text forms of protocol messages shared by the harness binaries: what a client receives (`rsp_text`, identical
//! to `rspText` of the Lean driver) and what a client sends (`req_text`, read by `parseReqWith`). Broker cookies
//! are `c<k>` by first appearance, harness-chosen uuids `u<n>`.

use crate::hex;
use aldrin_core::message::*;
use aldrin_core::{
    BusEvent, BusListenerFilter, BusListenerScope, ChannelEnd, ChannelEndWithCapacity, ObjectId, SerializedValue,
    ServiceId, ServiceInfo,
};
use std::collections::HashMap;
use uuid::Uuid;

pub struct Names {
    pub cookies: HashMap<Uuid, usize>,
    pub order: Vec<Uuid>,
}

impl Names {
    pub fn new() -> Self {
        Names { cookies: HashMap::new(), order: vec![] }
    }
    pub fn cookie(&mut self, u: Uuid) -> String {
        if let Some(k) = self.cookies.get(&u) {
            return format!("c{}", k);
        }
        let k = self.order.len();
        self.cookies.insert(u, k);
        self.order.push(u);
        format!("c{}", k)
    }
}

pub fn pool_uuid(n: u64) -> Uuid {
    Uuid::from_u128(0xA1D0_0000_0000_0000_0000_0000_0000_0000u128 + n as u128)
}
pub fn uuid_name(u: Uuid) -> String {
    let v = u.as_u128().wrapping_sub(0xA1D0_0000_0000_0000_0000_0000_0000_0000u128);
    format!("u{}", v)
}
/// a cookie value the broker never issued
pub fn bogus_cookie(n: u64) -> Uuid {
    Uuid::from_u128(0xB060_0000_0000_0000_0000_0000_0000_0000u128 + n as u128)
}

pub fn opt<T>(o: &Option<T>, f: impl Fn(&T) -> String) -> String {
    match o {
        Some(x) => f(x),
        None => "-".into(),
    }
}

pub fn obj_id_text(n: &mut Names, o: &ObjectId) -> String {
    format!("{}/{}", uuid_name(o.uuid.0), n.cookie(o.cookie.0))
}
pub fn svc_id_text(n: &mut Names, s: &ServiceId) -> String {
    let o = obj_id_text(n, &s.object_id);
    format!("{}/{}/{}", o, uuid_name(s.uuid.0), n.cookie(s.cookie.0))
}
pub fn end_name(e: ChannelEnd) -> &'static str {
    match e {
        ChannelEnd::Sender => "snd",
        ChannelEnd::Receiver => "rcv",
    }
}
pub fn val(v: &SerializedValue) -> String {
    hex(v)
}

pub fn call_res_text(r: &CallFunctionResult) -> String {
    match r {
        CallFunctionResult::Ok(v) => format!("ok {}", val(v)),
        CallFunctionResult::Err(v) => format!("err {}", val(v)),
        CallFunctionResult::Aborted => "aborted".into(),
        CallFunctionResult::InvalidService => "invalidService".into(),
        CallFunctionResult::InvalidFunction => "invalidFunction".into(),
        CallFunctionResult::InvalidArgs => "invalidArgs".into(),
    }
}

/// Text of a message received by a client, identical to `rspText` of the Lean driver.
pub fn rsp_text(n: &mut Names, m: &Message) -> String {
    match m {
        Message::CreateObjectReply(r) => match r.result {
            CreateObjectResult::Ok(c) => format!("createObjectReply {} ok {}", r.serial, n.cookie(c.0)),
            CreateObjectResult::DuplicateObject => format!("createObjectReply {} duplicate", r.serial),
        },
        Message::DestroyObjectReply(r) => format!("destroyObjectReply {} {}", r.serial, match r.result {
            DestroyObjectResult::Ok => "ok",
            DestroyObjectResult::InvalidObject => "invalidObject",
            DestroyObjectResult::ForeignObject => "foreignObject",
        }),
        Message::CreateServiceReply(r) => match r.result {
            CreateServiceResult::Ok(c) => format!("createServiceReply {} ok {}", r.serial, n.cookie(c.0)),
            CreateServiceResult::DuplicateService => format!("createServiceReply {} duplicate", r.serial),
            CreateServiceResult::InvalidObject => format!("createServiceReply {} invalidObject", r.serial),
            CreateServiceResult::ForeignObject => format!("createServiceReply {} foreignObject", r.serial),
        },
        Message::DestroyServiceReply(r) => format!("destroyServiceReply {} {}", r.serial, match r.result {
            DestroyServiceResult::Ok => "ok",
            DestroyServiceResult::InvalidService => "invalidService",
            DestroyServiceResult::ForeignObject => "foreignObject",
        }),
        Message::CallFunction(r) => format!("callFunction {} {} {} {}", r.serial, n.cookie(r.service_cookie.0), r.function, val(&r.value)),
        Message::CallFunction2(r) => format!("callFunction2 {} {} {} {} {}", r.serial, n.cookie(r.service_cookie.0), r.function, opt(&r.version, |v| v.to_string()), val(&r.value)),
        Message::CallFunctionReply(r) => format!("callFunctionReply {} {}", r.serial, call_res_text(&r.result)),
        Message::AbortFunctionCall(r) => format!("abortFunctionCall {}", r.serial),
        Message::SubscribeEvent(r) => format!("subscribeEvent {} {} {}", opt(&r.serial, |s| s.to_string()), n.cookie(r.service_cookie.0), r.event),
        Message::SubscribeEventReply(r) => format!("subscribeEventReply {} {}", r.serial, match r.result {
            SubscribeEventResult::Ok => "ok",
            SubscribeEventResult::InvalidService => "invalidService",
        }),
        Message::UnsubscribeEvent(r) => format!("unsubscribeEvent {} {}", n.cookie(r.service_cookie.0), r.event),
        Message::EmitEvent(r) => format!("emitEvent {} {} {}", n.cookie(r.service_cookie.0), r.event, val(&r.value)),
        Message::QueryServiceVersionReply(r) => format!("queryServiceVersionReply {} {}", r.serial, match r.result {
            QueryServiceVersionResult::Ok(v) => v.to_string(),
            QueryServiceVersionResult::InvalidService => "-".into(),
        }),
        Message::QueryServiceInfoReply(r) => format!("queryServiceInfoReply {} {}", r.serial, match &r.result {
            QueryServiceInfoResult::Ok(v) => val(v),
            QueryServiceInfoResult::InvalidService => "-".into(),
        }),
        Message::SubscribeServiceReply(r) => format!("subscribeServiceReply {} {}", r.serial, match r.result {
            SubscribeServiceResult::Ok => "ok",
            SubscribeServiceResult::InvalidService => "invalidService",
        }),
        Message::SubscribeAllEvents(r) => format!("subscribeAllEvents {} {}", opt(&r.serial, |s| s.to_string()), n.cookie(r.service_cookie.0)),
        Message::SubscribeAllEventsReply(r) => format!("subscribeAllEventsReply {} {}", r.serial, match r.result {
            SubscribeAllEventsResult::Ok => "ok",
            SubscribeAllEventsResult::InvalidService => "invalidService",
            SubscribeAllEventsResult::NotSupported => "notSupported",
        }),
        Message::UnsubscribeAllEvents(r) => format!("unsubscribeAllEvents {} {}", opt(&r.serial, |s| s.to_string()), n.cookie(r.service_cookie.0)),
        Message::UnsubscribeAllEventsReply(r) => format!("unsubscribeAllEventsReply {} {}", r.serial, match r.result {
            UnsubscribeAllEventsResult::Ok => "ok",
            UnsubscribeAllEventsResult::InvalidService => "invalidService",
            UnsubscribeAllEventsResult::NotSupported => "notSupported",
        }),
        Message::ServiceDestroyed(r) => format!("serviceDestroyed {}", n.cookie(r.service_cookie.0)),
        Message::CreateChannelReply(r) => format!("createChannelReply {} {}", r.serial, n.cookie(r.cookie.0)),
        Message::CloseChannelEndReply(r) => format!("closeChannelEndReply {} {}", r.serial, match r.result {
            CloseChannelEndResult::Ok => "ok",
            CloseChannelEndResult::InvalidChannel => "invalidChannel",
            CloseChannelEndResult::ForeignChannel => "foreignChannel",
        }),
        Message::ChannelEndClosed(r) => format!("channelEndClosed {} {}", n.cookie(r.cookie.0), end_name(r.end)),
        Message::ClaimChannelEndReply(r) => format!("claimChannelEndReply {} {}", r.serial, match r.result {
            ClaimChannelEndResult::SenderClaimed(c) => format!("senderClaimed {}", c),
            ClaimChannelEndResult::ReceiverClaimed => "receiverClaimed".into(),
            ClaimChannelEndResult::InvalidChannel => "invalidChannel".into(),
            ClaimChannelEndResult::AlreadyClaimed => "alreadyClaimed".into(),
        }),
        Message::ChannelEndClaimed(r) => match r.end {
            ChannelEndWithCapacity::Sender => format!("channelEndClaimed {} snd 0", n.cookie(r.cookie.0)),
            ChannelEndWithCapacity::Receiver(c) => format!("channelEndClaimed {} rcv {}", n.cookie(r.cookie.0), c),
        },
        Message::ItemReceived(r) => format!("itemReceived {} {}", n.cookie(r.cookie.0), val(&r.value)),
        Message::AddChannelCapacity(r) => format!("addChannelCapacity {} {}", n.cookie(r.cookie.0), r.capacity),
        Message::SyncReply(r) => format!("syncReply {}", r.serial),
        Message::CreateBusListenerReply(r) => format!("createBusListenerReply {} {}", r.serial, n.cookie(r.cookie.0)),
        Message::DestroyBusListenerReply(r) => format!("destroyBusListenerReply {} {}", r.serial, match r.result {
            DestroyBusListenerResult::Ok => "ok",
            DestroyBusListenerResult::InvalidBusListener => "invalid",
        }),
        Message::StartBusListenerReply(r) => format!("startBusListenerReply {} {}", r.serial, match r.result {
            StartBusListenerResult::Ok => "ok",
            StartBusListenerResult::InvalidBusListener => "invalid",
            StartBusListenerResult::AlreadyStarted => "alreadyStarted",
        }),
        Message::StopBusListenerReply(r) => format!("stopBusListenerReply {} {}", r.serial, match r.result {
            StopBusListenerResult::Ok => "ok",
            StopBusListenerResult::InvalidBusListener => "invalid",
            StopBusListenerResult::NotStarted => "notStarted",
        }),
        Message::EmitBusEvent(r) => {
            let l = match r.cookie {
                Some(c) => n.cookie(c.0),
                None => "-".into(),
            };
            let e = match &r.event {
                BusEvent::ObjectCreated(o) => format!("objCreated {}", obj_id_text(n, o)),
                BusEvent::ObjectDestroyed(o) => format!("objDestroyed {}", obj_id_text(n, o)),
                BusEvent::ServiceCreated(s) => format!("svcCreated {}", svc_id_text(n, s)),
                BusEvent::ServiceDestroyed(s) => format!("svcDestroyed {}", svc_id_text(n, s)),
            };
            format!("emitBusEvent {} {}", l, e)
        }
        Message::BusListenerCurrentFinished(r) => format!("busListenerCurrentFinished {}", n.cookie(r.cookie.0)),
        Message::QueryIntrospection(r) => format!("queryIntrospection {} {}", r.serial, uuid_name(r.type_id.0)),
        Message::QueryIntrospectionReply(r) => format!("queryIntrospectionReply {} {}", r.serial, match &r.result {
            QueryIntrospectionResult::Ok(v) => val(v),
            QueryIntrospectionResult::Unavailable => "-".into(),
        }),
        Message::Shutdown(_) => "shutdown".into(),
        other => format!("UNEXPECTED-KIND {:?}", other.kind()),
    }
}

pub fn filter_text(f: &BusListenerFilter) -> String {
    match f {
        BusListenerFilter::Object(o) => format!("fo {}", opt(o, |u| uuid_name(u.0))),
        BusListenerFilter::Service(s) => format!("fs {} {}", opt(&s.object, |u| uuid_name(u.0)), opt(&s.service, |u| uuid_name(u.0))),
    }
}


/// Text of a message sent by a client, as `parseReqWith` of the Lean driver reads it.
pub fn req_text(n: &mut Names, m: &Message) -> String {
    match m {
        Message::CreateObject(r) => format!("createObject {} {}", r.serial, uuid_name(r.uuid.0)),
        Message::DestroyObject(r) => format!("destroyObject {} {}", r.serial, n.cookie(r.cookie.0)),
        Message::CreateService(r) => format!("createService {} {} {} {}", r.serial, n.cookie(r.object_cookie.0), uuid_name(r.uuid.0), r.version),
        Message::CreateService2(r) => match r.value.deserialize::<ServiceInfo>() {
            Ok(info) => format!("createService2 {} {} {} {} {}", r.serial, n.cookie(r.object_cookie.0), uuid_name(r.uuid.0), info.version(),
                match info.subscribe_all() { None => "-", Some(true) => "t", Some(false) => "f" }),
            Err(_) => format!("createService2 {} {} {} bad", r.serial, n.cookie(r.object_cookie.0), uuid_name(r.uuid.0)),
        },
        Message::DestroyService(r) => format!("destroyService {} {}", r.serial, n.cookie(r.cookie.0)),
        Message::CallFunction(r) => format!("callFunction {} {} {} {}", r.serial, n.cookie(r.service_cookie.0), r.function, val(&r.value)),
        Message::CallFunction2(r) => format!("callFunction2 {} {} {} {} {}", r.serial, n.cookie(r.service_cookie.0), r.function, opt(&r.version, |v| v.to_string()), val(&r.value)),
        Message::CallFunctionReply(r) => format!("callFunctionReply {} {}", r.serial, call_res_text(&r.result)),
        Message::AbortFunctionCall(r) => format!("abortFunctionCall {}", r.serial),
        Message::SubscribeEvent(r) => format!("subscribeEvent {} {} {}", opt(&r.serial, |s| s.to_string()), n.cookie(r.service_cookie.0), r.event),
        Message::UnsubscribeEvent(r) => format!("unsubscribeEvent {} {}", n.cookie(r.service_cookie.0), r.event),
        Message::EmitEvent(r) => format!("emitEvent {} {} {}", n.cookie(r.service_cookie.0), r.event, val(&r.value)),
        Message::QueryServiceVersion(r) => format!("queryServiceVersion {} {}", r.serial, n.cookie(r.cookie.0)),
        Message::QueryServiceInfo(r) => format!("queryServiceInfo {} {}", r.serial, n.cookie(r.cookie.0)),
        Message::SubscribeService(r) => format!("subscribeService {} {}", r.serial, n.cookie(r.service_cookie.0)),
        Message::UnsubscribeService(r) => format!("unsubscribeService {}", n.cookie(r.service_cookie.0)),
        Message::SubscribeAllEvents(r) => format!("subscribeAllEvents {} {}", opt(&r.serial, |s| s.to_string()), n.cookie(r.service_cookie.0)),
        Message::UnsubscribeAllEvents(r) => format!("unsubscribeAllEvents {} {}", opt(&r.serial, |s| s.to_string()), n.cookie(r.service_cookie.0)),
        Message::CreateChannel(r) => match r.end {
            ChannelEndWithCapacity::Sender => format!("createChannel {} snd 0", r.serial),
            ChannelEndWithCapacity::Receiver(c) => format!("createChannel {} rcv {}", r.serial, c),
        },
        Message::CloseChannelEnd(r) => format!("closeChannelEnd {} {} {}", r.serial, n.cookie(r.cookie.0), end_name(r.end)),
        Message::ClaimChannelEnd(r) => match r.end {
            ChannelEndWithCapacity::Sender => format!("claimChannelEnd {} {} snd 0", r.serial, n.cookie(r.cookie.0)),
            ChannelEndWithCapacity::Receiver(c) => format!("claimChannelEnd {} {} rcv {}", r.serial, n.cookie(r.cookie.0), c),
        },
        Message::SendItem(r) => format!("sendItem {} {}", n.cookie(r.cookie.0), val(&r.value)),
        Message::AddChannelCapacity(r) => format!("addChannelCapacity {} {}", n.cookie(r.cookie.0), r.capacity),
        Message::Sync(r) => format!("sync {}", r.serial),
        Message::CreateBusListener(r) => format!("createBusListener {}", r.serial),
        Message::DestroyBusListener(r) => format!("destroyBusListener {} {}", r.serial, n.cookie(r.cookie.0)),
        Message::AddBusListenerFilter(r) => format!("addFilter {} {}", n.cookie(r.cookie.0), filter_text(&r.filter)),
        Message::RemoveBusListenerFilter(r) => format!("removeFilter {} {}", n.cookie(r.cookie.0), filter_text(&r.filter)),
        Message::ClearBusListenerFilters(r) => format!("clearFilters {}", n.cookie(r.cookie.0)),
        Message::StartBusListener(r) => format!("startBusListener {} {} {}", r.serial, n.cookie(r.cookie.0), match r.scope {
            BusListenerScope::Current => "current",
            BusListenerScope::New => "new",
            BusListenerScope::All => "all",
        }),
        Message::StopBusListener(r) => format!("stopBusListener {} {}", r.serial, n.cookie(r.cookie.0)),
        Message::RegisterIntrospection(_) => "registerIntrospection bad".into(),
        Message::QueryIntrospection(r) => format!("queryIntrospection {} {}", r.serial, uuid_name(r.type_id.0)),
        Message::QueryIntrospectionReply(r) => format!("queryIntrospectionReply {} {}", r.serial, match &r.result {
            QueryIntrospectionResult::Ok(v) => val(v),
            QueryIntrospectionResult::Unavailable => "-".into(),
        }),
        Message::Shutdown(_) => "other 2".into(),
        other => format!("other {}", other.kind() as u8),
    }
}
