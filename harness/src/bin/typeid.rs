//! Correspondence + oracle harness for introspection type ids (C20).
//!
//! Random type graphs (up to 8 types: structs, enums, newtypes, services, generic built-ins, with
//! cycles through custom types) are turned into real `LayoutIr`s through the public builders and
//! exposed to `TypeId::compute_from_dyn` through const-generic node types reading a thread-local
//! table. Each request line carries the graph in a generic text form obtained from the IR's
//! accessors (docs included); the Lean model answers with the id it computes.
//!
//! Usage: typeid <outdir> <seed> <cases>

use aldrin_core::introspection::ir::{
    ArrayTypeIr, BuiltInTypeIr, EnumFallbackIr, EnumIr, EventFallbackIr, EventIr, FieldIr,
    FunctionFallbackIr, FunctionIr, LayoutIr, MapTypeIr, NewtypeIr, ResultTypeIr, ServiceIr,
    StructFallbackIr, StructIr, VariantIr,
};
use aldrin_core::introspection::{DynIntrospectable, Introspectable, Introspection, LexicalId, References};
use aldrin_core::{SerializedValue, ServiceUuid, TypeId};
use std::cell::RefCell;
use std::collections::BTreeMap;
use std::fmt::Write as _;
use std::fs::File;
use std::io::{BufWriter, Write};
use std::panic::{catch_unwind, AssertUnwindSafe};
use uuid::Uuid;
use verif_harness::{hex, Rng};

const MAXN: usize = 8;

// ------------------------------------------------------------------------------------------------
// specification of a type graph (what the generator chooses)

#[derive(Clone, Debug, PartialEq)]
enum TyRef {
    Prim(usize),
    Node(usize),
}

#[derive(Clone, Debug, PartialEq)]
struct Member {
    id: u32,
    name: String,
    doc: Option<String>,
    required: bool,
    ty: Option<TyRef>,
    ty2: Option<TyRef>,
    ty3: Option<TyRef>,
}

#[derive(Clone, Debug, PartialEq)]
enum Kind {
    Struct,
    Enum,
    Newtype,
    Service,
    BOption,
    BBox,
    BVec,
    BSet,
    BSender,
    BReceiver,
    BMap,
    BResult,
    BArray(u32),
}

#[derive(Clone, Debug, PartialEq)]
struct Spec {
    kind: Kind,
    schema: String,
    name: String,
    doc: Option<String>,
    members: Vec<Member>,  // fields / variants / functions
    events: Vec<Member>,   // services only
    fallback: Option<(String, Option<String>)>,
    fallback2: Option<(String, Option<String>)>, // services: event fallback
    uuid: u128,
    version: u32,
    target: Option<TyRef>,  // newtype target, generic argument
    target2: Option<TyRef>, // map value / result err
}

const PRIMS: [LexicalId; 8] = [
    LexicalId::BOOL, LexicalId::U8, LexicalId::U32, LexicalId::I64, LexicalId::STRING, LexicalId::UUID, LexicalId::BYTES, LexicalId::UNIT,
];

fn lex_of(g: &[Spec], r: &TyRef) -> LexicalId {
    match r {
        TyRef::Prim(i) => PRIMS[*i % PRIMS.len()],
        TyRef::Node(i) => node_lex(g, *i),
    }
}

fn node_lex(g: &[Spec], i: usize) -> LexicalId {
    let s = &g[i];
    let t = |r: &Option<TyRef>| lex_of(g, r.as_ref().unwrap());
    match s.kind {
        Kind::Struct | Kind::Enum | Kind::Newtype => LexicalId::custom(&s.schema, &s.name),
        Kind::Service => LexicalId::service(&s.schema, &s.name),
        Kind::BOption => LexicalId::option(t(&s.target)),
        Kind::BBox => LexicalId::box_ty(t(&s.target)),
        Kind::BVec => LexicalId::vec(t(&s.target)),
        Kind::BSet => LexicalId::set(t(&s.target)),
        Kind::BSender => LexicalId::sender(t(&s.target)),
        Kind::BReceiver => LexicalId::receiver(t(&s.target)),
        Kind::BMap => LexicalId::map(t(&s.target), t(&s.target2)),
        Kind::BResult => LexicalId::result(t(&s.target), t(&s.target2)),
        Kind::BArray(n) => LexicalId::array(t(&s.target), n),
    }
}

/// indices a node refers to, in declaration order
fn edges(s: &Spec) -> Vec<usize> {
    let mut out = vec![];
    let mut push = |r: &Option<TyRef>| match r {
        Some(TyRef::Node(i)) => out.push(*i),
        Some(TyRef::Prim(p)) => out.push(1000 + *p % PRIMS.len()),
        None => {}
    };
    // only what the layout of this kind actually mentions (a type reports exactly the types its layout names)
    match s.kind {
        Kind::Struct | Kind::Enum | Kind::Service => {}
        Kind::BMap | Kind::BResult => {
            push(&s.target);
            push(&s.target2);
        }
        _ => push(&s.target),
    }
    for m in s.members.iter().chain(s.events.iter()) {
        push(&m.ty);
        push(&m.ty2);
        push(&m.ty3);
    }
    out
}

/// Build the real IR. `order` permutes the builder calls, `docs` = keep the documentation strings.
fn layout_of(g: &[Spec], i: usize, rng: &mut Rng, shuffle: bool) -> LayoutIr {
    let s = &g[i];
    let t = |r: &Option<TyRef>| lex_of(g, r.as_ref().unwrap());
    let mut members: Vec<&Member> = s.members.iter().collect();
    let mut events: Vec<&Member> = s.events.iter().collect();
    if shuffle {
        for k in (1..members.len()).rev() {
            members.swap(k, rng.below(k as u64 + 1) as usize);
        }
        for k in (1..events.len()).rev() {
            events.swap(k, rng.below(k as u64 + 1) as usize);
        }
    }
    match &s.kind {
        Kind::Struct => {
            let mut b = StructIr::builder(&s.schema, &s.name);
            if let Some(d) = &s.doc {
                b = b.doc(d);
            }
            for m in members {
                let mut f = FieldIr::builder(m.id, &m.name, m.required, lex_of(g, m.ty.as_ref().unwrap()));
                if let Some(d) = &m.doc {
                    f = f.doc(d);
                }
                b = b.field(f.finish());
            }
            if let Some((n, d)) = &s.fallback {
                let mut f = StructFallbackIr::builder(n);
                if let Some(d) = d {
                    f = f.doc(d);
                }
                b = b.fallback(f.finish());
            }
            b.finish().into()
        }
        Kind::Enum => {
            let mut b = EnumIr::builder(&s.schema, &s.name);
            if let Some(d) = &s.doc {
                b = b.doc(d);
            }
            for m in members {
                let mut v = VariantIr::builder(m.id, &m.name);
                if let Some(d) = &m.doc {
                    v = v.doc(d);
                }
                if let Some(ty) = &m.ty {
                    v = v.variant_type(lex_of(g, ty));
                }
                b = b.variant(v.finish());
            }
            if let Some((n, d)) = &s.fallback {
                let mut f = EnumFallbackIr::builder(n);
                if let Some(d) = d {
                    f = f.doc(d);
                }
                b = b.fallback(f.finish());
            }
            b.finish().into()
        }
        Kind::Newtype => {
            let mut b = NewtypeIr::builder(&s.schema, &s.name, t(&s.target));
            if let Some(d) = &s.doc {
                b = b.doc(d);
            }
            b.finish().into()
        }
        Kind::Service => {
            let mut b = ServiceIr::builder(&s.schema, &s.name, ServiceUuid(Uuid::from_u128(s.uuid)), s.version);
            if let Some(d) = &s.doc {
                b = b.doc(d);
            }
            for m in members {
                let mut f = FunctionIr::builder(m.id, &m.name);
                if let Some(d) = &m.doc {
                    f = f.doc(d);
                }
                if let Some(ty) = &m.ty {
                    f = f.args(lex_of(g, ty));
                }
                if let Some(ty) = &m.ty2 {
                    f = f.ok(lex_of(g, ty));
                }
                if let Some(ty) = &m.ty3 {
                    f = f.err(lex_of(g, ty));
                }
                b = b.function(f.finish());
            }
            for m in events {
                let mut e = EventIr::builder(m.id, &m.name);
                if let Some(d) = &m.doc {
                    e = e.doc(d);
                }
                if let Some(ty) = &m.ty {
                    e = e.event_type(lex_of(g, ty));
                }
                b = b.event(e.finish());
            }
            if let Some((n, d)) = &s.fallback {
                let mut f = FunctionFallbackIr::builder(n);
                if let Some(d) = d {
                    f = f.doc(d);
                }
                b = b.function_fallback(f.finish());
            }
            if let Some((n, d)) = &s.fallback2 {
                let mut f = EventFallbackIr::builder(n);
                if let Some(d) = d {
                    f = f.doc(d);
                }
                b = b.event_fallback(f.finish());
            }
            b.finish().into()
        }
        Kind::BOption => BuiltInTypeIr::Option(t(&s.target)).into(),
        Kind::BBox => BuiltInTypeIr::Box(t(&s.target)).into(),
        Kind::BVec => BuiltInTypeIr::Vec(t(&s.target)).into(),
        Kind::BSet => BuiltInTypeIr::Set(t(&s.target)).into(),
        Kind::BSender => BuiltInTypeIr::Sender(t(&s.target)).into(),
        Kind::BReceiver => BuiltInTypeIr::Receiver(t(&s.target)).into(),
        Kind::BMap => BuiltInTypeIr::Map(MapTypeIr::new(t(&s.target), t(&s.target2))).into(),
        Kind::BResult => BuiltInTypeIr::Result(ResultTypeIr::new(t(&s.target), t(&s.target2))).into(),
        Kind::BArray(n) => BuiltInTypeIr::Array(ArrayTypeIr::new(t(&s.target), *n)).into(),
    }
}

// ------------------------------------------------------------------------------------------------
// the table the const-generic node types read

#[derive(Clone)]
struct Entry {
    layout: LayoutIr,
    lexical_id: LexicalId,
    refs: Vec<usize>,
}

thread_local! {
    static TABLE: RefCell<Vec<Entry>> = const { RefCell::new(Vec::new()) };
}

struct N<const I: usize>;

fn add_node(i: usize, refs: &mut References) {
    match i {
        1000 => refs.add::<bool>(),
        1001 => refs.add::<u8>(),
        1002 => refs.add::<u32>(),
        1003 => refs.add::<i64>(),
        1004 => refs.add::<String>(),
        1005 => refs.add::<Uuid>(),
        1006 => refs.add::<aldrin_core::Bytes>(),
        1007 => refs.add::<()>(),
        0 => refs.add::<N<0>>(),
        1 => refs.add::<N<1>>(),
        2 => refs.add::<N<2>>(),
        3 => refs.add::<N<3>>(),
        4 => refs.add::<N<4>>(),
        5 => refs.add::<N<5>>(),
        6 => refs.add::<N<6>>(),
        7 => refs.add::<N<7>>(),
        _ => unreachable!(),
    }
}

fn dyn_node(i: usize) -> DynIntrospectable {
    match i {
        0 => DynIntrospectable::new::<N<0>>(),
        1 => DynIntrospectable::new::<N<1>>(),
        2 => DynIntrospectable::new::<N<2>>(),
        3 => DynIntrospectable::new::<N<3>>(),
        4 => DynIntrospectable::new::<N<4>>(),
        5 => DynIntrospectable::new::<N<5>>(),
        6 => DynIntrospectable::new::<N<6>>(),
        7 => DynIntrospectable::new::<N<7>>(),
        _ => unreachable!(),
    }
}

impl<const I: usize> Introspectable for N<I> {
    fn layout() -> LayoutIr {
        TABLE.with(|t| t.borrow()[I].layout.clone())
    }
    fn lexical_id() -> LexicalId {
        TABLE.with(|t| t.borrow()[I].lexical_id)
    }
    fn add_references(references: &mut References) {
        let refs = TABLE.with(|t| t.borrow()[I].refs.clone());
        for r in refs {
            add_node(r, references);
        }
    }
}

fn install(g: &[Spec], rng: &mut Rng, shuffle: bool) -> Vec<Entry> {
    let mut table = vec![];
    for i in 0..g.len() {
        let mut refs = edges(&g[i]);
        if shuffle {
            for k in (1..refs.len()).rev() {
                refs.swap(k, rng.below(k as u64 + 1) as usize);
            }
            if !refs.is_empty() && rng.chance(1, 3) {
                let d = refs[rng.below(refs.len() as u64) as usize];
                refs.push(d); // a reference reported twice
            }
        }
        table.push(Entry { layout: layout_of(g, i, rng, shuffle), lexical_id: node_lex(g, i), refs });
    }
    TABLE.with(|t| *t.borrow_mut() = table.clone());
    table
}

/// every lexical id a layout names
fn mentioned(l: &LayoutIr) -> std::collections::BTreeSet<LexicalId> {
    let mut out = std::collections::BTreeSet::new();
    match l {
        LayoutIr::BuiltIn(b) => match b {
            BuiltInTypeIr::Option(t) | BuiltInTypeIr::Box(t) | BuiltInTypeIr::Vec(t) | BuiltInTypeIr::Set(t)
            | BuiltInTypeIr::Sender(t) | BuiltInTypeIr::Receiver(t) => { out.insert(*t); }
            BuiltInTypeIr::Map(m) => { out.insert(m.key()); out.insert(m.value()); }
            BuiltInTypeIr::Result(r) => { out.insert(r.ok()); out.insert(r.err()); }
            BuiltInTypeIr::Array(a) => { out.insert(a.elem_type()); }
            _ => {}
        },
        LayoutIr::Struct(s) => { for f in s.fields().values() { out.insert(f.field_type()); } }
        LayoutIr::Enum(e) => { for v in e.variants().values() { if let Some(t) = v.variant_type() { out.insert(t); } } }
        LayoutIr::Service(s) => {
            for f in s.functions().values() { for t in [f.args(), f.ok(), f.err()].into_iter().flatten() { out.insert(t); } }
            for e in s.events().values() { if let Some(t) = e.event_type() { out.insert(t); } }
        }
        LayoutIr::Newtype(n) => { out.insert(n.target_type()); }
    }
    out
}

/// implementation-only oracle: a type reports (through `add_references`) exactly the types its layout names,
/// so that the closure follows every reference and an `Introspection` record's references resolve
fn refs_match_layout<T: Introspectable + ?Sized>() -> Result<(), String> {
    let layout = T::layout();
    let mut v = Vec::new();
    T::add_references(&mut References::new(&mut v));
    let got: std::collections::BTreeSet<LexicalId> = v.iter().map(|d| d.lexical_id()).collect();
    let want = mentioned(&layout);
    if got == want { Ok(()) } else { Err(format!("layout names {:?} but add_references reports {:?}", want, got)) }
}

macro_rules! with_node {
    ($i:expr, $f:ident, $($wrap:tt)*) => {
        match $i {
            0 => $f::<with_node!(@ty 0, $($wrap)*)>(), 1 => $f::<with_node!(@ty 1, $($wrap)*)>(),
            2 => $f::<with_node!(@ty 2, $($wrap)*)>(), 3 => $f::<with_node!(@ty 3, $($wrap)*)>(),
            4 => $f::<with_node!(@ty 4, $($wrap)*)>(), 5 => $f::<with_node!(@ty 5, $($wrap)*)>(),
            6 => $f::<with_node!(@ty 6, $($wrap)*)>(), _ => $f::<with_node!(@ty 7, $($wrap)*)>(),
        }
    };
    (@ty $i:literal, option) => { Option<N<$i>> };
    (@ty $i:literal, vec) => { Vec<N<$i>> };
    (@ty $i:literal, boxed) => { Box<N<$i>> };
    (@ty $i:literal, map) => { HashMap<u32, N<$i>> };
    (@ty $i:literal, btree) => { BTreeMap<String, N<$i>> };
    (@ty $i:literal, array) => { [N<$i>; 3] };
    (@ty $i:literal, res_ok) => { Result<N<$i>, String> };
    (@ty $i:literal, res_err) => { Result<u32, N<$i>> };
    (@ty $i:literal, res_both) => { Result<Option<N<$i>>, Vec<N<$i>>> };
}

/// the standard generic types of aldrin-core over a node type
fn real_generic_impls(i: usize) -> Vec<(&'static str, Result<(), String>)> {
    use std::collections::HashMap;
    vec![
        ("Option<T>", with_node!(i, refs_match_layout, option)),
        ("Vec<T>", with_node!(i, refs_match_layout, vec)),
        ("Box<T>", with_node!(i, refs_match_layout, boxed)),
        ("HashMap<u32, T>", with_node!(i, refs_match_layout, map)),
        ("BTreeMap<String, T>", with_node!(i, refs_match_layout, btree)),
        ("[T; 3]", with_node!(i, refs_match_layout, array)),
        ("Result<T, String>", with_node!(i, refs_match_layout, res_ok)),
        ("Result<u32, T>", with_node!(i, refs_match_layout, res_err)),
        ("Result<Option<T>, Vec<T>>", with_node!(i, refs_match_layout, res_both)),
    ]
}

fn compute(root: usize) -> TypeId {
    TypeId::compute_from_dyn(dyn_node(root))
}

// ------------------------------------------------------------------------------------------------
// generic text form of the real IR (through its accessors; independent of its Serialize impls)

fn s_hex(s: &str) -> String {
    let mut o = String::from("S");
    for b in s.as_bytes() {
        write!(o, "{:02x}", b).unwrap();
    }
    o
}
fn doc_ir(d: Option<&str>) -> String {
    match d {
        Some(d) => format!("J({})", s_hex(d)),
        None => "N".into(),
    }
}
fn lex_ir(l: LexicalId) -> String {
    format!("I{}", hex(l.0.as_bytes()))
}
fn opt_lex_ir(l: Option<LexicalId>) -> String {
    match l {
        Some(l) => format!("J({})", lex_ir(l)),
        None => "N".into(),
    }
}
fn fallback_ir(ty: &str, f: Option<(&str, Option<&str>)>) -> String {
    match f {
        Some((n, d)) => format!("J(R{}{{name={},doc={}}})", ty, s_hex(n), doc_ir(d)),
        None => "N".into(),
    }
}

fn layout_ir(l: &LayoutIr) -> String {
    match l {
        LayoutIr::BuiltIn(b) => {
            let (v, p): (u32, String) = match b {
                BuiltInTypeIr::Bool => (0, "N".into()),
                BuiltInTypeIr::U8 => (1, "N".into()),
                BuiltInTypeIr::I8 => (2, "N".into()),
                BuiltInTypeIr::U16 => (3, "N".into()),
                BuiltInTypeIr::I16 => (4, "N".into()),
                BuiltInTypeIr::U32 => (5, "N".into()),
                BuiltInTypeIr::I32 => (6, "N".into()),
                BuiltInTypeIr::U64 => (7, "N".into()),
                BuiltInTypeIr::I64 => (8, "N".into()),
                BuiltInTypeIr::F32 => (9, "N".into()),
                BuiltInTypeIr::F64 => (10, "N".into()),
                BuiltInTypeIr::String => (11, "N".into()),
                BuiltInTypeIr::Uuid => (12, "N".into()),
                BuiltInTypeIr::ObjectId => (13, "N".into()),
                BuiltInTypeIr::ServiceId => (14, "N".into()),
                BuiltInTypeIr::Value => (15, "N".into()),
                BuiltInTypeIr::Option(t) => (16, lex_ir(*t)),
                BuiltInTypeIr::Box(t) => (17, lex_ir(*t)),
                BuiltInTypeIr::Vec(t) => (18, lex_ir(*t)),
                BuiltInTypeIr::Bytes => (19, "N".into()),
                BuiltInTypeIr::Map(m) => (20, format!("RMapTypeIr{{key={},value={}}}", lex_ir(m.key()), lex_ir(m.value()))),
                BuiltInTypeIr::Set(t) => (21, lex_ir(*t)),
                BuiltInTypeIr::Sender(t) => (22, lex_ir(*t)),
                BuiltInTypeIr::Receiver(t) => (23, lex_ir(*t)),
                BuiltInTypeIr::Lifetime => (24, "N".into()),
                BuiltInTypeIr::Unit => (25, "N".into()),
                BuiltInTypeIr::Result(r) => (26, format!("RResultTypeIr{{ok={},err={}}}", lex_ir(r.ok()), lex_ir(r.err()))),
                BuiltInTypeIr::Array(a) => (27, format!("RArrayTypeIr{{elem_type={},len=U{}}}", lex_ir(a.elem_type()), a.len())),
            };
            format!("E0(E{}({}))", v, p)
        }
        LayoutIr::Struct(s) => {
            let fields: Vec<String> = s.fields().iter().map(|(k, f)| {
                format!("{}:RFieldIr{{id=U{},name={},doc={},is_required=B{},field_type={}}}", k, f.id(), s_hex(f.name()), doc_ir(f.doc()),
                        if f.is_required() { 1 } else { 0 }, lex_ir(f.field_type()))
            }).collect();
            format!("E1(RStructIr{{schema={},name={},doc={},fields=M[{}],fallback={}}})", s_hex(s.schema()), s_hex(s.name()), doc_ir(s.doc()),
                    fields.join(","), fallback_ir("StructFallbackIr", s.fallback().map(|f| (f.name(), f.doc()))))
        }
        LayoutIr::Enum(e) => {
            let vars: Vec<String> = e.variants().iter().map(|(k, v)| {
                format!("{}:RVariantIr{{id=U{},name={},doc={},variant_type={}}}", k, v.id(), s_hex(v.name()), doc_ir(v.doc()), opt_lex_ir(v.variant_type()))
            }).collect();
            format!("E2(REnumIr{{schema={},name={},doc={},variants=M[{}],fallback={}}})", s_hex(e.schema()), s_hex(e.name()), doc_ir(e.doc()),
                    vars.join(","), fallback_ir("EnumFallbackIr", e.fallback().map(|f| (f.name(), f.doc()))))
        }
        LayoutIr::Service(s) => {
            let fns: Vec<String> = s.functions().iter().map(|(k, f)| {
                format!("{}:RFunctionIr{{id=U{},name={},doc={},args={},ok={},err={}}}", k, f.id(), s_hex(f.name()), doc_ir(f.doc()),
                        opt_lex_ir(f.args()), opt_lex_ir(f.ok()), opt_lex_ir(f.err()))
            }).collect();
            let evs: Vec<String> = s.events().iter().map(|(k, e)| {
                format!("{}:REventIr{{id=U{},name={},doc={},event_type={}}}", k, e.id(), s_hex(e.name()), doc_ir(e.doc()), opt_lex_ir(e.event_type()))
            }).collect();
            format!("E3(RServiceIr{{schema={},name={},doc={},uuid=I{},version=U{},functions=M[{}],events=M[{}],function_fallback={},event_fallback={}}})",
                    s_hex(s.schema()), s_hex(s.name()), doc_ir(s.doc()), hex(s.uuid().0.as_bytes()), s.version(), fns.join(","), evs.join(","),
                    fallback_ir("FunctionFallbackIr", s.function_fallback().map(|f| (f.name(), f.doc()))),
                    fallback_ir("EventFallbackIr", s.event_fallback().map(|f| (f.name(), f.doc()))))
        }
        LayoutIr::Newtype(n) => format!("E4(RNewtypeIr{{schema={},name={},doc={},target_type={}}})", s_hex(n.schema()), s_hex(n.name()), doc_ir(n.doc()), lex_ir(n.target_type())),
    }
}

// ------------------------------------------------------------------------------------------------
// generator

fn ident(rng: &mut Rng, pool: &[&str]) -> String {
    let mut s = rng.pick(pool).to_string();
    if rng.chance(1, 4) {
        write!(s, "{}", rng.below(3)).unwrap();
    }
    s
}

fn doc(rng: &mut Rng) -> Option<String> {
    match rng.below(4) {
        0 => None,
        1 => Some(String::new()),
        2 => Some("doc \"quoted\"\nsecond line".into()),
        _ => Some(format!("text {} \u{00e4}\u{20ac}", rng.below(100))),
    }
}

fn tyref(rng: &mut Rng, n: usize, allowed: &dyn Fn(usize) -> bool) -> TyRef {
    if rng.chance(1, 3) {
        return TyRef::Prim(rng.below(PRIMS.len() as u64) as usize);
    }
    let cands: Vec<usize> = (0..n).filter(|&j| allowed(j)).collect();
    if cands.is_empty() {
        TyRef::Prim(rng.below(PRIMS.len() as u64) as usize)
    } else {
        TyRef::Node(*rng.pick(&cands))
    }
}

fn members(rng: &mut Rng, n: usize, optional_ty: bool, three: bool) -> Vec<Member> {
    let count = rng.below(5) as usize;
    let mut out: Vec<Member> = vec![];
    let any = |_: usize| true;
    for _ in 0..count {
        let id = *rng.pick(&[0u32, 1, 2, 3, 7, 250, 251, 252, 65536, u32::MAX]);
        if out.iter().any(|m| m.id == id) {
            continue;
        }
        let t = |rng: &mut Rng| if optional_ty && rng.chance(1, 3) { None } else { Some(tyref(rng, n, &any)) };
        out.push(Member { id, name: ident(rng, &["a", "b", "value", "kind", "get", "set_x"]), doc: doc(rng), required: rng.chance(1, 2),
                          ty: if optional_ty { t(rng) } else { Some(tyref(rng, n, &any)) },
                          ty2: if three { t(rng) } else { None }, ty3: if three { t(rng) } else { None } });
    }
    out
}

fn gen_graph(rng: &mut Rng) -> Vec<Spec> {
    let n = 1 + rng.below(MAXN as u64) as usize;
    let mut kinds = vec![];
    for _ in 0..n {
        kinds.push(match rng.below(13) {
            0 | 1 | 2 => Kind::Struct,
            3 | 4 => Kind::Enum,
            5 => Kind::Newtype,
            6 => Kind::Service,
            7 => Kind::BOption,
            8 => Kind::BVec,
            9 => Kind::BMap,
            10 => Kind::BResult,
            11 => Kind::BArray(*rng.pick(&[0u32, 1, 3, 256, u32::MAX])),
            _ => rng.pick(&[Kind::BBox, Kind::BSet, Kind::BSender, Kind::BReceiver]).clone(),
        }.clone());
    }
    let custom = |k: &Kind| matches!(k, Kind::Struct | Kind::Enum | Kind::Newtype | Kind::Service);
    let mut g = vec![];
    for i in 0..n {
        let k = kinds[i].clone();
        // built-in generics may only point at custom types or at earlier built-ins (their lexical ids are
        // computed from the argument's id, so they cannot be part of a cycle of built-ins)
        let kinds2 = kinds.clone();
        let allowed = move |j: usize| custom(&kinds2[j]) || j < i;
        let is_custom = custom(&k);
        let any = |_: usize| true;
        let schema = ident(rng, &["s", "test", "a_b"]);
        // distinct custom types need distinct (schema, name)
        let name = format!("{}{}", ident(rng, &["T", "Foo", "Svc"]), i);
        let spec = Spec {
            kind: k.clone(),
            schema,
            name,
            doc: doc(rng),
            members: match k {
                Kind::Struct => members(rng, n, false, false),
                Kind::Enum => members(rng, n, true, false),
                Kind::Service => members(rng, n, true, true),
                _ => vec![],
            },
            events: if k == Kind::Service { members(rng, n, true, false) } else { vec![] },
            fallback: if rng.chance(1, 3) { Some((ident(rng, &["other", "unknown"]), doc(rng))) } else { None },
            fallback2: if rng.chance(1, 3) { Some((ident(rng, &["other", "unknown"]), doc(rng))) } else { None },
            uuid: rng.next() as u128 * 0x1_0000_0001u128,
            version: rng.below(4) as u32,
            target: Some(if is_custom { tyref(rng, n, &any) } else { tyref(rng, n, &allowed) }),
            target2: Some(if is_custom { tyref(rng, n, &any) } else { tyref(rng, n, &allowed) }),
        };
        g.push(spec);
    }
    g
}

/// One semantic edit of node `i` that must change the ids of `i` and of everything that references it.
fn semantic_edit(rng: &mut Rng, g: &mut [Spec], i: usize) -> Option<String> {
    let n = g.len();
    let s = &mut g[i];
    let custom = matches!(s.kind, Kind::Struct | Kind::Enum | Kind::Newtype | Kind::Service);
    let choice = rng.below(9);
    match choice {
        0 if custom => { s.name.push('x'); Some("type name".into()) }
        1 if custom => { s.schema.push('x'); Some("schema name".into()) }
        2 if !s.members.is_empty() => { let k = rng.below(s.members.len() as u64) as usize; s.members[k].name.push('x'); Some("member name".into()) }
        3 if !s.members.is_empty() => {
            let k = rng.below(s.members.len() as u64) as usize;
            let new_id = s.members[k].id.wrapping_add(11);
            if s.members.iter().any(|m| m.id == new_id) { return None; }
            s.members[k].id = new_id;
            Some("member id".into())
        }
        4 if s.kind == Kind::Struct && !s.members.is_empty() => { let k = rng.below(s.members.len() as u64) as usize; s.members[k].required ^= true; Some("required flag".into()) }
        5 if custom && s.kind != Kind::Newtype => {
            match &s.fallback { Some(_) => s.fallback = None, None => s.fallback = Some(("fb".into(), None)) }
            Some("fallback".into())
        }
        6 if s.kind == Kind::Struct => {
            let id = 4242;
            if s.members.iter().any(|m| m.id == id) { return None; }
            s.members.push(Member { id, name: "added".into(), doc: None, required: false, ty: Some(TyRef::Prim(2)), ty2: None, ty3: None });
            Some("added field".into())
        }
        7 if s.kind == Kind::Service => { s.version += 1; Some("service version".into()) }
        8 if !s.members.is_empty() => {
            let k = rng.below(s.members.len() as u64) as usize;
            let old = s.members[k].ty.clone();
            let new = Some(TyRef::Prim(((match &old { Some(TyRef::Prim(p)) => *p, _ => 0 }) + 1) % PRIMS.len()));
            if old == new || n == 0 { return None; }
            s.members[k].ty = new;
            Some("member type".into())
        }
        _ => None,
    }
}

fn reaches(g: &[Spec], from: usize, to: usize) -> bool {
    let mut seen = vec![false; g.len()];
    let mut stack = vec![from];
    while let Some(x) = stack.pop() {
        if x == to {
            return true;
        }
        if seen[x] {
            continue;
        }
        seen[x] = true;
        stack.extend(edges(&g[x]).into_iter().filter(|e| *e < 1000));
    }
    false
}

struct Out {
    req: BufWriter<File>,
    rust: BufWriter<File>,
    oracle: BufWriter<File>,
    lines: usize,
    fails: usize,
    dist: BTreeMap<String, u64>,
    samples: Vec<String>,
}

impl Out {
    fn fail(&mut self, what: &str, ctx: &str) {
        writeln!(self.oracle, "FAIL C20 line={} {} input={}", self.lines, what, ctx).unwrap();
        self.fails += 1;
    }
    fn count(&mut self, k: &str) {
        *self.dist.entry(k.to_string()).or_insert(0) += 1;
    }
}

fn prim_layouts() -> Vec<LayoutIr> {
    vec![bool::layout(), u8::layout(), u32::layout(), i64::layout(), String::layout(), Uuid::layout(), aldrin_core::Bytes::layout(), <()>::layout()]
}

fn req_line(table: &[Entry], root: usize) -> String {
    let n = table.len();
    let mut s = format!("tid {}", root);
    for e in table {
        let refs: Vec<String> = e.refs.iter().map(|r| if *r >= 1000 { (n + r - 1000).to_string() } else { r.to_string() }).collect();
        write!(s, " {}->{}", layout_ir(&e.layout), refs.join(",")).unwrap();
    }
    for l in prim_layouts() {
        write!(s, " {}->", layout_ir(&l)).unwrap();
    }
    s
}

fn one_case(out: &mut Out, rng: &mut Rng) {
    let g = gen_graph(rng);
    let root = rng.below(g.len() as u64) as usize;
    // 1. plain computation + correspondence line
    let table = install(&g, rng, false);
    let id = compute(root);
    let line = req_line(&table, root);
    writeln!(out.req, "{}", line).unwrap();
    writeln!(out.rust, "{}", hex(id.0.as_bytes())).unwrap();
    out.lines += 1;
    out.count(&format!("nodes.{}", g.len()));
    out.count(&format!("root.{:?}", g[root].kind).split('(').next().unwrap().to_string());
    if out.samples.len() < 6 && out.lines % 97 == 3 {
        out.samples.push(format!("{} => {}", &line[..line.len().min(300)], hex(id.0.as_bytes())));
    }
    // 2. invariance: documentation, builder call order, order and multiplicity of reported references
    let mut g2 = g.clone();
    for s in g2.iter_mut() {
        s.doc = doc(rng);
        for m in s.members.iter_mut().chain(s.events.iter_mut()) {
            m.doc = doc(rng);
        }
        if let Some(f) = s.fallback.as_mut() {
            f.1 = doc(rng);
        }
        if let Some(f) = s.fallback2.as_mut() {
            f.1 = doc(rng);
        }
    }
    let table2 = install(&g2, rng, true);
    let id2 = compute(root);
    let line2 = req_line(&table2, root);
    writeln!(out.req, "{}", line2).unwrap();
    writeln!(out.rust, "{}", hex(id2.0.as_bytes())).unwrap();
    out.lines += 1;
    if id2 != id {
        out.fail("id changed although only docs / declaration order / reference order changed", &line2);
    }
    out.count("invariance.checked");
    // 3. sensitivity: one semantic edit of a node reachable from the root
    let reachable: Vec<usize> = (0..g.len()).filter(|&j| j == root || reaches(&g, root, j)).collect();
    let victim = *rng.pick(&reachable);
    let mut g3 = g.clone();
    if let Some(what) = semantic_edit(rng, &mut g3, victim) {
        // renaming a custom type changes its lexical id; references to it follow (they are TyRef::Node)
        let table3 = install(&g3, rng, false);
        let id3 = compute(root);
        let line3 = req_line(&table3, root);
        writeln!(out.req, "{}", line3).unwrap();
        writeln!(out.rust, "{}", hex(id3.0.as_bytes())).unwrap();
        out.lines += 1;
        if id3 == id {
            out.fail(&format!("id unchanged after a semantic edit ({}) of a reachable type", what), &line3);
        }
        out.count(&format!("edit.{}", what.replace(' ', "_")));
    }
    // 4. the introspection record round-trips and its references resolve
    install(&g, rng, false);
    let intro = Introspection::from_dyn(dyn_node(root));
    if intro.type_id() != id {
        out.fail("Introspection::type_id differs from TypeId::compute", &line);
    }
    match SerializedValue::serialize(&intro).and_then(|sv| sv.deserialize::<Introspection>().map_err(|_| aldrin_core::SerializeError::Overflow)) {
        Ok(back) => {
            if back.type_id() != intro.type_id() || back.layout() != intro.layout() || back.references() != intro.references() {
                out.fail("introspection record changed in a serialize/deserialize cycle", &line);
            }
        }
        Err(_) => out.fail("introspection record does not serialize/deserialize", &line),
    }
    out.count("record.roundtrip");
    // 5. the standard generic impls report exactly what their layouts name
    for (name, r) in real_generic_impls(root) {
        if let Err(e) = r {
            out.fail(&format!("{}: {}", name, e), &line);
        }
    }
    out.count("generic_impls.checked");
}

fn main() {
    let args: Vec<String> = std::env::args().collect();
    if args.len() < 4 {
        eprintln!("usage: typeid <outdir> <seed> <cases>");
        std::process::exit(2);
    }
    let outdir = &args[1];
    let seed: u64 = args[2].parse().expect("seed");
    let cases: u64 = args[3].parse().expect("cases");
    std::fs::create_dir_all(outdir).unwrap();
    let mk = |n: &str| BufWriter::new(File::create(format!("{}/{}", outdir, n)).unwrap());
    let mut out = Out { req: mk("req.txt"), rust: mk("rust.txt"), oracle: mk("oracle.txt"), lines: 0, fails: 0, dist: BTreeMap::new(), samples: vec![] };
    let mut rng = Rng::new(seed);
    for _ in 0..cases {
        let mut r = rng.fork();
        if catch_unwind(AssertUnwindSafe(|| one_case(&mut out, &mut r))).is_err() {
            out.fail("panic while computing a type id", "-");
        }
    }
    out.req.flush().unwrap();
    out.rust.flush().unwrap();
    out.oracle.flush().unwrap();
    let mut stats = String::from("{\n");
    write!(stats, "  \"lines\": {},\n  \"oracle_fails\": {},\n  \"cases\": {},\n", out.lines, out.fails, cases).unwrap();
    write!(stats, "  \"samples\": [{}],\n", out.samples.iter().map(|s| format!("{:?}", s)).collect::<Vec<_>>().join(", ")).unwrap();
    write!(stats, "  \"distribution\": {{{}}}\n}}\n", out.dist.iter().map(|(k, v)| format!("{:?}: {}", k, v)).collect::<Vec<_>>().join(", ")).unwrap();
    std::fs::write(format!("{}/stats.json", outdir), stats).unwrap();
}
