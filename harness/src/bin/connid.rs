//! Correspondence and oracle harness for the allocator of connection ids (`broker/src/conn_id.rs`, reached through
//! the `verif-hooks` feature of aldrin-broker): random histories of acquiring ids, cloning them and dropping clones
//! are run on the real allocator; the same history, as `cid a r<n> …`, goes to the Lean model (`Model/ConnId.lean`).
//!
//! Oracle (no model involved): an id that is in use is never returned by `acquire`, and nothing panics.

use aldrin_broker::verif_hooks::{ConnectionIds, HeldConnectionId};
use std::collections::BTreeMap;
use std::fmt::Write as _;
use std::fs::File;
use std::io::{BufWriter, Write};
use std::panic::{catch_unwind, AssertUnwindSafe};
use verif_harness::Rng;

#[derive(Clone, Debug)]
enum Op {
    Acquire,
    /// clone the k-th id in use (the connection handle, the broker's tables and the connection task all hold one)
    Clone(usize),
    /// drop one clone of the k-th id in use
    Drop(usize),
}

/// the fields of the allocator, read off its `Debug` output: `next` and the free list in `Vec` order
fn internals(ids: &ConnectionIds) -> String {
    let d = format!("{:?}", ids);
    let next = d.split("next: ").nth(1).map(|r| r.chars().take_while(|c| c.is_ascii_digit()).collect::<String>()).unwrap_or_default();
    let free = d.split("free: [").nth(1).and_then(|r| r.split(']').next()).unwrap_or("?");
    format!("next={} free={}", next, free.replace(' ', ""))
}

struct CaseResult {
    req: String,
    rust: String,
    fails: Vec<String>,
    acquired: usize,
    released: usize,
    reused: usize,
    max_held: usize,
}

fn run_case(ops: &[Op]) -> CaseResult {
    let ids = ConnectionIds::new();
    // per id in use: its number and every clone that is alive
    let mut held: Vec<(usize, Vec<HeldConnectionId>)> = vec![];
    let mut req = String::from("cid");
    let mut rust: Vec<String> = vec![];
    let mut fails = vec![];
    let (mut acquired, mut released, mut reused, mut max_held) = (0, 0, 0, 0);
    let mut ever: Vec<usize> = vec![];
    let mut panicked = false;
    for op in ops {
        match op {
            Op::Acquire => {
                req.push_str(" a");
                match catch_unwind(AssertUnwindSafe(|| ids.acquire())) {
                    Ok(id) => {
                        let n = id.number();
                        if held.iter().any(|(m, _)| *m == n) {
                            fails.push(format!("acquire returned {} while a connection with that id is alive (ids in use: {:?})", n,
                                held.iter().map(|(m, _)| *m).collect::<Vec<_>>()));
                        }
                        if ever.contains(&n) {
                            reused += 1;
                        }
                        ever.push(n);
                        rust.push(n.to_string());
                        held.push((n, vec![id]));
                        acquired += 1;
                        max_held = max_held.max(held.len());
                    }
                    Err(_) => {
                        fails.push("panic in acquire".into());
                        panicked = true;
                    }
                }
            }
            Op::Clone(k) => {
                if held.is_empty() {
                    continue;
                }
                let k = k % held.len();
                let c = held[k].1[0].clone();
                held[k].1.push(c);
            }
            Op::Drop(k) => {
                if held.is_empty() {
                    continue;
                }
                let k = k % held.len();
                let c = held[k].1.pop().unwrap();
                let last = held[k].1.is_empty();
                let n = held[k].0;
                if last {
                    held.remove(k);
                    write!(req, " r{}", n).unwrap();
                }
                match catch_unwind(AssertUnwindSafe(move || drop(c))) {
                    Ok(()) => {
                        if last {
                            rust.push("-".into());
                            released += 1;
                        }
                    }
                    Err(_) => {
                        fails.push(format!("panic while the id {} was released (a debug_assert! of Inner::release)", n));
                        panicked = true;
                    }
                }
            }
        }
        if panicked {
            break;
        }
    }
    if panicked {
        rust.push("panic".into());
        // the mutex is poisoned now; the ids still alive must not run their Drop
        for (_, v) in held {
            for c in v {
                std::mem::forget(c);
            }
        }
    } else {
        rust.push(internals(&ids));
        // the rest is released here, one clone at a time, so that a failing assertion is caught as well
        let mut rest: Vec<HeldConnectionId> = held.into_iter().flat_map(|(_, v)| v).collect();
        while let Some(c) = rest.pop() {
            let n = c.number();
            if catch_unwind(AssertUnwindSafe(move || drop(c))).is_err() {
                fails.push(format!("panic while the id {} was released at the end of the history (a debug_assert! of Inner::release)", n));
                for c in rest.drain(..) {
                    std::mem::forget(c);
                }
            }
        }
    }
    CaseResult { req, rust: rust.join(" "), fails, acquired, released, reused, max_held }
}

fn gen_case(r: &mut Rng) -> Vec<Op> {
    let mut ops = vec![];
    let rounds = 1 + r.below(6);
    for _ in 0..rounds {
        // a burst of connects, some extra clones, then disconnects in one of several orders
        let up = r.below(6) as usize;
        for _ in 0..up {
            ops.push(Op::Acquire);
            if r.chance(1, 3) {
                ops.push(Op::Clone(r.below(8) as usize));
            }
        }
        let down = r.below(7) as usize;
        let style = r.below(4);
        for j in 0..down {
            ops.push(match style {
                0 => Op::Drop(0),                         // oldest first
                1 => Op::Drop(usize::MAX - j),            // resolved modulo the number in use: the newest end
                _ => Op::Drop(r.below(8) as usize),
            });
        }
    }
    ops
}

fn parse_replay(line: &str) -> Option<Vec<Op>> {
    // `cid a a r1 …`: a release names the number; translate back to positions while replaying
    let mut it = line.split_whitespace();
    if it.next()? != "cid" {
        return None;
    }
    let mut ops = vec![];
    let mut order: Vec<usize> = vec![]; // numbers in use, in the order of `held`; numbers are predicted by a shadow allocator
    let (mut next, mut free): (usize, Vec<usize>) = (0, vec![]);
    for t in it {
        if t == "a" {
            let n = free.pop().unwrap_or_else(|| { next += 1; next - 1 });
            order.push(n);
            ops.push(Op::Acquire);
        } else if let Some(n) = t.strip_prefix('r').and_then(|d| d.parse::<usize>().ok()) {
            let k = order.iter().position(|m| *m == n)?;
            order.remove(k);
            if n + 1 == next { next -= 1 } else { free.push(n) }
            ops.push(Op::Drop(k));
        } else {
            return None;
        }
    }
    Some(ops)
}

fn main() {
    let args: Vec<String> = std::env::args().collect();
    if args.len() < 4 {
        eprintln!("usage: connid <outdir> <seed> <cases> [--replay <file> | corpus-file]");
        std::process::exit(2);
    }
    if std::env::var("CID_VERBOSE").is_err() { std::panic::set_hook(Box::new(|_| {})); }
    let outdir = &args[1];
    let seed: u64 = args[2].parse().expect("seed");
    let cases: u64 = args[3].parse().expect("cases");
    std::fs::create_dir_all(outdir).unwrap();
    let mk = |n: &str| BufWriter::new(File::create(format!("{}/{}", outdir, n)).unwrap());
    let (mut req, mut rust, mut oracle) = (mk("req.txt"), mk("rust.txt"), mk("oracle.txt"));
    let mut dist: BTreeMap<String, u64> = BTreeMap::new();
    let mut samples: Vec<String> = vec![];
    let mut all: Vec<(Vec<Op>, &str)> = vec![];
    let replaying = args.len() > 5 && args[4] == "--replay";
    let file = if replaying { args.get(5) } else { args.get(4) };
    if let Some(f) = file {
        if let Ok(text) = std::fs::read_to_string(f) {
            for l in text.lines() {
                let l = l.trim().trim_start_matches("REQ:").trim();
                let l = l.split("input=").last().unwrap_or(l).replace('_', " ");
                if let Some(ops) = parse_replay(&l) {
                    all.push((ops, if replaying { "replay" } else { "corpus" }));
                }
            }
        }
    }
    let mut rng = Rng::new(seed);
    if !replaying {
        for _ in 0..cases {
            let mut r = rng.fork();
            all.push((gen_case(&mut r), "random"));
        }
    }
    let (mut lines, mut fails) = (0u64, 0u64);
    for (ops, kind) in &all {
        let c = run_case(ops);
        writeln!(req, "{}", c.req).unwrap();
        writeln!(rust, "{}", c.rust).unwrap();
        lines += 1;
        *dist.entry(format!("case.{}", kind)).or_insert(0) += 1;
        *dist.entry("op.acquire".into()).or_insert(0) += c.acquired as u64;
        *dist.entry("op.release".into()).or_insert(0) += c.released as u64;
        *dist.entry("acquire.reuses_a_released_number".into()).or_insert(0) += c.reused as u64;
        *dist.entry(format!("max_in_use.{}", c.max_held.min(8))).or_insert(0) += 1;
        if c.rust.ends_with("free=") { *dist.entry("end.free_list_empty".into()).or_insert(0) += 1 } else { *dist.entry("end.free_list_nonempty".into()).or_insert(0) += 1 }
        for f in &c.fails {
            fails += 1;
            for tag in ["C09", "C11"] {
                writeln!(oracle, "FAIL {} {} input={}", tag, f, c.req.replace(' ', "_")).unwrap();
            }
        }
        if samples.len() < 4 && c.acquired > 3 && c.released > 2 {
            samples.push(format!("{} => {}", c.req, c.rust));
        }
    }
    req.flush().unwrap();
    rust.flush().unwrap();
    oracle.flush().unwrap();
    let mut stats = String::from("{\n");
    write!(stats, "  \"lines\": {},\n  \"oracle_fails\": {},\n  \"cases\": {},\n", lines, fails, all.len()).unwrap();
    write!(stats, "  \"samples\": [{}],\n", samples.iter().map(|s| format!("{:?}", s)).collect::<Vec<_>>().join(", ")).unwrap();
    write!(stats, "  \"distribution\": {{{}}}\n}}\n", dist.iter().map(|(k, v)| format!("{:?}: {}", k, v)).collect::<Vec<_>>().join(", ")).unwrap();
    std::fs::write(format!("{}/stats.json", outdir), stats).unwrap();
}
