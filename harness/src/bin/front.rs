//! Oracle + correspondence harness for the schema front end (C17).
//!
//! Sources: (1) token soups over the grammar's alphabet, (2) mutations of every schema file of the repository
//! (character edits, spliced lines of other files), (3) generated valid schemas whose doc comments are
//! adversarial markdown (links of every form, carriage returns, tabs, multi-byte characters next to brackets).
//! Each source is parsed as the main schema with a resolver in which some of its imports exist and some do
//! not; every error and warning is rendered; the schema is formatted if it has no syntax errors; Rust code
//! is generated if there are no errors at all (exactly when `Generator::new` may be called). The whole
//! pipeline runs twice under `catch_unwind`; a panic or a difference between the two runs' diagnostics
//! (as multisets: their order comes out of hash maps) is a violation.
//!
//! Lines for the Lean model: `sast <hex>` (the grammar model accepts / rejects and builds the same AST) and
//! `slc <line> <col> <end> <docs>` for every evaluation of the doc-link position arithmetic, taken from the
//! parser's `verif-hooks` log.
//!
//! Usage: front <outdir> <seed> <cases> <dir with .aldrin files>

#[path = "fmtc.rs"]
#[allow(dead_code)]
mod fmtc;

use aldrin_codegen::{Generator, Options, RustOptions};
use aldrin_parser::{Diagnostic, Formatter, MemoryResolver, Parser, Renderer};
use fmtc::{damage, dump, hexs, G};
use std::collections::BTreeMap;
use std::fmt::Write as _;
use std::fs::File;
use std::io::{BufWriter, Write};
use std::panic::{catch_unwind, AssertUnwindSafe};
use verif_harness::{hex, Rng};

const TOKENS: &[&str] = &[
    "struct", "enum", "service", "fn", "event", "const", "newtype", "import", "required", "fallback", "uuid", "version", "args", "ok", "err",
    "{", "}", "(", ")", "[", "]", "<", ">", "->", ";", ",", "=", "@", "::", "#", "#!", "!", "-", ":", "\"", "\"x\"", "\"a\\\"b\"",
    "u8", "i64", "string", "bool", "option", "vec", "map", "set", "result", "box", "sender", "receiver", "bytes", "value", "unit", "lifetime", "object_id", "service_id", "f32",
    "Foo", "bar", "_x", "x1", "0", "1", "42", "4294967295", "4294967296", "-1", "00", "1_000",
    "6f1d0ef5-4ea9-4a3c-8e6a-8b2a4d6e1c11", "6f1d0ef5-4ea9", "// c", "/// d [Foo]", "//! h", "////", "/*", "*/",
    " ", "\n", "\t", "\r\n", "\r", "\u{a0}", "\u{feff}", "\u{1F600}", "ä", "\0", "\\", "'", "`", "$", "%", "&", "|", "~", "^", "?", ".", "..",
];

fn soup(r: &mut Rng) -> String {
    let n = 1 + r.below(60);
    let mut s = String::new();
    for _ in 0..n {
        s.push_str(*r.pick(TOKENS));
        if r.chance(2, 3) {
            s.push(' ');
        }
    }
    s
}

const KEYWORDS: &[&str] = &["struct", "enum", "service", "fn", "event", "const", "newtype", "import", "required", "fallback", "uuid", "version", "args", "ok", "err",
    "bool", "u8", "i8", "u16", "i16", "u32", "i32", "u64", "i64", "f32", "f64", "string", "object_id", "service_id", "value", "option", "box", "vec", "bytes", "map", "set",
    "sender", "receiver", "lifetime", "unit", "result"];

/// One identifier of the file renamed throughout (whole words only): the schema stays as valid as it was.
fn rename(r: &mut Rng, src: &str) -> String {
    let cs: Vec<char> = src.chars().collect();
    let is_w = |c: char| c.is_ascii_alphanumeric() || c == '_';
    let mut words: Vec<String> = vec![];
    let mut i = 0;
    let mut in_comment = false;
    while i < cs.len() {
        if cs[i] == '\n' { in_comment = false; }
        if cs[i] == '/' && i + 1 < cs.len() && cs[i + 1] == '/' { in_comment = true; }
        if !in_comment && is_w(cs[i]) && (i == 0 || !is_w(cs[i - 1])) {
            let mut j = i;
            while j < cs.len() && is_w(cs[j]) { j += 1; }
            let w: String = cs[i..j].iter().collect();
            // not numbers, not uuid groups, not keywords
            if !w.chars().next().unwrap().is_ascii_digit() && !KEYWORDS.contains(&w.as_str()) && !(i > 0 && cs[i - 1] == '-') && !(j < cs.len() && cs[j] == '-') {
                words.push(w);
            }
            i = j;
        } else {
            i += 1;
        }
    }
    words.sort();
    words.dedup();
    if words.is_empty() {
        return src.to_string();
    }
    let old = words[r.below(words.len() as u64) as usize].clone();
    let new = (*r.pick(&["_", "__", "___", "_1", "x_", "_x_", "A", "a", "Self_", "r#x"])).to_string();
    if words.contains(&new) {
        return src.to_string();
    }
    let mut out = String::new();
    let mut i = 0;
    while i < cs.len() {
        if is_w(cs[i]) && (i == 0 || !is_w(cs[i - 1])) {
            let mut j = i;
            while j < cs.len() && is_w(cs[j]) { j += 1; }
            let w: String = cs[i..j].iter().collect();
            if w == old { out.push_str(&new) } else { out.push_str(&w) }
            i = j;
        } else {
            out.push(cs[i]);
            i += 1;
        }
    }
    out
}

/// A handful of definitions that refer to each other at random: cycles through newtypes, structs and enums, with
/// and without indirection, used as map and set keys (what the validator's recursion and key-type checks walk).
fn type_graph(r: &mut Rng) -> String {
    let n = 2 + r.below(5) as usize;
    let name = |i: usize| format!("T{}", i);
    let mut o = String::new();
    let ty = |r: &mut Rng| -> String {
        let t = |r: &mut Rng| if r.chance(1, 5) { (*r.pick(&["u32", "string", "uuid", "bool", "i8", "f64", "bytes", "value", "object_id"])).to_string() } else if r.chance(1, 20) { name(n) } else { name(r.below(n as u64) as usize) };
        match r.below(9) {
            0 | 1 | 2 => t(r),
            3 => format!("option<{}>", t(r)),
            4 => format!("box<{}>", t(r)),
            5 => format!("vec<{}>", t(r)),
            6 => format!("map<{} -> {}>", t(r), t(r)),
            7 => format!("set<{}>", t(r)),
            _ => format!("result<{}, {}>", t(r), t(r)),
        }
    };
    for i in 0..n {
        match r.below(4) {
            0 | 1 => o.push_str(&format!("newtype {} = {};\n", name(i), ty(r))),
            2 => o.push_str(&format!("struct {} {{ a @ 1 = {}; required b @ 2 = {}; }}\n", name(i), ty(r), ty(r))),
            _ => o.push_str(&format!("enum {} {{ A @ 1 = {}; B @ 2; }}\n", name(i), ty(r))),
        }
    }
    o.push_str(&format!("struct User {{ k @ 1 = set<{}>; m @ 2 = map<{} -> {}>; v @ 3 = {}; }}\n", name(r.below(n as u64) as usize), name(r.below(n as u64) as usize), ty(r), ty(r)));
    if r.chance(1, 2) {
        o.push_str(&format!("service S {{ uuid = 3f0623d7-8b09-4fcd-b32e-0b292b0b1f1d; version = 1; fn f @ 1 {{ args = {}; ok = {}; }} event e @ 1 = {}; }}\n", ty(r), ty(r), ty(r)));
    }
    o
}

fn mutate(r: &mut Rng, files: &[String]) -> String {
    let base = files[r.below(files.len() as u64) as usize].clone();
    if r.chance(1, 3) {
        return rename(r, &base);
    }
    let mut s = base;
    for _ in 0..(1 + r.below(3)) {
        match r.below(4) {
            0 | 1 => s = damage(r, &s),
            2 => {
                // splice a line of another file somewhere
                let other = &files[r.below(files.len() as u64) as usize];
                let lines: Vec<&str> = other.lines().collect();
                if !lines.is_empty() {
                    let l = lines[r.below(lines.len() as u64) as usize];
                    let mut mine: Vec<&str> = s.lines().collect();
                    let at = r.below(mine.len() as u64 + 1) as usize;
                    mine.insert(at, l);
                    s = mine.join("\n");
                }
            }
            _ => {
                // cut at a character boundary chosen by the PRNG and drop or duplicate the tail's first line
                let cs: Vec<char> = s.chars().collect();
                if !cs.is_empty() {
                    let i = r.below(cs.len() as u64) as usize;
                    let (a, b) = cs.split_at(i);
                    let tail: String = b.iter().collect();
                    let first = tail.lines().next().unwrap_or("").to_string();
                    s = format!("{}{}{}", a.iter().collect::<String>(), first, tail);
                }
            }
        }
    }
    s
}

/// The grammar model knows ASCII identifiers only (`XID_START` / `XID_CONTINUE` are not modelled): a source with a
/// non-ASCII letter or digit outside comments and string literals is not put to it.
fn beyond_model(src: &str) -> bool {
    let cs: Vec<char> = src.chars().collect();
    let mut i = 0;
    while i < cs.len() {
        if cs[i] == '/' && i + 1 < cs.len() && cs[i + 1] == '/' {
            while i < cs.len() && cs[i] != '\n' { i += 1; }
        } else if cs[i] == '"' {
            i += 1;
            while i < cs.len() && cs[i] != '"' && cs[i] != '\n' {
                if cs[i] == '\\' { i += 1; }
                i += 1;
            }
            i += 1;
        } else {
            if !cs[i].is_ascii() && (cs[i].is_alphanumeric() || !cs[i].is_whitespace()) {
                // letters, digits, combining marks, symbols: anything that might continue an identifier
                return true;
            }
            i += 1;
        }
    }
    false
}

fn imports_of(src: &str) -> Vec<String> {
    // names after `import` as the text says them (good enough to decide which of them to provide)
    let mut v = vec![];
    let toks: Vec<&str> = src.split(|c: char| c.is_whitespace() || c == ';').filter(|t| !t.is_empty()).collect();
    for w in toks.windows(2) {
        if w[0] == "import" && w[1].chars().all(|c| c.is_alphanumeric() || c == '_') {
            v.push(w[1].to_string());
        }
    }
    v.sort();
    v.dedup();
    v
}

#[derive(PartialEq, Debug, Clone)]
struct Outcome {
    /// title lines of all diagnostics (kind, names, ids), sorted
    titles: Vec<String>,
    syntax_ok: bool,
    errors: Vec<String>,
    warnings: Vec<String>,
    others: Vec<String>,
    formatted: Option<String>,
    generated: Option<Result<usize, String>>,
    ast: Option<String>,
}

fn run_pipeline(src: &str, provided: &[(String, String)]) -> Outcome {
    let mut resolver = MemoryResolver::new("s", Ok(src.to_string()));
    for (n, s) in provided {
        resolver.add(n.clone(), Ok(s.clone()));
    }
    let p = Parser::parse(resolver);
    let renderer = Renderer::new(false, false, 100);
    let mut errors: Vec<String> = p.errors().iter().map(|e| e.render(&renderer, &p)).collect();
    let mut warnings: Vec<String> = p.warnings().iter().map(|e| e.render(&renderer, &p)).collect();
    let mut others: Vec<String> = p.other_warnings().iter().map(|e| e.render(&renderer, &p)).collect();
    // a second renderer configuration (colours, narrow terminal) must not panic either
    let renderer2 = Renderer::new(true, true, 20);
    for e in p.errors() {
        let _ = e.render(&renderer2, &p);
    }
    for e in p.warnings() {
        let _ = e.render(&renderer2, &p);
    }
    errors.sort();
    warnings.sort();
    others.sort();
    let titles = fmtc::diagnostics(&p);
    let formatted = Formatter::new(&p).ok().map(|f| f.to_string());
    // the main schema's own syntax verdict and AST: syntax errors of imported schemas do not count
    let alone = Parser::parse(MemoryResolver::new("s", Ok(src.to_string())));
    let (ast, syntax_ok) = match Formatter::new(&alone) {
        Ok(_) => (Some(dump(alone.main_schema(), false)), true),
        Err(_) => (None, false),
    };
    let generated = if p.errors().is_empty() {
        let mut options = Options::new();
        options.introspection = true;
        let rust_options = RustOptions::new();
        Some(match Generator::new(&options, &p).rust(&rust_options) {
            Ok(out) => Ok(out.module_content.len()),
            Err(e) => Err(format!("{:?}", e).chars().take(80).collect()),
        })
    } else {
        None
    };
    Outcome { titles, syntax_ok, errors, warnings, others, formatted, generated, ast }
}

fn main() {
    let args: Vec<String> = std::env::args().collect();
    if args.len() < 5 {
        eprintln!("usage: front <outdir> <seed> <cases> <schema dir> [corpus]");
        std::process::exit(2);
    }
    let outdir = &args[1];
    let seed: u64 = args[2].parse().expect("seed");
    let cases: u64 = args[3].parse().expect("cases");
    std::fs::create_dir_all(outdir).unwrap();
    let mk = |n: &str| BufWriter::new(File::create(format!("{}/{}", outdir, n)).unwrap());
    let (mut req, mut rust, mut oracle) = (mk("req.txt"), mk("rust.txt"), mk("oracle.txt"));
    std::panic::set_hook(Box::new(|_| {}));
    // every schema file below the given directory
    let mut files: Vec<String> = vec![];
    let mut stack = vec![std::path::PathBuf::from(&args[4])];
    while let Some(d) = stack.pop() {
        if let Ok(rd) = std::fs::read_dir(&d) {
            let mut entries: Vec<_> = rd.filter_map(|e| e.ok()).map(|e| e.path()).collect();
            entries.sort();
            for p in entries {
                if p.is_dir() {
                    if p.file_name().map(|n| n == "target" || n == ".git").unwrap_or(false) {
                        continue;
                    }
                    stack.push(p);
                } else if p.extension().map(|e| e == "aldrin").unwrap_or(false) {
                    if let Ok(s) = std::fs::read_to_string(&p) {
                        files.push(s);
                    }
                }
            }
        }
    }
    if files.is_empty() {
        eprintln!("no .aldrin files below {}", args[4]);
        std::process::exit(2);
    }
    let mut rng = Rng::new(seed);
    let mut dist: BTreeMap<String, u64> = BTreeMap::new();
    let mut samples: Vec<String> = vec![];
    let mut lines = 0usize;
    let mut fails = 0usize;
    let mut sources: Vec<(String, &'static str)> = vec![];
    let mut replay_imports: Vec<Vec<(String, String)>> = vec![];
    let replaying = args.len() > 6 && args[5] == "--replay";
    if replaying {
        // every `imports=[name:hex,...] source=<hex>` of a replay file written by ./check
        let text = std::fs::read_to_string(&args[6]).unwrap_or_default();
        for (i, _) in text.match_indices("imports=[") {
            let rest = &text[i + 9..];
            let Some(end) = rest.find(']') else { continue };
            let imps: Vec<(String, String)> = rest[..end].split(',').filter(|t| !t.is_empty()).filter_map(|t| {
                let (n, h) = t.split_once(':')?;
                Some((n.to_string(), String::from_utf8(verif_harness::unhex(h)?).ok()?))
            }).collect();
            let after = &rest[end + 1..];
            if let Some(j) = after.find("source=") {
                let h: String = after[j + 7..].chars().take_while(|c| c.is_ascii_hexdigit()).collect();
                if let Some(b) = verif_harness::unhex(&h) {
                    if let Ok(src) = String::from_utf8(b) {
                        sources.push((src, "replay"));
                        replay_imports.push(imps);
                    }
                }
            }
        }
    } else if args.len() > 5 {
        if let Ok(text) = std::fs::read_to_string(&args[5]) {
            for l in text.lines() {
                let l = l.trim();
                if l.is_empty() || l.starts_with('#') {
                    continue;
                }
                if let Some(b) = verif_harness::unhex(l) {
                    if let Ok(s) = String::from_utf8(b) {
                        sources.push((s, "corpus"));
                    }
                }
            }
        }
    }
    // the repository's files as they are, once
    if seed % 1000 == 0 && !replaying {
        for f in &files {
            sources.push((f.clone(), "repo"));
        }
    }
    for _ in 0..(if replaying { 0 } else { cases }) {
        let mut r = rng.fork();
        match r.below(11) {
            10 => sources.push((type_graph(&mut r), "type-graph")),
            0 | 1 => sources.push((soup(&mut r), "soup")),
            2 | 3 | 4 => sources.push((mutate(&mut r, &files), "mutation")),
            _ => {
                let messy = r.chance(1, 2);
                let mut g = G { r: &mut r, o: String::new(), messy, adversarial: true };
                g.schema();
                let src = g.o;
                let src = if r.chance(1, 6) { damage(&mut r, &src) } else { src };
                sources.push((src, "adversarial"));
            }
        }
    }
    // a front end that does not come back: a watchdog reports the input it is stuck on and ends the run
    let current: std::sync::Arc<std::sync::Mutex<(std::time::Instant, String, usize)>> =
        std::sync::Arc::new(std::sync::Mutex::new((std::time::Instant::now(), String::new(), 0)));
    {
        let current = current.clone();
        let outdir = outdir.clone();
        std::thread::spawn(move || loop {
            std::thread::sleep(std::time::Duration::from_millis(500));
            let (since, ctx, line) = {
                let g = current.lock().unwrap();
                (g.0, g.1.clone(), g.2)
            };
            if !ctx.is_empty() && since.elapsed().as_secs() >= 30 {
                use std::io::Write as _;
                if let Ok(mut f) = std::fs::OpenOptions::new().append(true).open(format!("{}/oracle.txt", outdir)) {
                    let _ = writeln!(f, "FAIL C17 line={} the front end did not come back within 30 s input={}", line, ctx);
                }
                let _ = std::fs::write(format!("{}/stats.json", outdir), "{\"lines\": 0, \"oracle_fails\": 1, \"cases\": 0, \"samples\": [], \"distribution\": {\"did-not-terminate\": 1}}\n");
                std::process::exit(0);
            }
        });
    }
    for (idx, (src, kind)) in sources.iter().enumerate() {
        let mut r = rng.fork();
        // some of the imports exist (as small valid schemas, as the source itself, or as garbage), some do not
        let mut provided: Vec<(String, String)> = vec![];
        for n in imports_of(src) {
            match r.below(5) {
                0 => {}
                1 => provided.push((n, "struct Imported { a @ 1 = u8; }\nenum E { A @ 1; }\n".to_string())),
                2 => provided.push((n, src.clone())),
                3 => provided.push((n, "struct {".to_string())),
                _ => provided.push((n, files[r.below(files.len() as u64) as usize].clone())),
            }
        }
        if replaying {
            provided = replay_imports[idx].clone();
        }
        let h = hexs(src);
        let ctx = format!("kind={} imports=[{}] source={}", kind, provided.iter().map(|(n, s)| format!("{}:{}", n, hexs(s))).collect::<Vec<_>>().join(","), h);
        let _ = aldrin_parser::verif_hooks::take_linecol_log();
        req.flush().unwrap();
        rust.flush().unwrap();
        oracle.flush().unwrap();
        *current.lock().unwrap() = (std::time::Instant::now(), ctx.clone(), lines);
        let first = catch_unwind(AssertUnwindSafe(|| run_pipeline(src, &provided)));
        let log = aldrin_parser::verif_hooks::take_linecol_log();
        let second = catch_unwind(AssertUnwindSafe(|| run_pipeline(src, &provided)));
        let _ = aldrin_parser::verif_hooks::take_linecol_log();
        current.lock().unwrap().1.clear();
        *dist.entry(format!("kind.{}", kind)).or_insert(0) += 1;
        match (&first, &second) {
            (Ok(a), Ok(b)) => {
                // Which of several involved schemas a cross-schema diagnostic names first follows the iteration order
                // of a hash map and differs between runs; the diagnostics themselves (kind, names, ids) must not.
                let same = a.titles == b.titles && a.syntax_ok == b.syntax_ok && a.formatted == b.formatted && a.generated == b.generated && a.ast == b.ast
                    && a.errors.len() == b.errors.len() && a.warnings.len() == b.warnings.len() && a.others.len() == b.others.len();
                if a != b && same {
                    *dist.entry("rendering-differs-between-runs".into()).or_insert(0) += 1;
                }
                if !same {
                    if std::env::var("FRONT_DEBUG").is_ok() {
                        for e in a.errors.iter().filter(|e| !b.errors.contains(e)) { eprintln!("- {}", e); }
                        for e in b.errors.iter().filter(|e| !a.errors.contains(e)) { eprintln!("+ {}", e); }
                        eprintln!("=====");
                    }
                    let what = if a.titles != b.titles || a.errors.len() != b.errors.len() { "errors or warnings" } else if a.formatted != b.formatted { "formatted text" } else { "generated code / syntax verdict" };
                    writeln!(oracle, "FAIL C17 line={} two runs over the same source differ in their {} input={}", lines, what, ctx).unwrap();
                    fails += 1;
                }
                *dist.entry(format!("{}.{}", kind, if !a.syntax_ok { "syntax-error" } else if !a.errors.is_empty() { "errors" } else { "clean" })).or_insert(0) += 1;
                *dist.entry(format!("diagnostics.{}", match a.errors.len() + a.warnings.len() { 0 => "0", 1 => "1", 2..=4 => "2-4", _ => ">=5" })).or_insert(0) += 1;
                if let Some(Err(e)) = &a.generated {
                    *dist.entry(format!("codegen-error.{}", e.split(|c: char| !c.is_alphanumeric()).next().unwrap_or(""))).or_insert(0) += 1;
                }
                for t in &a.titles {
                    // kind of diagnostic: the title up to the first quoted name
                    let k: String = t.split('`').next().unwrap_or("").trim().chars().take(48).collect();
                    *dist.entry(format!("diag.{}", k)).or_insert(0) += 1;
                }
                if a.generated.is_some() {
                    *dist.entry("codegen-runs".into()).or_insert(0) += 1;
                }
                if a.warnings.iter().any(|w| w.contains("broken doc link")) {
                    *dist.entry("broken-doc-link-warnings".into()).or_insert(0) += 1;
                }
                writeln!(req, "sast {}", h).unwrap();
                if beyond_model(src) {
                    writeln!(rust, "skipped").unwrap();
                    *dist.entry("sast-skipped-non-ascii".into()).or_insert(0) += 1;
                } else {
                    writeln!(rust, "{}", match &a.ast { Some(d) => format!("ok {}", d), None => "err".to_string() }).unwrap();
                }
                lines += 1;
                if samples.len() < 6 && lines % 131 == 7 && src.len() < 200 {
                    samples.push(format!("{:?} => {} errors, {} warnings", src, a.errors.len(), a.warnings.len()));
                }
            }
            _ => {
                writeln!(oracle, "FAIL C17 line={} the front end panicked ({}) input={}", lines, if first.is_err() { "first run" } else { "second run only" }, ctx).unwrap();
                fails += 1;
                writeln!(req, "sast {}", h).unwrap();
                writeln!(rust, "PANIC").unwrap();
                lines += 1;
                *dist.entry("panic".into()).or_insert(0) += 1;
            }
        }
        // the position arithmetic, as recorded by the hook
        for rec in log {
            let docs: Vec<String> = rec.docs.iter().map(|(s, v)| format!("{}:{}", s, hex(v.as_bytes()))).collect();
            writeln!(req, "slc {} {} {} {}", rec.line, rec.column, if rec.end { 1 } else { 0 }, docs.join(" ")).unwrap();
            writeln!(rust, "{}", match rec.result { Some(i) => format!("some {}", i), None => "none".to_string() }).unwrap();
            lines += 1;
            *dist.entry(format!("linecol.{}", if rec.result.is_some() { "some" } else { "none" })).or_insert(0) += 1;
            if rec.column == 0 {
                *dist.entry("linecol.column-zero".into()).or_insert(0) += 1;
                writeln!(oracle, "FAIL C17 line={} the markdown parser reported column 0 (line {}), for which the offset arithmetic is not safe input={}", lines - 1, rec.line, ctx).unwrap();
                fails += 1;
            }
            if rec.docs.iter().any(|(_, v)| v.contains('\r')) {
                *dist.entry("linecol.with-carriage-return".into()).or_insert(0) += 1;
            }
            if rec.docs.iter().any(|(_, v)| !v.is_ascii()) {
                *dist.entry("linecol.with-multibyte".into()).or_insert(0) += 1;
            }
        }
    }
    req.flush().unwrap();
    rust.flush().unwrap();
    oracle.flush().unwrap();
    let mut stats = String::from("{\n");
    write!(stats, "  \"lines\": {},\n  \"oracle_fails\": {},\n  \"cases\": {},\n", lines, fails, cases).unwrap();
    write!(stats, "  \"samples\": [{}],\n", samples.iter().map(|s| format!("{:?}", s)).collect::<Vec<_>>().join(", ")).unwrap();
    write!(stats, "  \"distribution\": {{{}}}\n}}\n", dist.iter().map(|(k, v)| format!("{:?}: {}", k, v)).collect::<Vec<_>>().join(", ")).unwrap();
    std::fs::write(format!("{}/stats.json", outdir), stats).unwrap();
}
