//! Correspondence + oracle harness for the schema parser and formatter (C18).
//!
//! Random schema sources are generated as text: every construct of the grammar with random layout (white
//! space of all kinds, comments, doc strings, attributes wherever the grammar allows them, odd but legal
//! spellings) and, in a second stream, damaged by one edit so that most of them no longer parse. For each
//! source the real parser and formatter are run and two lines are written:
//!   sast <hex>  =>  ok <canonical AST dump> | err        (syntax errors only)
//!   sfmt <hex>  =>  ok <hex of the formatted text> | err
//!   sval <hex>  =>  ok 1 | err   (model only: the parsed AST meets the premises of the round-trip theorem)
//! The Lean model (`Model/Schema/{Parse,Fmt}.lean`) answers the same lines. Implementation-only oracles for
//! every source that parses: the formatted text parses, to the same schema (imports as a sorted list),
//! with the same errors and warnings (positions aside), and formatting it again changes nothing.
//!
//! Usage: fmtc <outdir> <seed> <cases>

use aldrin_parser::ast::*;
use aldrin_parser::{Formatter, MemoryResolver, Parser, Renderer, Schema};
use std::collections::BTreeMap;
use std::fmt::Write as _;
use std::fs::File;
use std::io::{BufWriter, Write};
use std::panic::{catch_unwind, AssertUnwindSafe};
use verif_harness::{hex, Rng};

// ------------------------------------------------------------------------------------------------
// canonical AST dump (the Lean driver prints the same text from its own AST)

pub fn hexs(s: &str) -> String {
    hex(s.as_bytes())
}

fn lines_c(c: &[Comment]) -> String {
    format!("({})", c.iter().map(|c| hexs(c.value_inner())).collect::<Vec<_>>().join(","))
}

fn lines_d(d: &[DocString]) -> String {
    format!("({})", d.iter().map(|d| hexs(d.value_inner())).collect::<Vec<_>>().join(","))
}

fn attrs(a: &[Attribute]) -> String {
    format!("[{}]", a.iter().map(|a| format!("{}({})", a.name().value(), a.options().iter().map(|o| o.value().to_string()).collect::<Vec<_>>().join(","))).collect::<Vec<_>>().join(" "))
}

fn named_ref(r: &NamedRef) -> String {
    match r.kind() {
        NamedRefKind::Intern(i) => i.value().to_string(),
        NamedRefKind::Extern(s, i) => format!("{}::{}", s.value(), i.value()),
    }
}

fn ty(t: &TypeName) -> String {
    match t.kind() {
        TypeNameKind::Bool => "bool".into(),
        TypeNameKind::U8 => "u8".into(),
        TypeNameKind::I8 => "i8".into(),
        TypeNameKind::U16 => "u16".into(),
        TypeNameKind::I16 => "i16".into(),
        TypeNameKind::U32 => "u32".into(),
        TypeNameKind::I32 => "i32".into(),
        TypeNameKind::U64 => "u64".into(),
        TypeNameKind::I64 => "i64".into(),
        TypeNameKind::F32 => "f32".into(),
        TypeNameKind::F64 => "f64".into(),
        TypeNameKind::String => "string".into(),
        TypeNameKind::Uuid => "uuid".into(),
        TypeNameKind::ObjectId => "object_id".into(),
        TypeNameKind::ServiceId => "service_id".into(),
        TypeNameKind::Value => "value".into(),
        TypeNameKind::Bytes => "bytes".into(),
        TypeNameKind::Lifetime => "lifetime".into(),
        TypeNameKind::Unit => "unit".into(),
        TypeNameKind::Option(t) => format!("option<{}>", ty(t)),
        TypeNameKind::Box(t) => format!("box<{}>", ty(t)),
        TypeNameKind::Vec(t) => format!("vec<{}>", ty(t)),
        TypeNameKind::Set(t) => format!("set<{}>", ty(t)),
        TypeNameKind::Sender(t) => format!("sender<{}>", ty(t)),
        TypeNameKind::Receiver(t) => format!("receiver<{}>", ty(t)),
        TypeNameKind::Map(k, v) => format!("map<{}->{}>", ty(k), ty(v)),
        TypeNameKind::Result(a, b) => format!("result<{},{}>", ty(a), ty(b)),
        TypeNameKind::Array(t, l) => format!("[{};{}]", ty(t), match l.value() {
            ArrayLenValue::Literal(v) => v.value().to_string(),
            ArrayLenValue::Ref(r) => named_ref(r),
        }),
        TypeNameKind::Ref(r) => format!("@{}", named_ref(r)),
    }
}

fn field(f: &StructField) -> String {
    format!("f{}{}{} {}@{}={};", lines_c(f.comment()), lines_d(f.doc()), if f.required() { "r" } else { "o" }, f.name().value(), f.id().value(), ty(f.field_type()))
}

fn variant(v: &EnumVariant) -> String {
    format!("v{}{} {}@{}{};", lines_c(v.comment()), lines_d(v.doc()), v.name().value(), v.id().value(), v.variant_type().map_or(String::new(), |t| format!("={}", ty(t))))
}

fn fb(c: &[Comment], d: &[DocString], name: &str) -> String {
    format!("fb{}{} {};", lines_c(c), lines_d(d), name)
}

fn struct_body(fields: &[StructField], fallback: Option<&StructFallback>) -> String {
    format!("{{{}{}}}", fields.iter().map(field).collect::<String>(), fallback.map_or("-".to_string(), |f| fb(f.comment(), f.doc(), f.name().value())))
}

fn enum_body(vars: &[EnumVariant], fallback: Option<&EnumFallback>) -> String {
    format!("{{{}{}}}", vars.iter().map(variant).collect::<String>(), fallback.map_or("-".to_string(), |f| fb(f.comment(), f.doc(), f.name().value())))
}

fn inl(t: &TypeNameOrInline) -> String {
    match t {
        TypeNameOrInline::TypeName(t) => format!("ty:{}", ty(t)),
        TypeNameOrInline::Struct(s) => format!("struct{}{}{}", lines_d(s.doc()), attrs(s.attributes()), struct_body(s.fields(), s.fallback())),
        TypeNameOrInline::Enum(e) => format!("enum{}{}{}", lines_d(e.doc()), attrs(e.attributes()), enum_body(e.variants(), e.fallback())),
    }
}

fn part(p: Option<&FunctionPart>) -> String {
    p.map_or("-".to_string(), |p| format!("p{}{}", lines_c(p.comment()), inl(p.part_type())))
}

fn definition(d: &Definition) -> String {
    match d {
        Definition::Struct(s) => format!("struct{}{}{} {}{}", lines_c(s.comment()), lines_d(s.doc()), attrs(s.attributes()), s.name().value(), struct_body(s.fields(), s.fallback())),
        Definition::Enum(e) => format!("enum{}{}{} {}{}", lines_c(e.comment()), lines_d(e.doc()), attrs(e.attributes()), e.name().value(), enum_body(e.variants(), e.fallback())),
        Definition::Newtype(n) => format!("newtype{}{}{} {}={}", lines_c(n.comment()), lines_d(n.doc()), attrs(n.attributes()), n.name().value(), ty(n.target_type())),
        Definition::Const(c) => {
            let (k, v) = match c.value() {
                ConstValue::U8(v) => ("u8", v.value().to_string()),
                ConstValue::I8(v) => ("i8", v.value().to_string()),
                ConstValue::U16(v) => ("u16", v.value().to_string()),
                ConstValue::I16(v) => ("i16", v.value().to_string()),
                ConstValue::U32(v) => ("u32", v.value().to_string()),
                ConstValue::I32(v) => ("i32", v.value().to_string()),
                ConstValue::U64(v) => ("u64", v.value().to_string()),
                ConstValue::I64(v) => ("i64", v.value().to_string()),
                ConstValue::String(v) => ("string", hexs(v.value())),
                ConstValue::Uuid(v) => ("uuid", v.value().to_string()),
            };
            format!("const{}{} {}={}({})", lines_c(c.comment()), lines_d(c.doc()), c.name().value(), k, v)
        }
        Definition::Service(s) => {
            let mut o = format!("service{}{} {} uuid{}{} version{}{} [", lines_c(s.comment()), lines_d(s.doc()), s.name().value(), lines_c(s.uuid_comment()), s.uuid().value(), lines_c(s.version_comment()), s.version().value());
            for i in s.items() {
                match i {
                    ServiceItem::Function(f) => write!(o, "fn{}{} {}@{} args:{} ok:{} err:{};", lines_c(f.comment()), lines_d(f.doc()), f.name().value(), f.id().value(), part(f.args()), part(f.ok()), part(f.err())).unwrap(),
                    ServiceItem::Event(e) => write!(o, "ev{}{} {}@{} {};", lines_c(e.comment()), lines_d(e.doc()), e.name().value(), e.id().value(), e.event_type().map_or("-".to_string(), inl)).unwrap(),
                }
            }
            write!(o, "] fn:{} ev:{}", s.function_fallback().map_or("-".to_string(), |f| fb(f.comment(), f.doc(), f.name().value())), s.event_fallback().map_or("-".to_string(), |f| fb(f.comment(), f.doc(), f.name().value()))).unwrap();
            o
        }
    }
}

pub fn dump(s: &Schema, sort_imports: bool) -> String {
    let mut imports: Vec<&ImportStmt> = s.imports().iter().collect();
    if sort_imports {
        imports.sort_by_key(|i| i.schema_name().value());
    }
    format!("S{}{} i[{}] [{}]", lines_c(s.comment()), lines_d(s.doc()),
        imports.iter().map(|i| format!("{}{}", i.schema_name().value(), lines_c(i.comment()))).collect::<Vec<_>>().join(" "),
        s.definitions().iter().map(definition).collect::<Vec<_>>().join(" | "))
}

// ------------------------------------------------------------------------------------------------
// diagnostics, positions aside

/// Every error and warning as the title line of its rendered report (kind, names and ids; no positions, no
/// source excerpts).
pub fn diagnostics(p: &Parser) -> Vec<String> {
    let r = Renderer::new(false, false, 200);
    let title = |s: String| s.lines().next().unwrap_or("").to_string();
    let mut v: Vec<String> = p.errors().iter().map(|e| title(r.render(e, p))).collect();
    v.extend(p.warnings().iter().map(|w| title(r.render(w, p))));
    v.extend(p.other_warnings().iter().map(|w| title(r.render(w, p))));
    v.sort();
    v
}

// ------------------------------------------------------------------------------------------------
// source generator

pub struct G<'a> {
    pub r: &'a mut Rng,
    pub o: String,
    pub messy: bool,
    /// doc strings take their text from `ADVERSARIAL_DOCS` (markdown links, carriage returns, tabs, multi-byte
    /// characters) instead of `COMMENT_TEXT`
    pub adversarial: bool,
}

pub const ADVERSARIAL_DOCS: &[&str] = &[
    "  \u{20ac}[x](nope)", "   [Foo] \u{e9}", "\t\u{1F600}[a::b]", "  [\u{e9}]", " [Foo]", " [`Foo`]", " see [Foo] and [bar::Baz]", " [a](b)", " [a](self::Foo)", " [text](Foo::bar)", " [x][y]", " [y]: Foo",
    " [ä](ö)", " ä [Foo] €", " [Foo]\r[Bar]", " a\r[Foo]", " \r[Foo]", " [Foo]\r", "\t[Foo]", " [Foo\tBar]", " [[Foo]]", " [Foo",
    " Foo]", " []()", " [](", " ![img](Foo)", " <Foo>", " <https://x.y>", " [Foo](<Bar>)", " * [Foo]", " > [Foo]", " # [Foo]",
    " | [a] | [b] |", " |---|---|", " - [ ] [Foo]", " ~~[Foo]~~", " [^1]", " [^1]: [Foo]", " `[Foo]`", " ``` [Foo]", " \\[Foo]",
    " [Foo] \u{1F600} [Bar]", " \u{1F600}[Foo]", " [\u{1F600}]", " [self]", " [super::x]", " [crate]", " [fn@foo]", " [Foo::]", " [::Foo]",
    " [::alpha::Foo]", " [::zeta]", " [`::mid::T`] and [::b::x::y]", " [::B] [::a1::Foo]", " [text](::_a::Foo)", " [::alpha]: ::zeta::Bar",
    " [a::b::c::d]", " [Foo](Bar \"title\")", " &amp; [Foo]", " \"smart\" -- [Foo] ...", "[Foo]", "[Foo][]", " [Foo]:", " [ Foo ]",
];

fn adversarial_text(t: &str) -> String {
    // the table spells control characters and astral characters with escapes
    t.replace("\\r", "\r").replace("\\t", "\t").replace("\\u{1F600}", "\u{1F600}").replace("\\\"", "\"").replace("\\\\", "\\")
}

const IDENTS: &[&str] = &["a", "b1", "foo", "foo_bar", "_x", "_", "__", "x_", "_1", "X", "Foo", "FooBar", "requiredx", "struct", "enum", "fallback", "version", "uuid", "u8x", "boolean", "optional", "boxed", "bytes_", "valuex", "unit1", "args", "ok", "err", "fn", "event", "import", "service", "const", "newtype", "i64", "mapped", "resultx", "string", "lifetime_", "t", "xx"];
const TYPE_IDENTS: &[&str] = &["Foo", "Bar", "Baz9", "a", "x_y", "T", "boxed", "optional", "mapped", "vector", "Result", "setter", "senders", "receiverx", "struct", "enum", "Unit", "Value", "U8", "resulting", "_u8"];
// names that start with a parameterless type keyword: the grammar commits to the keyword
const TYPE_TRAPS: &[&str] = &["unity", "lifetimes", "u8x", "boolean", "valuex", "bytesx", "stringy", "uuid4", "i64_", "f32x", "object_ident", "service_idx"];
const COMMENT_TEXT: &[&str] = &["", " plain", "no space", "  two spaces", " trailing   ", "\ttab", " / slash", " ! bang", " ä€ unicode", " // nested", " \"quoted\"", "   ", " \t ", "x"];

impl G<'_> {
    fn ws0(&mut self) {
        // optional white space
        if self.messy && self.r.chance(1, 3) {
            let w = *self.r.pick(&[" ", "  ", "\n", "\t", "\r\n", "\n\n  ", " \n", "\u{a0}", "\u{2003}", "\u{0b}"]);
            self.o.push_str(w);
        }
    }
    fn ws1(&mut self) {
        // white space that separates two words
        if self.messy {
            let w = *self.r.pick(&[" ", " ", "  ", "\n", "\t", "\r\n", "\n\n  ", "\u{a0}"]);
            self.o.push_str(w);
            // rarely none at all (the words merge: usually a syntax error)
            if self.r.chance(1, 60) {
                self.o.pop();
                while self.o.ends_with(|c: char| c.is_whitespace()) {
                    self.o.pop();
                }
            }
        } else {
            self.o.push(' ');
        }
    }
    fn t(&mut self, s: &str) {
        self.ws0();
        self.o.push_str(s);
    }
    fn nl(&mut self) {
        if self.messy {
            let w = *self.r.pick(&["\n", "\n", "\r\n", "\n\n", " \n", "\n\t"]);
            self.o.push_str(w);
        } else {
            self.o.push('\n');
        }
    }
    fn ident(&mut self) -> String {
        if self.r.chance(1, 80) { return "required".to_string(); }
        if self.r.chance(1, 4) { (*self.r.pick(IDENTS)).to_string() } else { format!("{}{}", self.r.pick(&["f", "g_", "Name", "_", "x"]), self.r.below(50)) }
    }
    fn int(&mut self) -> String {
        (*self.r.pick(&["0", "1", "2", "7", "007", "-1", "-0", "4294967295", "99999999999999999999", "12"])).to_string()
    }
    fn uuid(&mut self) -> String {
        let mut s = String::new();
        for (i, n) in [8, 4, 4, 4, 12].iter().enumerate() {
            if i > 0 { s.push('-'); }
            for _ in 0..*n {
                s.push(*self.r.pick(&['0', '1', '9', 'a', 'f', 'A', 'F', 'c', '7']));
            }
        }
        s
    }
    fn line(&mut self, prefix: &str) {
        self.o.push_str(prefix);
        if self.adversarial && prefix.starts_with("///") || self.adversarial && prefix.starts_with("//!") {
            let t = adversarial_text(*self.r.pick(ADVERSARIAL_DOCS));
            self.o.push_str(&t);
        } else {
            let t = *self.r.pick(COMMENT_TEXT);
            self.o.push_str(t);
        }
        self.nl();
    }
    fn attribute(&mut self, inline: bool) {
        self.o.push('#');
        if inline { self.t("!"); }
        self.t("[");
        self.ws0();
        let n = self.ident();
        self.o.push_str(&n);
        if self.r.chance(1, 2) {
            self.t("(");
            let k = 1 + self.r.below(3);
            for i in 0..k {
                if i > 0 { self.t(","); }
                self.ws0();
                let n = self.ident();
                self.o.push_str(&n);
            }
            if self.r.chance(1, 4) { self.t(","); }
            self.t(")");
        }
        self.t("]");
        self.nl();
    }
    fn prelude(&mut self, comments: bool, docs: bool, attrs: bool) {
        let n = if self.r.chance(1, 2) { 0 } else { self.r.below(4) };
        for _ in 0..n {
            match self.r.below(3) {
                0 if comments => self.line("//"),
                1 if docs => { let p = *self.r.pick(&["///", "///", "////"]); self.line(p) }
                2 if attrs => self.attribute(false),
                _ => {}
            }
            self.ws0();
        }
    }
    fn inline_prelude(&mut self) {
        let n = if self.r.chance(1, 2) { 0 } else { self.r.below(3) };
        for _ in 0..n {
            if self.r.chance(1, 2) { self.line("//!") } else { self.attribute(true) }
            self.ws0();
        }
    }
    fn named_ref(&mut self) -> String {
        let a = if self.r.chance(1, 40) { (*self.r.pick(TYPE_TRAPS)).to_string() } else { (*self.r.pick(TYPE_IDENTS)).to_string() };
        if self.r.chance(1, 4) {
            let b = (*self.r.pick(TYPE_IDENTS)).to_string();
            if self.messy && self.r.chance(1, 6) { format!("{} :: {}", a, b) } else { format!("{}::{}", a, b) }
        } else { a }
    }
    fn ty(&mut self, depth: u32) {
        self.ws0();
        let c = if depth == 0 { self.r.below(4) } else { self.r.below(14) };
        match c {
            0 | 1 => { let p = *self.r.pick(&["bool", "u8", "i8", "u16", "i16", "u32", "i32", "u64", "i64", "f32", "f64", "string", "uuid", "object_id", "service_id", "value", "bytes", "lifetime", "unit"]); self.o.push_str(p) }
            2 | 3 => { let n = self.named_ref(); self.o.push_str(&n) }
            4..=8 => {
                let k = *self.r.pick(&["option", "box", "vec", "set", "sender", "receiver"]);
                self.o.push_str(k);
                self.t("<");
                self.ty(depth - 1);
                self.t(">");
            }
            9 | 10 => {
                self.o.push_str("map");
                self.t("<");
                self.ty(depth - 1);
                self.t("->");
                self.ty(depth - 1);
                self.t(">");
            }
            11 | 12 => {
                self.o.push_str("result");
                self.t("<");
                self.ty(depth - 1);
                self.t(",");
                self.ty(depth - 1);
                self.t(">");
            }
            _ => {
                self.o.push('[');
                self.ty(depth - 1);
                self.t(";");
                self.ws0();
                if self.r.chance(1, 3) { let n = self.named_ref(); self.o.push_str(&n) } else { let i = self.int(); self.o.push_str(&i) }
                self.t("]");
            }
        }
    }
    fn field(&mut self) {
        self.prelude(true, true, false);
        if self.r.chance(1, 3) { self.o.push_str("required"); self.ws1(); }
        let n = self.ident();
        self.o.push_str(&n);
        self.t("@");
        self.ws0();
        let i = self.int();
        self.o.push_str(&i);
        self.t("=");
        self.ty(3);
        self.t(";");
        self.nl();
    }
    fn fallback_entry(&mut self) {
        self.prelude(true, true, false);
        let n = self.ident();
        self.o.push_str(&n);
        self.t("=");
        self.t("fallback");
        self.t(";");
        self.nl();
    }
    fn variant(&mut self) {
        self.prelude(true, true, false);
        let n = self.ident();
        self.o.push_str(&n);
        self.t("@");
        self.ws0();
        let i = self.int();
        self.o.push_str(&i);
        if self.r.chance(2, 3) { self.t("="); self.ty(3); }
        self.t(";");
        self.nl();
    }
    fn struct_body(&mut self) {
        self.t("{");
        self.ws0();
        if self.messy || true { if self.r.chance(2, 3) { self.nl(); } }
        let n = self.r.below(4);
        for _ in 0..n { self.ws0(); self.field(); }
        if self.r.chance(1, 3) { self.ws0(); self.fallback_entry(); }
        self.t("}");
    }
    fn enum_body(&mut self) {
        self.t("{");
        if self.r.chance(2, 3) { self.nl(); }
        let n = self.r.below(4);
        for _ in 0..n { self.ws0(); self.variant(); }
        if self.r.chance(1, 3) { self.ws0(); self.fallback_entry(); }
        self.t("}");
    }
    fn inline(&mut self) {
        // type_name_or_inline
        match self.r.below(3) {
            0 => { self.ty(2); self.t(";"); }
            1 => {
                self.ws0();
                self.o.push_str("struct");
                self.ws1();
                self.o.push('{');
                if self.r.chance(2, 3) { self.nl(); }
                self.ws0();
                self.inline_prelude();
                let n = self.r.below(3);
                for _ in 0..n { self.ws0(); self.field(); }
                if self.r.chance(1, 3) { self.ws0(); self.fallback_entry(); }
                self.t("}");
            }
            _ => {
                self.ws0();
                self.o.push_str("enum");
                self.ws1();
                self.o.push('{');
                if self.r.chance(2, 3) { self.nl(); }
                self.ws0();
                self.inline_prelude();
                let n = self.r.below(3);
                for _ in 0..n { self.ws0(); self.variant(); }
                if self.r.chance(1, 3) { self.ws0(); self.fallback_entry(); }
                self.t("}");
            }
        }
        self.nl();
    }
    fn service(&mut self) {
        self.prelude(true, true, false);
        self.o.push_str("service");
        self.ws1();
        let n = self.ident();
        self.o.push_str(&n);
        self.t("{");
        self.nl();
        self.ws0();
        self.prelude(true, false, false);
        self.o.push_str("uuid");
        self.t("=");
        self.ws0();
        let u = self.uuid();
        self.o.push_str(&u);
        self.t(";");
        self.nl();
        self.ws0();
        self.prelude(true, false, false);
        self.o.push_str("version");
        self.t("=");
        self.ws0();
        let v = self.int();
        self.o.push_str(&v);
        self.t(";");
        self.nl();
        let n = self.r.below(5);
        for _ in 0..n {
            self.ws0();
            self.prelude(true, true, false);
            if self.r.chance(3, 5) {
                self.o.push_str("fn");
                self.ws1();
                let n = self.ident();
                self.o.push_str(&n);
                self.t("@");
                self.ws0();
                let i = self.int();
                self.o.push_str(&i);
                match self.r.below(4) {
                    0 => { self.t(";"); self.nl(); }
                    1 => { self.t("="); self.inline(); }
                    _ => {
                        self.t("{");
                        self.nl();
                        for k in ["args", "ok", "err"] {
                            if self.r.chance(1, 2) {
                                self.ws0();
                                self.prelude(true, false, false);
                                self.o.push_str(k);
                                self.t("=");
                                self.inline();
                            }
                        }
                        self.t("}");
                        self.nl();
                    }
                }
            } else {
                self.o.push_str("event");
                self.ws1();
                let n = self.ident();
                self.o.push_str(&n);
                self.t("@");
                self.ws0();
                let i = self.int();
                self.o.push_str(&i);
                if self.r.chance(1, 3) { self.t(";"); self.nl(); } else { self.t("="); self.inline(); }
            }
        }
        let order = self.r.below(4);
        let fbs: &[&str] = match order { 0 => &[], 1 => &["fn"], 2 => &["event"], _ => if self.r.chance(1, 2) { &["fn", "event"] } else { &["event", "fn"] } };
        for k in fbs {
            self.ws0();
            self.prelude(true, true, false);
            self.o.push_str(k);
            self.ws1();
            let n = self.ident();
            self.o.push_str(&n);
            self.t("=");
            self.t("fallback");
            self.t(";");
            self.nl();
        }
        self.t("}");
        self.nl();
    }
    fn definition(&mut self) {
        self.ws0();
        match self.r.below(10) {
            0..=2 => {
                self.prelude(true, true, true);
                self.o.push_str("struct");
                self.ws1();
                let n = self.ident();
                self.o.push_str(&n);
                self.struct_body();
                self.nl();
            }
            3..=5 => {
                self.prelude(true, true, true);
                self.o.push_str("enum");
                self.ws1();
                let n = self.ident();
                self.o.push_str(&n);
                self.enum_body();
                self.nl();
            }
            6 => self.service(),
            7 => {
                self.prelude(true, true, false);
                self.o.push_str("const");
                self.ws1();
                let n = self.ident();
                self.o.push_str(&n);
                self.t("=");
                self.ws0();
                match self.r.below(3) {
                    0 => {
                        let k = *self.r.pick(&["u8", "i8", "u16", "i16", "u32", "i32", "u64", "i64"]);
                        self.o.push_str(k);
                        self.t("(");
                        self.ws0();
                        let i = self.int();
                        self.o.push_str(&i);
                        self.t(")");
                    }
                    1 => {
                        self.o.push_str("string");
                        self.t("(");
                        self.ws0();
                        let s = *self.r.pick(&["\"\"", "\"abc\"", "\"with \\\"quotes\\\"\"", "\"back\\\\slash\"", "\"a\\nb\"", "\"ä€\"", "\"// not a comment\"", "\"tab\there\"", "\"\\é\"", "\"x\\€\"", "\"\\\u{1F600}y\\q\""]);
                        self.o.push_str(s);
                        self.t(")");
                    }
                    _ => {
                        self.o.push_str("uuid");
                        self.t("(");
                        self.ws0();
                        let u = self.uuid();
                        self.o.push_str(&u);
                        self.t(")");
                    }
                }
                self.t(";");
                self.nl();
            }
            _ => {
                self.prelude(true, true, true);
                self.o.push_str("newtype");
                self.ws1();
                let n = self.ident();
                self.o.push_str(&n);
                self.t("=");
                self.ty(3);
                self.t(";");
                self.nl();
            }
        }
    }
    pub fn schema(&mut self) {
        self.ws0();
        if self.r.chance(1, 3) {
            let n = 1 + self.r.below(3);
            for _ in 0..n {
                let c = self.r.below(3);
                for _ in 0..c { self.line("//"); self.ws0(); }
                self.line("//!");
                self.ws0();
            }
        }
        let n = self.r.below(4);
        for _ in 0..n {
            self.ws0();
            self.prelude(true, false, false);
            self.o.push_str("import");
            self.ws1();
            let n = (*self.r.pick(&["zeta", "alpha", "mid", "alpha", "b", "B", "_a", "a1"])).to_string();
            self.o.push_str(&n);
            self.t(";");
            self.nl();
        }
        let n = self.r.below(5);
        for _ in 0..n { self.definition(); }
        if self.r.chance(1, 60) { self.o.push_str("// trailing comment"); }
        self.ws0();
    }
}

pub fn damage(r: &mut Rng, s: &str) -> String {
    let cs: Vec<char> = s.chars().collect();
    if cs.is_empty() { return "x".into(); }
    let i = r.below(cs.len() as u64) as usize;
    let mut out: Vec<char> = cs.clone();
    match r.below(4) {
        0 => { out.remove(i); }
        1 => { out.insert(i, *r.pick(&[';', '{', '}', '/', ' ', '\n', '@', '=', 'x', '<', '>', '#', '"', '-', ':', ',', '(', ')'])); }
        2 => { out[i] = *r.pick(&[';', '{', '}', '/', ' ', '\n', '@', '=', 'x', '<', '>', '#', '"']); }
        _ => { out.truncate(i); }
    }
    out.into_iter().collect()
}

pub fn parse(src: &str) -> Parser {
    Parser::parse(MemoryResolver::new("s", Ok(src.to_string())))
}

fn main() {
    let args: Vec<String> = std::env::args().collect();
    if args.len() < 4 {
        eprintln!("usage: fmtc <outdir> <seed> <cases>");
        std::process::exit(2);
    }
    let outdir = &args[1];
    let seed: u64 = args[2].parse().expect("seed");
    let cases: u64 = args[3].parse().expect("cases");
    std::fs::create_dir_all(outdir).unwrap();
    let mk = |n: &str| BufWriter::new(File::create(format!("{}/{}", outdir, n)).unwrap());
    let (mut req, mut rust, mut oracle) = (mk("req.txt"), mk("rust.txt"), mk("oracle.txt"));
    let mut rng = Rng::new(seed);
    let mut dist: BTreeMap<String, u64> = BTreeMap::new();
    let mut samples = vec![];
    let mut lines = 0usize;
    let mut fails = 0usize;
    let mut sources: Vec<String> = vec![];
    // replay of fixed sources: one hex string per line in a file given as 4th argument
    if args.len() > 4 {
        if let Ok(text) = std::fs::read_to_string(&args[4]) {
            for l in text.lines() {
                let l = l.trim();
                if l.is_empty() || l.starts_with('#') { continue; }
                if let Some(b) = verif_harness::unhex(l) {
                    if let Ok(s) = String::from_utf8(b) { sources.push(s); }
                }
            }
        }
    }
    for _ in 0..cases {
        let mut r = rng.fork();
        let messy = !r.chance(1, 5);
        let mut g = G { r: &mut r, o: String::new(), messy, adversarial: false };
        g.schema();
        let src = g.o;
        let src = if std::env::var("FMTC_NODAMAGE").is_err() && r.chance(1, 4) { damage(&mut r, &src) } else { src };
        sources.push(src);
    }
    for src in &sources {
        let res = catch_unwind(AssertUnwindSafe(|| {
            let p = parse(src);
            match Formatter::new(&p) {
                Err(_) => None,
                Ok(f) => Some((dump(p.main_schema(), false), dump(p.main_schema(), true), f.to_string(), diagnostics(&p))),
            }
        }));
        let h = hexs(src);
        match res {
            Err(_) => {
                writeln!(oracle, "FAIL C18 line={} parser or formatter panicked input={}", lines, h).unwrap();
                fails += 1;
                writeln!(req, "sast {}", h).unwrap();
                writeln!(rust, "PANIC").unwrap();
                lines += 1;
                *dist.entry("panic".into()).or_insert(0) += 1;
            }
            Ok(None) => {
                if std::env::var("FMTC_DEBUG").is_ok() { eprintln!("SYNTAX {:?}", src); }
                writeln!(req, "sast {}", h).unwrap();
                writeln!(rust, "err").unwrap();
                writeln!(req, "sfmt {}", h).unwrap();
                writeln!(rust, "err").unwrap();
                writeln!(req, "sval {}", h).unwrap();
                writeln!(rust, "err").unwrap();
                lines += 3;
                *dist.entry("syntax-error".into()).or_insert(0) += 1;
            }
            Ok(Some((d, d_sorted, f1, diag))) => {
                writeln!(req, "sast {}", h).unwrap();
                writeln!(rust, "ok {}", d).unwrap();
                writeln!(req, "sfmt {}", h).unwrap();
                writeln!(rust, "ok {}", hexs(&f1)).unwrap();
                // the model's answer is 1 when the AST it parsed satisfies the premises of the round-trip theorem
                // (well-formedness check, fuel bound) and the theorem's conclusion evaluates to true
                writeln!(req, "sval {}", h).unwrap();
                writeln!(rust, "ok 1").unwrap();
                lines += 3;
                *dist.entry("parsed".into()).or_insert(0) += 1;
                *dist.entry(format!("size.{}", match src.len() { 0..=99 => "<100", 100..=499 => "<500", 500..=1999 => "<2000", _ => ">=2000" })).or_insert(0) += 1;
                if samples.len() < 6 && lines % 97 == 5 && src.len() < 300 {
                    samples.push(format!("{:?} => {:?}", src, f1));
                }
                // oracles on the implementation alone
                let second = catch_unwind(AssertUnwindSafe(|| {
                    let p2 = parse(&f1);
                    match Formatter::new(&p2) {
                        Err(_) => None,
                        Ok(f) => Some((dump(p2.main_schema(), false), f.to_string(), diagnostics(&p2))),
                    }
                }));
                let mut fail = |what: &str| {
                    writeln!(oracle, "FAIL C18 line={} {} input={}", lines - 1, what, h).unwrap();
                    fails += 1;
                };
                match second {
                    Err(_) => fail("parser or formatter panicked on formatted text"),
                    Ok(None) => fail("formatted text has syntax errors"),
                    Ok(Some((d2, f2, diag2))) => {
                        if d2 != d_sorted { fail("formatted text parses to a different schema"); }
                        if f2 != f1 { fail("formatting is not idempotent"); }
                        if diag2 != diag {
                            if std::env::var("FMTC_DEBUG").is_ok() {
                                for d in diag.iter().filter(|d| !diag2.contains(d)) { eprintln!("- {}", d); }
                                for d in diag2.iter().filter(|d| !diag.contains(d)) { eprintln!("+ {}", d); }
                                eprintln!("----");
                            }
                            fail("formatted text reports different errors or warnings");
                        }
                    }
                }
            }
        }
    }
    req.flush().unwrap();
    rust.flush().unwrap();
    oracle.flush().unwrap();
    let mut stats = String::from("{\n");
    write!(stats, "  \"lines\": {},\n  \"oracle_fails\": {},\n  \"cases\": {},\n", lines, fails, cases).unwrap();
    write!(stats, "  \"samples\": [{}],\n", samples.iter().map(|s| format!("{:?}", s)).collect::<Vec<_>>().join(", ")).unwrap();
    write!(stats, "  \"distribution\": {{{}}}\n}}\n", dist.iter().map(|(k, v)| format!("{:?}: {}", k, v)).collect::<Vec<_>>().join(", ")).unwrap();
    std::fs::write(format!("{}/stats.json", outdir), stats).unwrap();
}
