//! Correspondence + oracle harness for the discoverer (C19).
//!
//! A real broker (aldrin-test `TestBroker` on a current-thread tokio runtime), one client that owns
//! objects and services over small UUID pools, one client with a `Discoverer` of 1-3 entries. After
//! every bus operation the discoverer's client is synchronised with the broker and the discoverer is
//! drained; the bus events the operation stands for are given to the Lean model (`dbus` lines), which
//! answers drains and state dumps.
//!
//! Every fourth scenario is about lifetimes instead (`Lifetime::poll_ended`): one object UUID that is created and
//! destroyed (new cookie each time) by the owner, lifetimes bound by the other client at some point of that history to
//! the living id, to an id of the past or to one that never existed, polled after every further operation; the
//! model answers `lft <target> <history before> | <history since>` with `ended` / `pending`.
//!
//! Usage: disc <outdir> <seed> <cases>

use aldrin::core::{ObjectId, ObjectUuid, ServiceId, ServiceUuid};
use aldrin::discoverer::{Discoverer, DiscovererEventKind};
use aldrin::low_level::{Service, ServiceInfo};
use aldrin::{Lifetime, LifetimeId, Object};
use aldrin::core::ObjectCookie;
use aldrin_test::tokio::TestBroker;
use std::collections::{BTreeMap, HashMap};
use std::fmt::Write as _;
use std::fs::File;
use std::io::{BufWriter, Write};
use std::task::{Context, Poll, Waker};
use uuid::Uuid;
use verif_harness::Rng;

fn ou(i: u64) -> ObjectUuid {
    ObjectUuid(Uuid::from_u128(0x0b1e_0000_0000_0000_0000_0000_0000_0000u128 + i as u128))
}
fn su(i: u64) -> ServiceUuid {
    ServiceUuid(Uuid::from_u128(0x5e21_0000_0000_0000_0000_0000_0000_0000u128 + i as u128))
}
fn ou_idx(u: ObjectUuid) -> u128 {
    u.0.as_u128() - 0x0b1e_0000_0000_0000_0000_0000_0000_0000u128
}
fn su_idx(u: ServiceUuid) -> u128 {
    u.0.as_u128() - 0x5e21_0000_0000_0000_0000_0000_0000_0000u128
}

#[derive(Clone, Debug)]
struct EntrySpec {
    key: u32,
    object: Option<u64>,
    services: Vec<u64>,
}

struct Names {
    map: HashMap<Uuid, usize>,
}
impl Names {
    fn ck(&mut self, u: Uuid) -> usize {
        let n = self.map.len();
        *self.map.entry(u).or_insert(n)
    }
}

struct Out {
    req: BufWriter<File>,
    rust: BufWriter<File>,
    oracle: BufWriter<File>,
    lines: usize,
    fails: usize,
    dist: BTreeMap<String, u64>,
    samples: Vec<String>,
}
impl Out {
    fn emit(&mut self, req: &str, rust: &str) {
        writeln!(self.req, "{}", req).unwrap();
        writeln!(self.rust, "{}", rust).unwrap();
        self.lines += 1;
        if self.samples.len() < 8 && self.lines % 211 == 5 {
            self.samples.push(format!("{} => {}", req, rust));
        }
    }
    fn fail(&mut self, what: &str, ctx: &str) {
        writeln!(self.oracle, "FAIL C19 line={} {} input={}", self.lines, what, ctx).unwrap();
        self.fails += 1;
    }
    fn count(&mut self, k: &str) {
        *self.dist.entry(k.to_string()).or_insert(0) += 1;
    }
}

fn obj_text(n: &mut Names, o: ObjectId) -> String {
    format!("{}/{}", ou_idx(o.uuid), n.ck(o.cookie.0))
}
fn svc_text(n: &mut Names, s: ServiceId) -> String {
    format!("{}/{}/{}", obj_text(n, s.object_id), su_idx(s.uuid), n.ck(s.cookie.0))
}

struct World {
    objects: HashMap<u64, Object>,
    services: HashMap<(u64, u64), Service>,
}

/// drain everything the discoverer has ready right now
fn drain(d: &mut Discoverer<u32>, n: &mut Names) -> Vec<String> {
    let waker = Waker::noop();
    let mut cx = Context::from_waker(&waker);
    let mut out = vec![];
    loop {
        match d.poll_next_event(&mut cx) {
            Poll::Ready(Some(ev)) => {
                let k = match ev.kind() {
                    DiscovererEventKind::Created => "C",
                    DiscovererEventKind::Destroyed => "D",
                };
                out.push(format!("{}:{}:{}", ev.key(), k, obj_text(n, ev.object_id())));
            }
            _ => break,
        }
    }
    out.sort();
    out
}

fn state_text(d: &Discoverer<u32>, specs: &[EntrySpec], n: &mut Names) -> String {
    let mut items = vec![];
    for e in d.iter() {
        let spec = specs.iter().find(|s| s.key == e.key()).unwrap();
        let mut svcs: Vec<String> = spec.services.iter().map(|s| {
            let sid = e.service_id(su(*s));
            format!("{}:{}", s, n.ck(sid.cookie.0))
        }).collect();
        svcs.sort();
        items.push(format!("{}={}[{}]", e.key(), obj_text(n, e.object_id()), svcs.join(",")));
    }
    items.sort();
    if items.is_empty() { "-".into() } else { items.join(" ") }
}

/// what a discoverer that has seen everything reports: the existing objects that match an entry and carry all its services
fn expected_view(specs: &[EntrySpec], world: &World, names: &mut Names) -> String {
    let mut expect = vec![];
    for e in specs {
        for (o, obj) in world.objects.iter() {
            if e.object.map_or(true, |x| x == *o) && e.services.iter().all(|s| world.services.contains_key(&(*o, *s))) {
                let mut svcs: Vec<String> = e.services.iter().map(|s| format!("{}:{}", s, names.ck(world.services[&(*o, *s)].id().cookie.0))).collect();
                svcs.sort();
                expect.push(format!("{}={}[{}]", e.key, obj_text(names, obj.id()), svcs.join(",")));
            }
        }
    }
    expect.sort();
    if expect.is_empty() { "-".to_string() } else { expect.join(" ") }
}

async fn scenario(out: &mut Out, rng: &mut Rng) {
    let mut broker = TestBroker::new();
    let mut owner = broker.add_client().await;
    let mut watcher = broker.add_client().await;
    let mut names = Names { map: HashMap::new() };
    let mut world = World { objects: HashMap::new(), services: HashMap::new() };

    // entries
    let nent = 1 + rng.below(3);
    let mut specs: Vec<EntrySpec> = vec![];
    for k in 0..nent {
        let nsvc = rng.below(3) as usize;
        let mut services = vec![];
        for _ in 0..nsvc {
            let s = rng.below(3);
            if !services.contains(&s) {
                services.push(s);
            }
        }
        let object = if rng.chance(1, 2) { Some(rng.below(3)) } else { None };
        specs.push(EntrySpec { key: k as u32, object, services });
    }
    let spec_text: Vec<String> = specs.iter().map(|e| format!("{}:{}:{}", e.key, match e.object { Some(o) => o.to_string(), None => "*".into() },
        if e.services.is_empty() { "-".to_string() } else { e.services.iter().map(|s| s.to_string()).collect::<Vec<_>>().join(",") })).collect();
    out.emit(&format!("dnew {}", spec_text.join(" ")), "ok");
    for e in &specs {
        out.count(match (e.object.is_some(), e.services.is_empty()) { (true, true) => "entry.bare", (true, false) => "entry.specific+services", (false, true) => "entry.any", (false, false) => "entry.any+services" });
    }

    // some scenarios start with a populated bus
    let pre = if rng.chance(1, 3) { rng.below(6) } else { 0 };
    for _ in 0..pre {
        bus_op(out, rng, &owner, &mut world, &mut names, None).await;
    }
    let mut current_only = rng.chance(1, 6);
    let mut b = watcher.handle().create_discoverer::<u32>();
    for e in &specs {
        b = b.add(e.key, e.object.map(ou), e.services.iter().map(|s| su(*s)));
    }
    let mut disc = if current_only { b.build_current_only().await.unwrap() } else { b.build().await.unwrap() };
    feed_current(out, &world, &mut names);
    watcher.handle().sync_broker().await.unwrap();
    let evs = drain(&mut disc, &mut names);
    out.emit("ddrain", &if evs.is_empty() { "-".to_string() } else { evs.join(" ") });

    let steps = 10 + rng.below(50);
    let mut mid_failed = false;
    for _ in 0..steps {
        match rng.below(12) {
            0 => {
                // restart; sometimes the bus moves on first and the discoverer is restarted before it has looked at
                // those events (they sit in its listener's queue and must not survive the restart)
                if rng.chance(1, 2) {
                    let k = 1 + rng.below(3);
                    for _ in 0..k {
                        bus_op(out, rng, &owner, &mut world, &mut names, if current_only { None } else { Some(()) }).await;
                    }
                    owner.handle().sync_broker().await.unwrap();
                    watcher.handle().sync_broker().await.unwrap();
                    out.count("restart.with_unconsumed_events");
                }
                let cur = rng.chance(1, 3);
                if cur { disc.restart_current_only().await.unwrap() } else { disc.restart().await.unwrap() }
                current_only = cur;
                out.emit("dreset", "ok");
                feed_current(out, &world, &mut names);
                watcher.handle().sync_broker().await.unwrap();
                let evs = drain(&mut disc, &mut names);
                out.emit("ddrain", &if evs.is_empty() { "-".to_string() } else { evs.join(" ") });
                out.count(if cur { "restart.current_only" } else { "restart.all" });
            }
            1 => {
                let st = state_text(&disc, &specs, &mut names);
                out.emit("dstate", &st);
            }
            _ => {
                bus_op(out, rng, &owner, &mut world, &mut names, if current_only { None } else { Some(()) }).await;
                owner.handle().sync_broker().await.unwrap();
                watcher.handle().sync_broker().await.unwrap();
                let evs = drain(&mut disc, &mut names);
                out.emit("ddrain", &if evs.is_empty() { "-".to_string() } else { evs.join(" ") });
                // the same convergence oracle in the middle of the history: the bus is quiet and everything is consumed
                if !current_only && !mid_failed {
                    let st = state_text(&disc, &specs, &mut names);
                    let expect = expected_view(&specs, &world, &mut names);
                    if expect != st {
                        out.fail(&format!("(in the middle of the history, bus quiet, all events consumed) discoverer reports `{}` but the bus holds `{}`", st, expect), &spec_text.join(" "));
                        mid_failed = true;
                    }
                    out.count("converged.checked_mid");
                }
            }
        }
    }
    // convergence oracle: once activity has stopped and everything is consumed, the discoverer reports exactly
    // the existing objects that match an entry and carry all its services (unless it only looked at the past)
    watcher.handle().sync_broker().await.unwrap();
    let _ = drain(&mut disc, &mut names);
    let st = state_text(&disc, &specs, &mut names);
    out.emit("dstate", &st);
    if !current_only {
        let expect = expected_view(&specs, &world, &mut names);
        if expect != st {
            out.fail(&format!("discoverer reports `{}` but the bus holds `{}`", st, expect), &spec_text.join(" "));
        }
        out.count("converged.checked");
    }
    // `find_object` looks at the bus once: it returns an object iff one matches now (the first entry's request)
    if let Some(e) = specs.first() {
        let found = watcher.handle().find_object(e.object.map(ou), e.services.iter().map(|s| su(*s))).await.unwrap();
        let matching: Vec<ObjectId> = world.objects.iter().filter(|(o, _)| e.object.map_or(true, |x| x == **o)
            && e.services.iter().all(|s| world.services.contains_key(&(**o, *s)))).map(|(_, obj)| obj.id()).collect();
        let ok = match &found {
            Some((id, svcs)) => matching.contains(id) && svcs.len() == e.services.len()
                && e.services.iter().zip(svcs.iter()).all(|(s, sid)| world.services.get(&(ou_idx(id.uuid) as u64, *s)).map_or(false, |sv| sv.id() == *sid)),
            None => matching.is_empty(),
        };
        if !ok {
            out.fail(&format!("find_object returned {:?} but the matching objects are {:?}", found, matching), &spec_text.join(" "));
        }
        out.count(if found.is_some() { "find_object.some" } else { "find_object.none" });
    }
    drop(disc);
    world.services.clear();
    world.objects.clear();
    owner.join().await;
    watcher.join().await;
    broker.join_idle().await;
}

/// has the lifetime ended, as far as it can tell from what has arrived
fn poll_lifetime(l: &mut Lifetime) -> bool {
    let waker = Waker::noop();
    let mut cx = Context::from_waker(&waker);
    matches!(l.poll_ended(&mut cx), Poll::Ready(()))
}

async fn lifetime_scenario(out: &mut Out, rng: &mut Rng) {
    let mut broker = TestBroker::new();
    let mut owner = broker.add_client().await;
    let mut watcher = broker.add_client().await;
    let mut names = Names { map: HashMap::new() };
    let u = ou(rng.below(3));
    let mut alive: Option<Object> = None;
    let mut past: Vec<ObjectId> = vec![];
    let mut pre: Vec<String> = vec![];
    let mut step = |rng: &mut Rng, alive: &mut Option<Object>| rng.chance(3, 4) || alive.is_none();
    let npre = rng.below(6);
    for _ in 0..npre {
        if !step(rng, &mut alive) {
            continue;
        }
        match alive.take() {
            Some(obj) => {
                obj.destroy().await.unwrap();
                pre.push("d".into());
            }
            None => {
                let obj = owner.handle().create_object(u).await.unwrap();
                pre.push(format!("c{}", names.ck(obj.id().cookie.0)));
                past.push(obj.id());
                alive = Some(obj);
            }
        }
    }
    owner.handle().sync_broker().await.unwrap();
    // the lifetimes
    let nl = 1 + rng.below(3);
    let mut lts: Vec<(ObjectId, usize, Lifetime, bool)> = vec![];
    for _ in 0..nl {
        let id = match rng.below(4) {
            0 => ObjectId::new(u, ObjectCookie(Uuid::from_u128(0x1e55_0000_0000_0000_0000_0000_0000_0000u128 + rng.below(1 << 30) as u128))),
            1 | 2 if alive.is_some() => alive.as_ref().unwrap().id(),
            _ if !past.is_empty() => past[rng.below(past.len() as u64) as usize],
            _ => ObjectId::new(u, ObjectCookie(Uuid::from_u128(0x1e55_0000_0000_0000_0000_0000_0000_0000u128 + rng.below(1 << 30) as u128))),
        };
        let t = names.ck(id.cookie.0);
        let l = watcher.handle().create_lifetime(LifetimeId(id)).await.unwrap();
        out.count(if alive.as_ref().map_or(false, |o| o.id() == id) { "lifetime.bound_alive" } else if past.contains(&id) { "lifetime.bound_past" } else { "lifetime.bound_never" });
        lts.push((id, t, l, false));
    }
    let mut post: Vec<String> = vec![];
    let nsteps = rng.below(7);
    for k in 0..=nsteps {
        if k > 0 && rng.chance(2, 3) {
            match alive.take() {
                Some(obj) => {
                    obj.destroy().await.unwrap();
                    post.push("d".into());
                }
                None => {
                    let obj = owner.handle().create_object(u).await.unwrap();
                    post.push(format!("c{}", names.ck(obj.id().cookie.0)));
                    alive = Some(obj);
                }
            }
        }
        owner.handle().sync_broker().await.unwrap();
        watcher.handle().sync_broker().await.unwrap();
        for (id, t, l, was) in lts.iter_mut() {
            let ended = poll_lifetime(l);
            let line = format!("lft {} {} | {}", t, pre.join(" "), post.join(" "));
            out.emit(&line, if ended { "ended" } else { "pending" });
            let scope_alive = alive.as_ref().map_or(false, |o| o.id() == *id);
            if ended == scope_alive {
                out.fail(&format!("lifetime is {} while its scope {}", if ended { "ended" } else { "pending" }, if scope_alive { "lives" } else { "does not live" }), &line);
            }
            if ended != l.has_ended() || (*was && !ended) {
                out.fail("has_ended disagrees with poll_ended, or an ended lifetime came back", &line);
            }
            *was = ended;
            out.count(if ended { "lifetime.ended" } else { "lifetime.pending" });
        }
    }
    drop(lts);
    drop(alive);
    owner.join().await;
    watcher.join().await;
    broker.join_idle().await;
}

/// the created-events a (re)started listener reports for what exists: objects, then services
fn feed_current(out: &mut Out, world: &World, names: &mut Names) {
    let mut objs: Vec<&Object> = world.objects.values().collect();
    objs.sort_by_key(|o| o.id().uuid.0);
    for o in objs {
        let t = obj_text(names, o.id());
        out.emit(&format!("dbus oc {}", t), "ok");
    }
    let mut svcs: Vec<&Service> = world.services.values().collect();
    svcs.sort_by_key(|s| (s.id().object_id.uuid.0, s.id().uuid.0));
    for s in svcs {
        let t = svc_text(names, s.id());
        out.emit(&format!("dbus sc {}", t), "ok");
    }
}

/// one bus operation by the owner; `feed` = whether the discoverer's listener will see it
async fn bus_op(out: &mut Out, rng: &mut Rng, owner: &aldrin_test::tokio::TestClient, world: &mut World, names: &mut Names, feed: Option<()>) {
    let o = rng.below(3);
    let s = rng.below(3);
    let emit = |out: &mut Out, line: String| {
        if feed.is_some() {
            out.emit(&line, "ok");
        }
    };
    match rng.below(7) {
        0 | 1 => {
            if !world.objects.contains_key(&o) {
                let obj = owner.handle().create_object(ou(o)).await.unwrap();
                emit(out, format!("dbus oc {}", obj_text(names, obj.id())));
                world.objects.insert(o, obj);
                out.count("op.create_object");
            }
        }
        2 => {
            if let Some(obj) = world.objects.remove(&o) {
                // the broker reports the object's services first
                let mut gone: Vec<(u64, u64)> = world.services.keys().filter(|k| k.0 == o).cloned().collect();
                gone.sort();
                obj.destroy().await.unwrap();
                for k in gone {
                    let svc = world.services.remove(&k).unwrap();
                    emit(out, format!("dbus sd {}", svc_text(names, svc.id())));
                }
                emit(out, format!("dbus od {}", obj_text(names, obj.id())));
                out.count("op.destroy_object");
            }
        }
        3 | 4 | 5 => {
            if let Some(obj) = world.objects.get(&o) {
                if !world.services.contains_key(&(o, s)) {
                    let svc = obj.create_service(su(s), ServiceInfo::new(0)).await.unwrap();
                    emit(out, format!("dbus sc {}", svc_text(names, svc.id())));
                    world.services.insert((o, s), svc);
                    out.count("op.create_service");
                }
            }
        }
        _ => {
            if let Some(svc) = world.services.remove(&(o, s)) {
                svc.destroy().await.unwrap();
                emit(out, format!("dbus sd {}", svc_text(names, svc.id())));
                out.count("op.destroy_service");
            }
        }
    }
}

fn main() {
    let args: Vec<String> = std::env::args().collect();
    if args.len() < 4 {
        eprintln!("usage: disc <outdir> <seed> <cases>");
        std::process::exit(2);
    }
    let outdir = &args[1];
    let seed: u64 = args[2].parse().expect("seed");
    let cases: u64 = args[3].parse().expect("cases");
    std::fs::create_dir_all(outdir).unwrap();
    let mk = |n: &str| BufWriter::new(File::create(format!("{}/{}", outdir, n)).unwrap());
    let mut out = Out { req: mk("req.txt"), rust: mk("rust.txt"), oracle: mk("oracle.txt"), lines: 0, fails: 0, dist: BTreeMap::new(), samples: vec![] };
    let mut rng = Rng::new(seed);
    for case in 0..cases {
        let mut r = rng.fork();
        let start = out.lines;
        let res = std::panic::catch_unwind(std::panic::AssertUnwindSafe(|| {
            let rt = tokio::runtime::Builder::new_current_thread().build().unwrap();
            if case % 4 == 3 {
                rt.block_on(lifetime_scenario(&mut out, &mut r));
            } else {
                rt.block_on(scenario(&mut out, &mut r));
            }
        }));
        if res.is_err() {
            // the discoverer (or the client under it) panicked while the bus events of this scenario were
            // delivered: keep the streams aligned and report the scenario as the failing history
            out.emit(if case % 4 == 3 { "lft 0 |" } else { "ddrain" }, "PANIC");
            out.fail("the discoverer / lifetime panicked while handling the bus events of this scenario", &format!("scenario starting at line {}", start + 1));
        }
    }
    out.req.flush().unwrap();
    out.rust.flush().unwrap();
    out.oracle.flush().unwrap();
    let mut stats = String::from("{\n");
    write!(stats, "  \"lines\": {},\n  \"oracle_fails\": {},\n  \"cases\": {},\n", out.lines, out.fails, cases).unwrap();
    write!(stats, "  \"samples\": [{}],\n", out.samples.iter().map(|s| format!("{:?}", s)).collect::<Vec<_>>().join(", ")).unwrap();
    write!(stats, "  \"distribution\": {{{}}}\n}}\n", out.dist.iter().map(|(k, v)| format!("{:?}: {}", k, v)).collect::<Vec<_>>().join(", ")).unwrap();
    std::fs::write(format!("{}/stats.json", outdir), stats).unwrap();
}
