//! Correspondence and oracle harness for the client side of an established channel: the real `Sender` and `Receiver`
//! of two real clients on a real broker (aldrin-test `TestBroker`, current-thread tokio runtime), driven by a random
//! schedule of "send if ready" / "take" / "poll receiver_closed" / "poll send_ready", with the system brought to rest
//! after every operation (`sync_broker` on both clients). The same schedule, as `cch <max> s t c r …`, goes to the
//! composed Lean model (`Model/ClientChan.lean`).
//!
//! Oracles (no model involved): items arrive in send order; nothing is ever closed; never more items outstanding than
//! the receiver's capacity; a sender whose receiver has taken every item is ready.

use aldrin::low_level::{Receiver, Sender};
use aldrin_test::tokio::TestBroker;
use std::collections::BTreeMap;
use std::fmt::Write as _;
use std::fs::File;
use std::io::{BufWriter, Write};
use std::task::{Context, Poll, Waker};
use verif_harness::Rng;

fn field(dbg: &str, name: &str) -> String {
    dbg.split(&format!("{}: ", name)).nth(1).map(|r| r.chars().take_while(|c| c.is_ascii_digit()).collect::<String>()).unwrap_or_else(|| "?".into())
}

struct CaseResult {
    rust: String,
    fails: Vec<String>,
    sent: u64,
    taken: u64,
    blocked: u64,
}

async fn run_case(hs: &aldrin::Handle, hr: &aldrin::Handle, max: u32, ops: &[char]) -> Result<CaseResult, String> {
    let e = |x: aldrin::Error| format!("{:?}", x);
    let (ps, ur) = hs.create_low_level_channel().claim_sender().await.map_err(e)?;
    let mut receiver: Receiver = ur.unbind().claim(hr.clone(), max).await.map_err(e)?;
    let mut sender: Sender = ps.establish().await.map_err(e)?;
    let waker = Waker::noop();
    let mut cx = Context::from_waker(&waker);
    let (mut sent, mut taken, mut blocked) = (0u64, 0u64, 0u64);
    let mut out: Vec<&'static str> = vec![];
    let mut fails = vec![];
    for op in ops {
        match op {
            's' | 'r' => {
                match sender.poll_send_ready(&mut cx) {
                    Poll::Ready(Ok(())) => {
                        if *op == 's' {
                            match sender.start_send_item(sent) {
                                Ok(()) => {
                                    sent += 1;
                                    out.push("sent");
                                }
                                Err(_) => out.push("closed"),
                            }
                        } else {
                            out.push("ready");
                        }
                    }
                    Poll::Pending => {
                        out.push("blocked");
                        blocked += 1;
                        if sent == taken {
                            fails.push(format!("the sender may not send although the receiver has taken all {} items", sent));
                        }
                    }
                    Poll::Ready(Err(_)) => out.push("closed"),
                }
                hs.sync_broker().await.map_err(e)?;
                hr.sync_broker().await.map_err(e)?;
            }
            't' => {
                match receiver.poll_next_item::<u64>(&mut cx) {
                    Poll::Ready(Ok(Some(v))) => {
                        if v != taken {
                            fails.push(format!("item {} arrived where item {} was due", v, taken));
                        }
                        taken += 1;
                        out.push("item");
                    }
                    Poll::Pending => {
                        out.push("empty");
                        if sent != taken {
                            fails.push(format!("{} items were sent, {} taken, and the receiver has nothing", sent, taken));
                        }
                    }
                    _ => out.push("closed"),
                }
                hr.sync_broker().await.map_err(e)?;
                hs.sync_broker().await.map_err(e)?;
            }
            _ => {
                match sender.poll_receiver_closed(&mut cx) {
                    Poll::Pending => out.push("pending"),
                    Poll::Ready(()) => out.push("closed"),
                }
            }
        }
        if out.last() == Some(&"closed") {
            fails.push("an end of the channel was closed although both sides kept to the protocol".into());
            break;
        }
        if sent - taken > max as u64 {
            fails.push(format!("{} items are outstanding, the receiver's capacity is {}", sent - taken, max));
        }
    }
    let rust = format!("{} cap={} cur={}", out.join(" "), field(&format!("{:?}", sender), "capacity"), field(&format!("{:?}", receiver), "cur_capacity"));
    let _ = sender.close().await;
    let _ = receiver.close().await;
    Ok(CaseResult { rust, fails, sent, taken, blocked })
}

fn gen_case(r: &mut Rng) -> (u32, Vec<char>) {
    let max = match r.below(10) {
        0 => 1,
        1..=5 => 1 + r.below(12) as u32,
        6 | 7 => 4 + r.below(3) as u32,
        8 => 16 + r.below(20) as u32,
        _ => 100,
    };
    let mut ops = vec![];
    let rounds = 1 + r.below(8);
    for _ in 0..rounds {
        let wide = r.chance(1, 4);
        let burst = 1 + r.below(if wide { max as u64 + 3 } else { 5 });
        match r.below(6) {
            0 | 1 | 2 => {
                for _ in 0..burst {
                    ops.push('s');
                    if r.chance(1, 3) {
                        ops.push('c');
                    }
                }
            }
            3 | 4 => {
                for _ in 0..burst {
                    ops.push('t');
                    if r.chance(1, 3) {
                        ops.push('c');
                    }
                }
            }
            _ => {
                for _ in 0..burst {
                    ops.push(*r.pick(&['s', 't', 'c', 'r']));
                }
            }
        }
    }
    (max, ops)
}

fn parse_line(l: &str) -> Option<(u32, Vec<char>)> {
    let mut it = l.split_whitespace();
    if it.next()? != "cch" {
        return None;
    }
    let max: u32 = it.next()?.parse().ok()?;
    let ops: Vec<char> = it.filter_map(|t| t.chars().next()).collect();
    if max == 0 || ops.iter().any(|c| !"stcr".contains(*c)) {
        return None;
    }
    Some((max, ops))
}

fn main() {
    let args: Vec<String> = std::env::args().collect();
    if args.len() < 4 {
        eprintln!("usage: chan <outdir> <seed> <cases> [--replay <file> | corpus-file]");
        std::process::exit(2);
    }
    let outdir = &args[1];
    let seed: u64 = args[2].parse().expect("seed");
    let cases: u64 = args[3].parse().expect("cases");
    std::fs::create_dir_all(outdir).unwrap();
    let mk = |n: &str| BufWriter::new(File::create(format!("{}/{}", outdir, n)).unwrap());
    let (mut req, mut rust, mut oracle) = (mk("req.txt"), mk("rust.txt"), mk("oracle.txt"));
    let mut dist: BTreeMap<String, u64> = BTreeMap::new();
    let mut samples: Vec<String> = vec![];
    let mut all: Vec<((u32, Vec<char>), &str)> = vec![];
    let replaying = args.len() > 5 && args[4] == "--replay";
    let file = if replaying { args.get(5) } else { args.get(4) };
    if let Some(f) = file {
        if let Ok(text) = std::fs::read_to_string(f) {
            for l in text.lines() {
                let l = l.trim().trim_start_matches("REQ:").trim();
                let l = l.split("input=").last().unwrap_or(l).replace('_', " ");
                if let Some(c) = parse_line(&l) {
                    all.push((c, if replaying { "replay" } else { "corpus" }));
                }
            }
        }
    }
    let mut rng = Rng::new(seed);
    if !replaying {
        for _ in 0..cases {
            let mut r = rng.fork();
            all.push((gen_case(&mut r), "random"));
        }
    }
    let (mut lines, mut fails) = (0u64, 0u64);
    let rt = tokio::runtime::Builder::new_current_thread().build().unwrap();
    rt.block_on(async {
        let mut broker = TestBroker::new();
        let mut cs = broker.add_client().await;
        let mut cr = broker.add_client().await;
        for ((max, ops), kind) in &all {
            let line = format!("cch {} {}", max, ops.iter().map(|c| c.to_string()).collect::<Vec<_>>().join(" "));
            let res = run_case(cs.handle(), cr.handle(), *max, ops).await;
            writeln!(req, "{}", line).unwrap();
            lines += 1;
            *dist.entry(format!("case.{}", kind)).or_insert(0) += 1;
            *dist.entry(format!("max.{}", match *max { 1 => "1", 2..=3 => "2-3", 4..=6 => "4-6 (low-water mark)", 7..=12 => "7-12", 13..=40 => "13-40", _ => "100" })).or_insert(0) += 1;
            match res {
                Ok(c) => {
                    writeln!(rust, "{}", c.rust).unwrap();
                    *dist.entry("op.sent".into()).or_insert(0) += c.sent;
                    *dist.entry("op.taken".into()).or_insert(0) += c.taken;
                    *dist.entry("op.blocked".into()).or_insert(0) += c.blocked;
                    *dist.entry("op.poll_receiver_closed".into()).or_insert(0) += ops.iter().filter(|c| **c == 'c').count() as u64;
                    for f in &c.fails {
                        fails += 1;
                        writeln!(oracle, "FAIL C05 {} input={}", f, line.replace(' ', "_")).unwrap();
                    }
                    if samples.len() < 4 && c.blocked > 0 && c.taken > 2 {
                        samples.push(format!("{} => {}", line, c.rust));
                    }
                }
                Err(e) => {
                    writeln!(rust, "error {}", e).unwrap();
                    fails += 1;
                    writeln!(oracle, "FAIL C05 the channel could not be set up or synchronised: {} input={}", e, line.replace(' ', "_")).unwrap();
                }
            }
        }
        let _ = cs.join().await;
        let _ = cr.join().await;
        let _ = broker.join().await;
    });
    req.flush().unwrap();
    rust.flush().unwrap();
    oracle.flush().unwrap();
    let mut stats = String::from("{\n");
    write!(stats, "  \"lines\": {},\n  \"oracle_fails\": {},\n  \"cases\": {},\n", lines, fails, all.len()).unwrap();
    write!(stats, "  \"samples\": [{}],\n", samples.iter().map(|s| format!("{:?}", s)).collect::<Vec<_>>().join(", ")).unwrap();
    write!(stats, "  \"distribution\": {{{}}}\n}}\n", dist.iter().map(|(k, v)| format!("{:?}: {}", k, v)).collect::<Vec<_>>().join(", ")).unwrap();
    std::fs::write(format!("{}/stats.json", outdir), stats).unwrap();
}
