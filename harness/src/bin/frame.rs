//! Correspondence + oracle harness for framing (C14): the real `Packetizer` under arbitrary
//! chunkings through both feed interfaces, and the real `TokioTransport` over a scripted
//! `AsyncRead + AsyncWrite` object.
//!
//! Usage: frame <outdir> <seed> <cases> [corpus-file]
//! Request lines (see lean/Driver/Main.lean): `pk <hexstream> <op>*`, `tp <hexinput> <script> <op>*`.

use aldrin_core::message::{
    CallFunction, CreateObject, EmitEvent, Message, MessageOps, Packetizer, SendItem, Shutdown, Sync,
};
use aldrin_core::tokio::TokioTransport;
use aldrin_core::transport::AsyncTransport;
use aldrin_core::{ChannelCookie, ObjectUuid, SerializedValue, ServiceCookie};
use std::collections::{BTreeMap, VecDeque};
use std::fmt::Write as _;
use std::fs::File;
use std::io::{BufWriter, Write};
use std::panic::{catch_unwind, AssertUnwindSafe};
use std::pin::Pin;
use std::task::{Context, Poll, Waker};
use tokio::io::{AsyncRead, AsyncWrite, ReadBuf};
use uuid::Uuid;
use verif_harness::{hex, Rng};

struct Out {
    req: BufWriter<File>,
    rust: BufWriter<File>,
    oracle: BufWriter<File>,
    lines: usize,
    oracle_fails: usize,
    stats: BTreeMap<String, u64>,
    samples: Vec<String>,
}

impl Out {
    fn emit(&mut self, req: &str, rust: &str) {
        writeln!(self.req, "{}", req).unwrap();
        writeln!(self.rust, "{}", rust).unwrap();
        self.lines += 1;
        if self.samples.len() < 8 && req.len() < 260 {
            self.samples.push(format!("{} => {}", req, rust));
        }
    }
    fn fail(&mut self, what: &str, input: &str) {
        writeln!(self.oracle, "FAIL C14 line={} {} input={}", self.lines, what, input).unwrap();
        self.oracle_fails += 1;
    }
    fn count(&mut self, key: &str, n: u64) {
        *self.stats.entry(key.to_string()).or_insert(0) += n;
    }
}

fn payload(rng: &mut Rng, n: usize) -> SerializedValue {
    // a Bytes value of n payload bytes
    let bytes = aldrin_core::Bytes(rng.bytes(n));
    SerializedValue::serialize(&bytes).unwrap()
}

fn gen_message(rng: &mut Rng, big: bool) -> Message {
    let size = if big {
        *rng.pick(&[60_000usize, 65_530, 65_536, 70_000, 131_072, 200_000])
    } else {
        match rng.below(10) {
            0..=5 => rng.range(0, 40) as usize,
            6..=8 => rng.range(200, 2000) as usize,
            _ => rng.range(3000, 9_000) as usize,
        }
    };
    match rng.below(7) {
        0 => Message::Shutdown(Shutdown),
        1 => Message::Sync(Sync { serial: rng.next() as u32 }),
        2 => Message::CreateObject(CreateObject { serial: rng.next() as u32, uuid: ObjectUuid(Uuid::from_u128(rng.next() as u128)) }),
        3 => Message::SendItem(SendItem { cookie: ChannelCookie(Uuid::from_u128(rng.next() as u128)), value: payload(rng, size) }),
        4 => Message::EmitEvent(EmitEvent { service_cookie: ServiceCookie(Uuid::from_u128(rng.next() as u128)), event: rng.next() as u32, value: payload(rng, size) }),
        _ => Message::CallFunction(CallFunction {
            serial: rng.next() as u32,
            service_cookie: ServiceCookie(Uuid::from_u128(rng.next() as u128)),
            function: rng.next() as u32,
            value: payload(rng, size),
        }),
    }
}

fn chunk_size(rng: &mut Rng, policy: u64, remaining: usize, next_boundary: usize) -> usize {
    let n = match policy {
        0 => 1,
        1 => rng.range(1, 7) as usize,
        2 => rng.range(1, 300) as usize,
        3 => next_boundary.max(1),                                   // aligned to frame boundaries
        4 => (next_boundary + rng.range(0, 3) as usize).max(1),      // just past a boundary
        5 => next_boundary.saturating_sub(rng.range(1, 3) as usize).max(1), // just short of it
        _ => rng.range(1, 70_000) as usize,
    };
    n.min(remaining).max(if remaining > 0 { 1 } else { 0 })
}

/// The Lean model keeps the buffer as a list, so one operation costs O(buffer): keep
/// (#operations x stream length) bounded by never feeding less than 1/40 of the stream at once on
/// long streams. Single-byte feeding is exercised on streams below 2 KiB.
fn min_chunk(stream_len: usize) -> usize {
    if stream_len <= 2048 { 1 } else { stream_len / 40 }
}

fn packetizer_case(out: &mut Out, rng: &mut Rng, big: bool) {
    let nmsgs = rng.range(1, if big { 3 } else { 8 });
    let mut frames: Vec<Vec<u8>> = Vec::new();
    for i in 0..nmsgs {
        let m = gen_message(rng, big && i == 0);
        frames.push(m.serialize_message().unwrap().to_vec());
    }
    let stream: Vec<u8> = frames.iter().flatten().copied().collect();
    let policy = rng.below(7);
    let feed_mode = rng.below(3); // 0 extend only, 1 spare only, 2 mixed
    let drain_mode = rng.below(4); // 0 after every feed, 1 random, 2 only at the end, 3 once early then at the end
    out.count(&format!("pk.policy.{}", policy), 1);
    out.count(&format!("pk.feed.{}", feed_mode), 1);
    out.count(&format!("pk.drain.{}", drain_mode), 1);
    let mut ops: Vec<String> = Vec::new();
    let mut answers: Vec<String> = Vec::new();
    let mut emitted: Vec<Vec<u8>> = Vec::new();
    let mut empty_slice = false;
    let stream_hex = hex(&stream);
    let res = catch_unwind(AssertUnwindSafe(|| {
        let mut pk = Packetizer::new();
        let mut pos = 0usize;
        let mut fed_ops = 0u64;
        let mut boundaries: VecDeque<usize> = {
            let mut acc = 0;
            frames.iter().map(|f| { acc += f.len(); acc }).collect()
        };
        let mut drain = |pk: &mut Packetizer, ops: &mut Vec<String>, answers: &mut Vec<String>, emitted: &mut Vec<Vec<u8>>| {
            ops.push("d".into());
            match pk.next_message() {
                Some(f) => {
                    answers.push(hex(&f));
                    emitted.push(f.to_vec());
                }
                None => answers.push(".".into()),
            }
        };
        while pos < stream.len() {
            while boundaries.front().map_or(false, |b| *b <= pos) {
                boundaries.pop_front();
            }
            let nb = boundaries.front().map_or(stream.len() - pos, |b| *b - pos);
            let n = chunk_size(rng, policy, stream.len() - pos, nb).max(min_chunk(stream.len())).min(stream.len() - pos);
            let use_spare = match feed_mode {
                0 => false,
                1 => true,
                _ => rng.chance(1, 2),
            };
            if use_spare {
                let slice = pk.spare_capacity_mut();
                if slice.is_empty() {
                    empty_slice = true;
                    // cannot make progress through this interface
                    pk.extend_from_slice(&stream[pos..pos + n]);
                    ops.push(format!("x{}", n));
                    pos += n;
                } else {
                    let k = n.min(slice.len());
                    for (d, s) in slice.iter_mut().zip(&stream[pos..pos + k]) {
                        d.write(*s);
                    }
                    unsafe { pk.bytes_written(k) };
                    ops.push(format!("f{}", k));
                    pos += k;
                }
            } else {
                pk.extend_from_slice(&stream[pos..pos + n]);
                ops.push(format!("x{}", n));
                pos += n;
            }
            fed_ops += 1;
            let do_drain = match drain_mode {
                0 => true,
                1 => rng.chance(1, 3),
                2 => false,
                _ => fed_ops == 1,
            };
            if do_drain {
                drain(&mut pk, &mut ops, &mut answers, &mut emitted);
                if rng.chance(1, 4) {
                    drain(&mut pk, &mut ops, &mut answers, &mut emitted);
                }
            }
        }
        for _ in 0..frames.len() + 1 {
            drain(&mut pk, &mut ops, &mut answers, &mut emitted);
        }
    }));
    if res.is_err() {
        out.fail("panic while driving the packetizer", &format!("ops={}", ops.join(",")));
        return;
    }
    // oracles on the implementation alone
    if empty_slice {
        out.fail("spare_capacity_mut returned an empty slice", &format!("ops={}", ops.join(",")));
    }
    if emitted != frames {
        out.fail("frames out differ from frames in", &format!("ops={}", ops.join(",")));
    }
    out.count("pk.frames", frames.len() as u64);
    out.count("pk.bytes", stream.len() as u64);
    out.emit(&format!("pk {} {}", stream_hex, ops.join(" ")), &format!("{} buf=0", answers.join(" ")));
}

#[derive(Clone, Copy, Debug)]
enum Step {
    Ok(usize),
    Pending,
    Fail,
}

struct MockState {
    inp: Vec<u8>,
    pos: usize,
    script: VecDeque<Step>,
    effective: Vec<String>,
    written: Vec<u8>,
    empty_read_slice: bool,
    reads: u64,
}

/// The scripted I/O object; the harness keeps a second handle to look at its state.
struct MockIo(std::rc::Rc<std::cell::RefCell<MockState>>);

fn script_err() -> std::io::Error {
    std::io::Error::new(std::io::ErrorKind::Other, "script-exhausted")
}

impl AsyncRead for MockIo {
    fn poll_read(self: Pin<&mut Self>, _cx: &mut Context<'_>, buf: &mut ReadBuf<'_>) -> Poll<std::io::Result<()>> {
        let mut st = self.0.borrow_mut();
        if buf.remaining() == 0 {
            st.empty_read_slice = true;
        }
        match st.script.pop_front() {
            None => Poll::Ready(Err(script_err())),
            Some(Step::Ok(n)) => {
                let k = n.min(st.inp.len() - st.pos).min(buf.remaining());
                let pos = st.pos;
                // every other read goes the way TLS / compat adapters do it: the whole unfilled part of the buffer is
                // initialised first, then only k bytes of it are filled (filled < initialized afterwards)
                st.reads += 1;
                if st.reads % 2 == 0 {
                    let spare = buf.initialize_unfilled();
                    spare[..k].copy_from_slice(&st.inp[pos..pos + k]);
                    buf.advance(k);
                } else {
                    buf.put_slice(&st.inp[pos..pos + k]);
                }
                st.pos += k;
                st.effective.push(format!("o{}", k));
                Poll::Ready(Ok(()))
            }
            Some(Step::Pending) => {
                st.effective.push("p".into());
                Poll::Pending
            }
            Some(Step::Fail) => {
                st.effective.push("f".into());
                Poll::Ready(Err(std::io::Error::new(std::io::ErrorKind::BrokenPipe, "scripted")))
            }
        }
    }
}

impl AsyncWrite for MockIo {
    fn poll_write(self: Pin<&mut Self>, _cx: &mut Context<'_>, buf: &[u8]) -> Poll<std::io::Result<usize>> {
        let mut st = self.0.borrow_mut();
        match st.script.pop_front() {
            None => Poll::Ready(Err(script_err())),
            Some(Step::Ok(n)) => {
                let k = n.min(buf.len());
                st.written.extend_from_slice(&buf[..k]);
                st.effective.push(format!("o{}", n));
                Poll::Ready(Ok(k))
            }
            Some(Step::Pending) => {
                st.effective.push("p".into());
                Poll::Pending
            }
            Some(Step::Fail) => {
                st.effective.push("f".into());
                Poll::Ready(Err(std::io::Error::new(std::io::ErrorKind::BrokenPipe, "scripted")))
            }
        }
    }
    fn poll_flush(self: Pin<&mut Self>, _cx: &mut Context<'_>) -> Poll<std::io::Result<()>> {
        let mut st = self.0.borrow_mut();
        match st.script.pop_front() {
            None => Poll::Ready(Err(script_err())),
            Some(Step::Ok(n)) => {
                st.effective.push(format!("o{}", n));
                Poll::Ready(Ok(()))
            }
            Some(Step::Pending) => {
                st.effective.push("p".into());
                Poll::Pending
            }
            Some(Step::Fail) => {
                st.effective.push("f".into());
                Poll::Ready(Err(std::io::Error::new(std::io::ErrorKind::BrokenPipe, "scripted")))
            }
        }
    }
    fn poll_shutdown(self: Pin<&mut Self>, _cx: &mut Context<'_>) -> Poll<std::io::Result<()>> {
        Poll::Ready(Ok(()))
    }
}

fn io_err_name(e: &aldrin_core::tokio::TokioTransportError) -> String {
    use aldrin_core::tokio::TokioTransportError as E;
    match e {
        E::Io(e) if e.to_string() == "script-exhausted" => "err:script".into(),
        E::Io(e) if e.kind() == std::io::ErrorKind::UnexpectedEof => "err:eof".into(),
        E::Io(e) if e.kind() == std::io::ErrorKind::WriteZero => "err:writezero".into(),
        E::Io(_) => "err:io".into(),
        E::Serialize(_) => "err:ser".into(),
        E::Deserialize(_) => "err:de".into(),
    }
}

fn transport_case(out: &mut Out, rng: &mut Rng) {
    // what the peer sends to us
    let n_in = rng.range(0, 5);
    let mut in_frames: Vec<Vec<u8>> = Vec::new();
    for _ in 0..n_in {
        let m = gen_message(rng, false);
        in_frames.push(m.serialize_message().unwrap().to_vec());
    }
    let mut inp: Vec<u8> = in_frames.iter().flatten().copied().collect();
    // sometimes the stream ends in the middle of a frame
    let truncated = rng.chance(1, 5) && !inp.is_empty();
    if truncated {
        let cut = rng.below(inp.len() as u64) as usize;
        inp.truncate(cut);
    }
    let mut script = VecDeque::new();
    for _ in 0..rng.range(5, 120) {
        script.push_back(match rng.below(12) {
            0 => Step::Pending,
            1 if rng.chance(1, 4) => Step::Fail,
            2 if rng.chance(1, 3) => Step::Ok(0),
            3 => Step::Ok(1),
            4 => Step::Ok(rng.range(1, 9) as usize),
            5 => Step::Ok(100_000),
            _ => Step::Ok(rng.range(1, 3000) as usize),
        });
    }
    let state = std::rc::Rc::new(std::cell::RefCell::new(MockState {
        inp: inp.clone(), pos: 0, script, effective: vec![], written: vec![], empty_read_slice: false, reads: 0 }));
    let mut t = Box::pin(TokioTransport::new(MockIo(state.clone())));
    let mut flush_violation = false;
    let waker = Waker::noop();
    let mut cx = Context::from_waker(&waker);
    let mut ops: Vec<String> = Vec::new();
    let mut answers: Vec<String> = Vec::new();
    let mut sent: Vec<Vec<u8>> = Vec::new();
    let mut received: Vec<Vec<u8>> = Vec::new();
    let mut dead = false;
    let nops = rng.range(1, 40);
    let res = catch_unwind(AssertUnwindSafe(|| {
        for _ in 0..nops {
            if dead {
                break;
            }
            match rng.below(3) {
                0 => {
                    let m = gen_message(rng, false);
                    let fr = m.clone().serialize_message().unwrap().to_vec();
                    ops.push(format!("S{}", hex(&fr)));
                    match t.as_mut().send_poll_ready(&mut cx) {
                        Poll::Ready(Ok(())) => {
                            t.as_mut().send_start(m).unwrap();
                            sent.push(fr);
                            answers.push("rdy".into());
                        }
                        Poll::Pending => answers.push("pend".into()),
                        Poll::Ready(Err(e)) => {
                            answers.push(io_err_name(&e));
                            dead = true;
                        }
                    }
                }
                1 => {
                    ops.push("F".into());
                    match t.as_mut().send_poll_flush(&mut cx) {
                        Poll::Ready(Ok(())) => {
                            answers.push("rdy".into());
                            // C14: a flush returns only after all earlier messages were written
                            let want: Vec<u8> = sent.iter().flatten().copied().collect();
                            if state.borrow().written != want {
                                flush_violation = true;
                            }
                        }
                        Poll::Pending => answers.push("pend".into()),
                        Poll::Ready(Err(e)) => {
                            answers.push(io_err_name(&e));
                            dead = true;
                        }
                    }
                }
                _ => {
                    ops.push("R".into());
                    match t.as_mut().receive_poll(&mut cx) {
                        Poll::Ready(Ok(m)) => {
                            let fr = m.serialize_message().unwrap().to_vec();
                            answers.push(format!("f:{}", hex(&fr)));
                            received.push(fr);
                        }
                        Poll::Pending => answers.push("pend".into()),
                        Poll::Ready(Err(e)) => {
                            answers.push(io_err_name(&e));
                            dead = true;
                        }
                    }
                }
            }
        }
    }));
    if res.is_err() {
        out.fail("panic while driving the transport", &format!("ops={}", ops.join(",")));
        return;
    }
    drop(t);
    let io = state.borrow();
    // oracles
    let want: Vec<u8> = sent.iter().flatten().copied().collect();
    if !want.starts_with(&io.written) {
        out.fail("bytes written are not a prefix of the frames sent", &format!("ops={}", ops.join(",")));
    }
    for (i, f) in received.iter().enumerate() {
        if in_frames.get(i) != Some(f) {
            out.fail("received frames differ from the frames of the input stream", &format!("ops={}", ops.join(",")));
            break;
        }
    }
    if io.empty_read_slice {
        out.fail("poll_read was offered an empty slice", &format!("ops={}", ops.join(",")));
    }
    if flush_violation {
        out.fail("a flush reported success before all earlier messages were written", &format!("ops={}", ops.join(",")));
    }
    out.count("tp.ops", ops.len() as u64);
    out.count("tp.sent", sent.len() as u64);
    out.count("tp.received", received.len() as u64);
    for a in &answers {
        if a.starts_with("err:") {
            out.count(&format!("tp.{}", a), 1);
        }
    }
    let script_text = if io.effective.is_empty() { "-".to_string() } else { io.effective.join(",") };
    out.emit(
        &format!("tp {} {} {}", hex(&inp), script_text, ops.join(" ")),
        &format!("{} w={} wbuf={}", answers.join(" "), hex(&io.written), want.len() - io.written.len().min(want.len())),
    );
}

fn main() {
    let args: Vec<String> = std::env::args().collect();
    if args.len() < 4 {
        eprintln!("usage: frame <outdir> <seed> <cases> [corpus-file]");
        std::process::exit(2);
    }
    std::panic::set_hook(Box::new(|_| {}));
    let outdir = &args[1];
    let seed: u64 = args[2].parse().expect("seed");
    let cases: u64 = args[3].parse().expect("cases");
    std::fs::create_dir_all(outdir).unwrap();
    let mk = |n: &str| BufWriter::new(File::create(format!("{}/{}", outdir, n)).unwrap());
    let mut out = Out { req: mk("req.txt"), rust: mk("rust.txt"), oracle: mk("oracle.txt"), lines: 0, oracle_fails: 0, stats: BTreeMap::new(), samples: vec![] };
    let mut rng = Rng::new(seed);
    for i in 0..cases {
        let mut r = rng.fork();
        match i % 40 {
            7 => packetizer_case(&mut out, &mut r, true),
            x if x % 2 == 0 => packetizer_case(&mut out, &mut r, false),
            _ => transport_case(&mut out, &mut r),
        }
    }
    out.req.flush().unwrap();
    out.rust.flush().unwrap();
    out.oracle.flush().unwrap();
    let mut stats = String::from("{\n");
    write!(stats, "  \"lines\": {},\n  \"oracle_fails\": {},\n  \"cases\": {},\n", out.lines, out.oracle_fails, cases).unwrap();
    write!(stats, "  \"samples\": [{}],\n", out.samples.iter().map(|s| format!("{:?}", s)).collect::<Vec<_>>().join(", ")).unwrap();
    write!(stats, "  \"distribution\": {{{}}}\n}}\n", out.stats.iter().map(|(k, v)| format!("{:?}: {}", k, v)).collect::<Vec<_>>().join(", ")).unwrap();
    std::fs::write(format!("{}/stats.json", outdir), stats).unwrap();
}
