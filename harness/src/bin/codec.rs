//! Correspondence + oracle harness for the value codec (C01, C07, C13).
//!
//! Usage: codec <outdir> <seed> <cases> [corpus-file]
//! Writes req.txt (requests for the Lean driver), rust.txt (what the real implementation
//! answers, same line format), oracle.txt (property violations of the implementation alone) and
//! stats.json (what was generated).

use aldrin_core::tags;
use aldrin_core::{
    Deserialize, DeserializeError, Deserializer, ProtocolVersion, SerializeError, SerializedValue,
    Value, ValueConversionError,
};
use std::cell::RefCell;
use std::collections::BTreeMap;
use std::fmt::Write as _;
use std::fs::File;
use std::io::{BufWriter, Write};
use std::panic::{catch_unwind, AssertUnwindSafe};
use verif_harness::text::value_text;
use verif_harness::valuegen::*;
use verif_harness::{hex, sv_from_bytes, unhex, value_depth, Rng};

fn de_err(e: DeserializeError) -> &'static str {
    match e {
        DeserializeError::InvalidSerialization => "invalid",
        DeserializeError::UnexpectedEoi => "eoi",
        DeserializeError::UnexpectedValue => "unexpected",
        DeserializeError::TooDeeplyNested => "depth",
        DeserializeError::TrailingData => "trailing",
        DeserializeError::NoMoreElements => "nomore",
        DeserializeError::MoreElementsRemain => "moreremain",
    }
}

fn ser_err(e: SerializeError) -> &'static str {
    match e {
        SerializeError::TooDeeplyNested => "err:depth",
        SerializeError::Overflow => "err:overflow",
        _ => "err:other",
    }
}

fn conv_err(e: ValueConversionError) -> &'static str {
    match e {
        ValueConversionError::InvalidVersion => "version",
        ValueConversionError::Serialize(SerializeError::Overflow) => "overflow",
        ValueConversionError::Serialize(_) => "ser-other",
        ValueConversionError::Deserialize(e) => de_err(e),
    }
}

thread_local! {
    static PROBE: RefCell<Option<Result<usize, DeserializeError>>> = const { RefCell::new(None) };
}

/// Reaches `Deserializer::len` (skip) on a top-level deserializer through public API.
struct LenProbe;

impl Deserialize<tags::Value> for LenProbe {
    fn deserialize(deserializer: Deserializer) -> Result<Self, DeserializeError> {
        let r = deserializer.len();
        PROBE.with(|p| *p.borrow_mut() = Some(r));
        // consume the value so that the trailing-data check of `deserialize_as` is meaningful
        let _ = deserializer.skip();
        Ok(LenProbe)
    }
}

fn skip_len(sv: &SerializedValue) -> Result<usize, DeserializeError> {
    PROBE.with(|p| *p.borrow_mut() = None);
    let r = sv.deserialize_as::<tags::Value, LenProbe>();
    match PROBE.with(|p| p.borrow_mut().take()) {
        Some(r) => r,
        None => Err(r.err().unwrap_or(DeserializeError::InvalidSerialization)),
    }
}

struct Out {
    req: BufWriter<File>,
    rust: BufWriter<File>,
    oracle: BufWriter<File>,
    lines: usize,
    oracle_fails: usize,
    stats: BTreeMap<String, u64>,
    samples: Vec<String>,
    distinct: std::collections::HashSet<u64>,
}

impl Out {
    fn emit(&mut self, req: &str, rust: &str) {
        writeln!(self.req, "{}", req).unwrap();
        writeln!(self.rust, "{}", rust).unwrap();
        self.lines += 1;
        if self.samples.len() < 12 && req.len() < 160 && self.lines % 97 == 1 {
            self.samples.push(format!("{} => {}", req, rust));
        }
        // distinct non-trivial: hash of the request
        use std::hash::{Hash, Hasher};
        let mut h = std::collections::hash_map::DefaultHasher::new();
        req.hash(&mut h);
        self.distinct.insert(h.finish());
    }
    fn fail(&mut self, prop: &str, what: &str, input: &str) {
        writeln!(self.oracle, "FAIL {} line={} {} input={}", prop, self.lines, what, input).unwrap();
        self.oracle_fails += 1;
    }
    fn count(&mut self, key: &str) {
        *self.stats.entry(key.to_string()).or_insert(0) += 1;
    }
}

/// Records the largest single allocation request, so that decoding hostile bytes can be checked against the
/// clause "without allocating more than a small multiple of the input" (C07).
struct Recording;
static MAX_REQUEST: std::sync::atomic::AtomicUsize = std::sync::atomic::AtomicUsize::new(0);
unsafe impl std::alloc::GlobalAlloc for Recording {
    unsafe fn alloc(&self, l: std::alloc::Layout) -> *mut u8 {
        MAX_REQUEST.fetch_max(l.size(), std::sync::atomic::Ordering::Relaxed);
        std::alloc::System.alloc(l)
    }
    unsafe fn dealloc(&self, p: *mut u8, l: std::alloc::Layout) {
        std::alloc::System.dealloc(p, l)
    }
    unsafe fn alloc_zeroed(&self, l: std::alloc::Layout) -> *mut u8 {
        MAX_REQUEST.fetch_max(l.size(), std::sync::atomic::Ordering::Relaxed);
        std::alloc::System.alloc_zeroed(l)
    }
    unsafe fn realloc(&self, p: *mut u8, l: std::alloc::Layout, n: usize) -> *mut u8 {
        MAX_REQUEST.fetch_max(n, std::sync::atomic::Ordering::Relaxed);
        std::alloc::System.realloc(p, l, n)
    }
}
#[global_allocator]
static ALLOC: Recording = Recording;

/// the largest request a decoder may make for `n` input bytes: every input byte can become one `Value` or one
/// map slot (a few dozen bytes each, doubled by `Vec` / hash-table growth), plus room for small fixed buffers
fn alloc_budget(n: usize) -> usize {
    512 * n + 65_536
}

fn guarded<T>(out: &mut Out, what: &str, input: &str, f: impl FnOnce() -> T) -> Option<T> {
    match catch_unwind(AssertUnwindSafe(f)) {
        Ok(v) => Some(v),
        Err(_) => {
            out.fail("C07", &format!("panic in {}", what), input);
            None
        }
    }
}

fn rust_dec(out: &mut Out, bs: &[u8]) -> String {
    let h = hex(bs);
    let Some(sv) = sv_from_bytes(bs) else {
        return "skipped".into();
    };
    match guarded(out, "deserialize_as_value", &h, || sv.deserialize_as_value()) {
        Some(Ok(v)) => format!("ok {}", value_text(&v)),
        Some(Err(e)) => format!("err {}", de_err(e)),
        None => "panic".into(),
    }
}

fn rust_skip(out: &mut Out, bs: &[u8]) -> String {
    let h = hex(bs);
    let Some(sv) = sv_from_bytes(bs) else {
        return "skipped".into();
    };
    match guarded(out, "len", &h, || skip_len(&sv)) {
        Some(Ok(n)) => format!("ok {}", n),
        Some(Err(e)) => format!("err {}", de_err(e)),
        None => "panic".into(),
    }
}

fn rust_kind(out: &mut Out, bs: &[u8]) -> String {
    let h = hex(bs);
    let Some(sv) = sv_from_bytes(bs) else {
        return "skipped".into();
    };
    match guarded(out, "kind", &h, || sv.kind()) {
        Some(Ok(k)) => format!("ok {}", u8::from(k)),
        Some(Err(e)) => format!("err {}", de_err(e)),
        None => "panic".into(),
    }
}

fn do_conv(sv: &SerializedValue, from: Option<ProtocolVersion>, to: ProtocolVersion) -> Result<Vec<u8>, ValueConversionError> {
    let s: &aldrin_core::SerializedValueSlice = sv;
    s.convert(from, to).map(|c| c.to_vec())
}

fn ver_text(v: Option<ProtocolVersion>) -> String {
    match v {
        None => "none".into(),
        Some(v) => format!("{}.{}", v.major(), v.minor()),
    }
}

fn rust_conv(out: &mut Out, from: Option<ProtocolVersion>, to: ProtocolVersion, bs: &[u8]) -> (String, Option<Vec<u8>>) {
    let h = hex(bs);
    let Some(sv) = sv_from_bytes(bs) else {
        return ("skipped".into(), None);
    };
    match guarded(out, "convert", &h, || do_conv(&sv, from, to)) {
        Some(Ok(b)) => (format!("ok {}", hex(&b)), Some(b)),
        Some(Err(e)) => (format!("err {}", conv_err(e)), None),
        None => ("panic".into(), None),
    }
}

/// The implementation-only oracles for arbitrary bytes (C07, C13).
fn bytes_oracles(out: &mut Out, bs: &[u8]) {
    let h = hex(bs);
    let Some(sv) = sv_from_bytes(bs) else { return };
    MAX_REQUEST.store(0, std::sync::atomic::Ordering::Relaxed);
    let dec = catch_unwind(AssertUnwindSafe(|| sv.deserialize_as_value()));
    let Ok(dec) = dec else {
        out.fail("C07", "panic in decode", &h);
        return;
    };
    let skip = catch_unwind(AssertUnwindSafe(|| skip_len(&sv)));
    let Ok(skip) = skip else {
        out.fail("C07", "panic in skip", &h);
        return;
    };
    // typed decoding of the scalar kinds that carry a length goes through its own code path
    let _ = catch_unwind(AssertUnwindSafe(|| sv.deserialize::<String>().map(|s| s.len())));
    let _ = catch_unwind(AssertUnwindSafe(|| sv.deserialize::<aldrin_core::Bytes>().map(|b| b.len())));
    let biggest = MAX_REQUEST.load(std::sync::atomic::Ordering::Relaxed);
    if biggest > alloc_budget(bs.len()) {
        out.fail("C07", &format!("decoding / skipping {} bytes requested an allocation of {} bytes", bs.len(), biggest), &h);
    }
    out.count("bytes.alloc_checked");
    if let Ok(v) = &dec {
        out.count("bytes.decode_ok");
        // C07: whenever full decoding succeeds, skipping succeeds with exactly that length
        match skip {
            Ok(n) if n == bs.len() => {}
            Ok(n) => out.fail("C07", &format!("decode ok but skip length {} != {}", n, bs.len()), &h),
            Err(e) => out.fail("C07", &format!("decode ok but skip fails with {}", de_err(e)), &h),
        }
        // C07: split off as an opaque value and re-decode
        match catch_unwind(AssertUnwindSafe(|| sv.deserialize::<SerializedValue>())) {
            Ok(Ok(inner)) => {
                if &**inner != bs {
                    out.fail("C07", "opaque copy differs from input", &h);
                } else if let Ok(v2) = inner.deserialize_as_value() {
                    if value_text(&v2) != value_text(v) {
                        out.fail("C07", "opaque copy re-decodes to a different value", &h);
                    }
                } else {
                    out.fail("C07", "opaque copy does not re-decode", &h);
                }
            }
            Ok(Err(e)) => out.fail("C07", &format!("decode ok but opaque split fails with {}", de_err(e)), &h),
            Err(_) => out.fail("C07", "panic in opaque split", &h),
        }
        // C13: conversion to every older epoch preserves the value, is idempotent
        let to = ProtocolVersion::V1_14;
        match catch_unwind(AssertUnwindSafe(|| do_conv(&sv, None, to))) {
            Ok(Ok(c)) => {
                match sv_from_bytes(&c).map(|s| (s.deserialize_as_value(), s)) {
                    Some((Ok(v2), s2)) => {
                        if value_text(&v2) != value_text(v) {
                            out.fail("C13", "converted value decodes differently", &h);
                        }
                        match do_conv(&s2, None, to) {
                            Ok(c2) if c2 == c => {}
                            _ => out.fail("C13", "conversion not idempotent", &h),
                        }
                        if c.iter().any(|_| false) {
                            unreachable!()
                        }
                    }
                    _ => out.fail("C13", "converted value does not decode", &h),
                }
            }
            Ok(Err(e)) => out.fail("C13", &format!("well-formed value fails to convert: {}", conv_err(e)), &h),
            Err(_) => out.fail("C13", "panic in convert", &h),
        }
        // same or newer epoch: unchanged
        match do_conv(&sv, Some(ProtocolVersion::V1_14), ProtocolVersion::V1_20) {
            Ok(c) if c == bs => {}
            _ => out.fail("C13", "conversion to a newer epoch changed the value", &h),
        }
    } else {
        out.count("bytes.decode_err");
        if skip.is_ok() {
            out.count("bytes.skip_ok_decode_err");
        }
    }
}

fn value_case(out: &mut Out, v: &Value, rng: &mut Rng) {
    let depth = value_depth(v);
    out.count(&format!("value.depth.{:02}", depth.min(41)));
    let text = value_text(v);
    let mut raw2 = Vec::new();
    raw_encode(v, Ep::V2, &mut raw2);
    let mut raw1 = Vec::new();
    raw_encode(v, Ep::V1, &mut raw1);
    let s2 = catch_unwind(AssertUnwindSafe(|| ser_v2(v)));
    let s1 = catch_unwind(AssertUnwindSafe(|| ser_v1(v)));
    let (Ok(s1), Ok(s2)) = (s1, s2) else {
        out.fail("C01", "panic in serialize", &text);
        return;
    };
    let r1 = match &s1 {
        Ok(b) => format!("{}", b.len()),
        Err(e) => ser_err(*e).to_string(),
    };
    let r2 = match &s2 {
        Ok(b) => format!("{}", b.len()),
        Err(e) => ser_err(*e).to_string(),
    };
    // Lean sees the value in canonical (sorted) order, so only lengths/outcomes are comparable here
    if text.len() < 400_000 {
        out.emit(&format!("encv {}", text), &format!("{} {}", r1, r2));
    }
    // C01 oracle
    if depth <= 32 {
        for (name, s, raw) in [("v1", &s1, &raw1), ("v2", &s2, &raw2)] {
            match s {
                Ok(b) => {
                    if &b[..] != &raw[..] {
                        out.fail("C01", &format!("{} serializer output differs from the reference encoding", name), &text);
                    }
                    match catch_unwind(AssertUnwindSafe(|| b.deserialize_as_value())) {
                        Ok(Ok(v2)) => {
                            if value_text(&v2) != text {
                                out.fail("C01", &format!("{} round trip yields a different value", name), &hex(b));
                            }
                        }
                        Ok(Err(e)) => out.fail("C01", &format!("{} round trip fails: {}", name, de_err(e)), &hex(b)),
                        Err(_) => out.fail("C01", "panic in deserialize", &hex(b)),
                    }
                }
                Err(e) => out.fail("C01", &format!("{} serialization of a depth-{} value fails: {:?}", name, depth, e), &text),
            }
        }
    } else {
        for (name, s) in [("v1", &s1), ("v2", &s2)] {
            if !matches!(s, Err(SerializeError::TooDeeplyNested)) {
                out.fail("C01", &format!("{} serialization of a depth-{} value is not rejected as too deep", name, depth), &text);
            }
        }
        for raw in [&raw1, &raw2] {
            if let Some(sv) = sv_from_bytes(raw) {
                match catch_unwind(AssertUnwindSafe(|| sv.deserialize_as_value())) {
                    Ok(Err(DeserializeError::TooDeeplyNested)) => {}
                    Ok(r) => out.fail("C01", &format!("deserialization of a depth-{} value gives {:?}", depth, r.map(|_| ())), &hex(raw)),
                    Err(_) => out.fail("C01", "panic in deserialize", &hex(raw)),
                }
            }
        }
    }
    // correspondence lines
    let b1h = s1.as_ref().ok().map(|b| hex(b));
    let b2h = s2.as_ref().ok().map(|b| hex(b));
    if let (Some(b1h), Some(b2h)) = (&b1h, &b2h) {
        let line = format!("ok {} {} {}", b1h, b2h, text);
        out.emit(&format!("rt {}", b2h), &line);
        out.emit(&format!("rt {}", b1h), &line);
    }
    // the same value with its byte strings written in several chunks: a valid encoding no serializer call of the
    // harness produces
    let mut raw2c = Vec::new();
    if text.contains("Y ") {
        verif_harness::valuegen::CHUNK_SEED.with(|c| c.set(rng.next() | 1));
        raw_encode(v, Ep::V2, &mut raw2c);
        verif_harness::valuegen::CHUNK_SEED.with(|c| c.set(0));
        if raw2c == raw2 {
            raw2c.clear();
        } else {
            out.count("value.chunked_bytes");
        }
    }
    for raw in [&raw1, &raw2, &raw2c] {
        if raw.len() > 200_000 || raw.is_empty() {
            continue;
        }
        let d = rust_dec(out, raw);
        out.emit(&format!("dec {}", hex(raw)), &d);
        let s = rust_skip(out, raw);
        out.emit(&format!("skip {}", hex(raw)), &s);
        bytes_oracles(out, raw);
    }
    // conversions between versions
    let versions: [Option<ProtocolVersion>; 9] = [
        None,
        Some(ProtocolVersion::new(1, 13)),
        Some(ProtocolVersion::V1_14),
        Some(ProtocolVersion::V1_17),
        Some(ProtocolVersion::V1_19),
        Some(ProtocolVersion::V1_20),
        Some(ProtocolVersion::new(1, 21)),
        Some(ProtocolVersion::new(0, 20)),
        Some(ProtocolVersion::new(2, 14)),
    ];
    if raw2.len() <= 100_000 {
        for _ in 0..3 {
            let from = *rng.pick(&versions);
            let to = rng.pick(&versions[1..]).unwrap();
            let src = if !raw2c.is_empty() && rng.chance(1, 2) { &raw2c } else if rng.chance(1, 4) { &raw1 } else { &raw2 };
            let (r, _) = rust_conv(out, from, to, src);
            out.emit(&format!("conv {} {} {}", ver_text(from), ver_text(Some(to)), hex(src)), &r);
        }
    }
}

fn mutate(rng: &mut Rng, bs: &[u8]) -> Vec<u8> {
    let mut b = bs.to_vec();
    let n = rng.range(1, 3);
    for _ in 0..n {
        if b.is_empty() {
            b.push(rng.next() as u8);
            continue;
        }
        let i = rng.below(b.len() as u64) as usize;
        match rng.below(8) {
            0 => b[i] ^= 1 << rng.below(8),
            1 => b[i] = rng.next() as u8,
            2 => b[i] = *rng.pick(&[0u8, 1, 2, 17, 18, 39, 40, 43, 44, 45, 55, 59, 65, 66, 247, 250, 251, 252, 253, 254, 255]),
            3 => {
                b.truncate(i);
            }
            4 => {
                b.insert(i, rng.next() as u8);
            }
            5 => {
                b.remove(i);
            }
            6 => {
                let j = rng.below(b.len() as u64) as usize;
                b.swap(i, j);
            }
            _ => {
                b.push(rng.next() as u8);
            }
        }
    }
    b
}

/// a value whose length prefix claims far more than follows: the kind byte of a length-carrying kind, a four-byte
/// varint, a few bytes
fn oversized(rng: &mut Rng) -> Vec<u8> {
    let kind = *rng.pick(&[aldrin_core::ValueKind::String as u8, aldrin_core::ValueKind::Bytes1 as u8, aldrin_core::ValueKind::Vec1 as u8, aldrin_core::ValueKind::U8Map1 as u8,
        aldrin_core::ValueKind::StringMap1 as u8, aldrin_core::ValueKind::StringSet1 as u8, aldrin_core::ValueKind::Struct1 as u8, aldrin_core::ValueKind::Bytes2 as u8]);
    let mut b = vec![kind, *rng.pick(&[255u8, 254, 253])];
    for _ in 0..4 {
        b.push(rng.next() as u8);
    }
    let extra = rng.below(6);
    for _ in 0..extra {
        b.push(rng.next() as u8);
    }
    // sometimes nested one level down
    if rng.chance(1, 3) {
        let mut outer = vec![aldrin_core::ValueKind::Some as u8];
        outer.extend(b);
        return outer;
    }
    b
}

fn bytes_case(out: &mut Out, bs: &[u8]) {
    if bs.is_empty() || bs.len() > 200_000 {
        return;
    }
    let h = hex(bs);
    let d = rust_dec(out, bs);
    out.count(&format!("bytes.dec.{}", d.split(' ').take(2).collect::<Vec<_>>().join("_").split('_').take(2).collect::<Vec<_>>().join("_").chars().take(14).collect::<String>()));
    out.emit(&format!("dec {}", h), &d);
    let s = rust_skip(out, bs);
    out.emit(&format!("skip {}", h), &s);
    let k = rust_kind(out, bs);
    out.emit(&format!("kind {}", h), &k);
    let (c, _) = rust_conv(out, None, ProtocolVersion::V1_19, bs);
    out.emit(&format!("conv none 1.19 {}", h), &c);
    bytes_oracles(out, bs);
}

fn main() {
    let args: Vec<String> = std::env::args().collect();
    if args.len() < 4 {
        eprintln!("usage: codec <outdir> <seed> <cases> [corpus-file]");
        std::process::exit(2);
    }
    std::panic::set_hook(Box::new(|_| {}));
    let outdir = &args[1];
    let seed: u64 = args[2].parse().expect("seed");
    let cases: u64 = args[3].parse().expect("cases");
    std::fs::create_dir_all(outdir).unwrap();
    let mk = |n: &str| BufWriter::new(File::create(format!("{}/{}", outdir, n)).unwrap());
    let mut out = Out {
        req: mk("req.txt"),
        rust: mk("rust.txt"),
        oracle: mk("oracle.txt"),
        lines: 0,
        oracle_fails: 0,
        stats: BTreeMap::new(),
        samples: vec![],
        distinct: Default::default(),
    };
    // corpus first: lines "bytes <hex>"
    if let Some(corpus) = args.get(4) {
        if let Ok(text) = std::fs::read_to_string(corpus) {
            for line in text.lines() {
                let mut it = line.split_whitespace();
                if let (Some("bytes"), Some(h)) = (it.next(), it.next()) {
                    if let Some(bs) = unhex(h) {
                        out.count("corpus");
                        bytes_case(&mut out, &bs);
                    }
                }
            }
        }
    }
    let mut rng = Rng::new(seed);
    let mut pool: Vec<Vec<u8>> = Vec::new();
    for i in 0..cases {
        let mut r = rng.fork();
        match i % 10 {
            0 | 1 | 2 => {
                // bushy trees within the limit
                let mut budget = r.range(1, 60) as i64;
                let md = r.range(1, 8) as u32;
                let v = gen_tree(&mut r, md, &mut budget);
                keep(&mut pool, &v);
                value_case(&mut out, &v, &mut r);
                out.count("gen.tree");
            }
            3 | 4 => {
                // spines around the limit, random nesting kinds
                let d = *r.pick(&[1u32, 2, 5, 16, 30, 31, 32, 33, 34, 35, 40]);
                let v = gen_spine(&mut r, d, None);
                keep(&mut pool, &v);
                value_case(&mut out, &v, &mut r);
                out.count("gen.spine");
            }
            5 => {
                // spines of a single nesting kind, every kind, depths 31..34
                let kind = (i / 10) % NUM_WRAP;
                let d = 31 + ((i / 10 / NUM_WRAP) % 4) as u32;
                let v = gen_spine(&mut r, d, Some(kind));
                value_case(&mut out, &v, &mut r);
                out.count("gen.spine_fixed");
            }
            6 => {
                // large flat containers
                // element counts around the boundaries of the length varint (one byte up to 251, then 252..=255 announce 1..4 bytes)
                let n = *r.pick(&[250usize, 251, 252, 253, 254, 255, 256, 257, 260, 1000, 10_000]);
                let which = r.range(2, NUM_WRAP - 1);
                let children = (0..n).map(|_| if r.chance(1, 2) { Value::None } else { Value::U8(r.next() as u8) }).collect();
                let v = wrap(&mut r, which, children);
                value_case(&mut out, &v, &mut r);
                out.count("gen.large");
            }
            7 | 8 => {
                // mutations of valid encodings
                if pool.is_empty() {
                    continue;
                }
                let base = r.pick(&pool).clone();
                let m = mutate(&mut r, &base);
                bytes_case(&mut out, &m);
                out.count("gen.mutant");
            }
            _ if r.chance(1, 4) => {
                let b = oversized(&mut r);
                bytes_case(&mut out, &b);
                out.count("gen.oversized_length");
            }
            _ => {
                let n = r.range(1, 24) as usize;
                let mut b = r.bytes(n);
                if r.chance(2, 3) {
                    b[0] = r.below(68) as u8;
                }
                bytes_case(&mut out, &b);
                out.count("gen.random");
            }
        }
    }
    out.req.flush().unwrap();
    out.rust.flush().unwrap();
    out.oracle.flush().unwrap();
    let mut stats = String::from("{\n");
    write!(stats, "  \"lines\": {},\n  \"distinct\": {},\n  \"oracle_fails\": {},\n  \"cases\": {},\n", out.lines, out.distinct.len(), out.oracle_fails, cases).unwrap();
    write!(stats, "  \"samples\": [{}],\n", out.samples.iter().map(|s| format!("{:?}", s)).collect::<Vec<_>>().join(", ")).unwrap();
    write!(stats, "  \"distribution\": {{{}}}\n}}\n", out.stats.iter().map(|(k, v)| format!("{:?}: {}", k, v)).collect::<Vec<_>>().join(", ")).unwrap();
    std::fs::write(format!("{}/stats.json", outdir), stats).unwrap();
}

fn keep(pool: &mut Vec<Vec<u8>>, v: &Value) {
    if value_depth(v) > 32 {
        return;
    }
    for ep in [Ep::V1, Ep::V2] {
        let mut raw = Vec::new();
        raw_encode(v, ep, &mut raw);
        if raw.len() < 4000 {
            if pool.len() < 400 {
                pool.push(raw);
            } else {
                let i = (raw.len() * 7919) % pool.len();
                pool[i] = raw;
            }
        }
    }
}
