//! Correspondence + oracle harness for the client (C06, C15).
//!
//! Real `Client`s are driven through the public API by randomly composed programs over a small deterministic
//! executor whose next task is chosen by the PRNG. Two kinds of scenario:
//!
//! * `A` — one client, the harness plays the broker at the message level: it answers requests (correctly or
//!   not) and injects unsolicited messages. Every message the client sends is a `cs` line, every message it is
//!   given a `cr` line whose answer is what the client did (`ok`, `unexpected`, `panic`, `shutdown`); the Lean
//!   client model answers the same lines.
//! * `B` — a real broker, 2-4 real clients on bounded (1..16) or unbounded transports, operations started at
//!   random points of a random schedule. Every message crossing a client's transport is logged and replayed
//!   through the model (which must accept every message the broker sent); the harness checks that no client
//!   stops with an error, nothing panics, operations that only wait for the broker are complete whenever the
//!   system is quiescent, a call returns the value computed for that call, items arrive in order, everything
//!   completes once all handles are gone and an idle broker stops.
//! * `F` — as `B` with one client whose transport fails (error or end of stream) at its k-th operation, or
//!   which is stopped by one of the clean causes: its run future must return (ok for the clean causes, the
//!   transport error otherwise), every operation on it must complete, the broker must forget the connection.
//!
//! Usage: sys <outdir> <seed> <cases> [A|B|F]*

use aldrin::core::channel::{self, Bounded, Disconnected, Unbounded};
use aldrin::core::message::*;
use aldrin::core::transport::AsyncTransport;
use aldrin::core::{
    BusEvent, BusListenerCookie, BusListenerFilter, BusListenerScope, ChannelCookie, ChannelEnd,
    ChannelEndWithCapacity, ObjectCookie, ObjectId, ObjectUuid, SerializedValue, ServiceCookie, ServiceId,
    ServiceUuid, TypeId,
};
use aldrin::error::RunError;
use aldrin::low_level::{
    PendingReceiver, PendingSender, Proxy, Receiver, Sender, Service, ServiceInfo, UnboundReceiver, UnboundSender,
    UnclaimedReceiver, UnclaimedSender,
};
use aldrin::{BusListener, Client, Error, Handle, Object};
use aldrin_broker::{Broker, BrokerHandle};
use std::cell::{Cell, RefCell};
use std::collections::{BTreeMap, HashMap};
use std::fmt::Write as _;
use std::fs::File;
use std::future::Future;
use std::io::{BufWriter, Write};
use std::panic::{catch_unwind, AssertUnwindSafe};
use std::pin::Pin;
use std::rc::Rc;
use std::sync::atomic::{AtomicBool, Ordering};
use std::sync::Arc;
use std::task::{Context, Poll, Wake, Waker};
use uuid::Uuid;
use verif_harness::msgtext::{pool_uuid, req_text, rsp_text, Names};
use verif_harness::Rng;

// ------------------------------------------------------------------------------------------------
// executor: tasks are polled only when woken; which woken task runs next is the PRNG's choice

struct Flag(AtomicBool);
impl Wake for Flag {
    fn wake(self: Arc<Self>) {
        self.0.store(true, Ordering::SeqCst);
    }
    fn wake_by_ref(self: &Arc<Self>) {
        self.0.store(true, Ordering::SeqCst);
    }
}

#[derive(Clone, Copy, PartialEq, Eq, Debug)]
enum Kind {
    Broker,
    Conn(usize),
    Client(usize),
    /// an operation of client `.0`; `.1`: it only waits for the broker (not for another application)
    Op(usize, bool),
    Service(usize),
}

struct Task {
    name: String,
    kind: Kind,
    fut: Option<Pin<Box<dyn Future<Output = ()>>>>,
    flag: Arc<Flag>,
    panicked: Option<String>,
}

type Spawner = Rc<RefCell<Vec<(String, Kind, Pin<Box<dyn Future<Output = ()>>>)>>>;

struct Exec {
    tasks: Vec<Task>,
    spawner: Spawner,
    polls: u64,
}

fn panic_text(e: Box<dyn std::any::Any + Send>) -> String {
    if let Some(s) = e.downcast_ref::<&str>() {
        s.to_string()
    } else if let Some(s) = e.downcast_ref::<String>() {
        s.clone()
    } else {
        "panic".into()
    }
}

impl Exec {
    fn new() -> Self {
        Exec { tasks: vec![], spawner: Rc::new(RefCell::new(vec![])), polls: 0 }
    }
    fn spawn(&mut self, name: String, kind: Kind, f: impl Future<Output = ()> + 'static) -> usize {
        self.tasks.push(Task { name, kind, fut: Some(Box::pin(f)), flag: Arc::new(Flag(AtomicBool::new(true))), panicked: None });
        self.tasks.len() - 1
    }
    fn adopt(&mut self) {
        let new: Vec<_> = self.spawner.borrow_mut().drain(..).collect();
        for (name, kind, fut) in new {
            self.tasks.push(Task { name, kind, fut: Some(fut), flag: Arc::new(Flag(AtomicBool::new(true))), panicked: None });
        }
    }
    fn ready(&mut self) -> Vec<usize> {
        self.adopt();
        (0..self.tasks.len()).filter(|&i| self.tasks[i].fut.is_some() && self.tasks[i].flag.0.load(Ordering::SeqCst)).collect()
    }
    fn poll(&mut self, i: usize) {
        let t = &mut self.tasks[i];
        if t.fut.is_none() {
            return;
        }
        t.flag.0.store(false, Ordering::SeqCst);
        let waker = Waker::from(t.flag.clone());
        let mut cx = Context::from_waker(&waker);
        self.polls += 1;
        TRANSPORT_CALLS.with(|c| c.set(0));
        let fut = t.fut.as_mut().unwrap();
        match catch_unwind(AssertUnwindSafe(|| fut.as_mut().poll(&mut cx))) {
            Ok(Poll::Ready(())) => t.fut = None,
            Ok(Poll::Pending) => {}
            Err(e) => {
                t.panicked = Some(panic_text(e));
                // the future is in an unknown state; leak it rather than run its destructors
                std::mem::forget(t.fut.take());
            }
        }
    }
    /// the application drops the future of one of its pending operations
    fn cancel_one(&mut self, rng: &mut Rng) -> Option<String> {
        let c = self.unfinished(|k| matches!(k, Kind::Op(..)));
        if c.is_empty() {
            return None;
        }
        let i = c[rng.below(c.len() as u64) as usize];
        let fut = self.tasks[i].fut.take();
        let name = self.tasks[i].name.clone();
        // dropping it may run destructors of the code under test
        if let Err(e) = catch_unwind(AssertUnwindSafe(move || drop(fut))) {
            self.tasks[i].panicked = Some(panic_text(e));
        }
        Some(name)
    }
    fn wake(&mut self, i: usize) {
        self.tasks[i].flag.0.store(true, Ordering::SeqCst);
    }
    /// run until nothing is woken; `false` if the bound on polls was reached
    fn settle(&mut self, rng: &mut Rng, random: bool) -> bool {
        for _ in 0..200_000 {
            let r = self.ready();
            if r.is_empty() {
                return true;
            }
            let i = if random { r[rng.below(r.len() as u64) as usize] } else { r[0] };
            self.poll(i);
        }
        false
    }
    fn done(&self, i: usize) -> bool {
        self.tasks[i].fut.is_none() && self.tasks[i].panicked.is_none()
    }
    fn unfinished(&self, f: impl Fn(Kind) -> bool) -> Vec<usize> {
        (0..self.tasks.len()).filter(|&i| f(self.tasks[i].kind) && self.tasks[i].fut.is_some()).collect()
    }
    fn panics(&self) -> Vec<(String, String)> {
        self.tasks.iter().filter_map(|t| t.panicked.as_ref().map(|p| (t.name.clone(), p.clone()))).collect()
    }
}

// ------------------------------------------------------------------------------------------------
// transport with a tap and a fault point

#[derive(Clone, Copy, PartialEq, Eq, Debug)]
enum FaultKind {
    /// every operation fails from here on
    Error,
    /// the same, reported as the end of the stream
    Eof,
    /// half-broken: from here on sends and flushes fail, nothing is received any more
    SendSide,
    /// half-broken: from here on receiving fails, sends still go out
    RecvSide,
}

thread_local! {
    /// transport calls made by the task that is being polled (a poll that never returns shows here)
    static TRANSPORT_CALLS: Cell<u64> = const { Cell::new(0) };
}

fn transport_call() {
    TRANSPORT_CALLS.with(|c| {
        c.set(c.get() + 1);
        if c.get() > 300_000 {
            c.set(0);
            panic!("busy loop: one poll of a task made more than 300000 transport calls without returning");
        }
    });
}

#[derive(Debug, Clone, Copy, PartialEq, Eq)]
enum TapError {
    Injected,
    Disconnected,
}
impl std::fmt::Display for TapError {
    fn fmt(&self, f: &mut std::fmt::Formatter<'_>) -> std::fmt::Result {
        write!(f, "{:?}", self)
    }
}
impl std::error::Error for TapError {}

enum Inner {
    B(Bounded),
    U(Unbounded),
}

#[derive(Clone, Debug)]
enum Dir {
    Sent,
    Received,
    /// the transport failed here (injected)
    Failed,
}

struct TapLog {
    events: Vec<(usize, Dir, Message)>,
}

struct Tap {
    inner: Option<Inner>,
    cid: usize,
    log: Rc<RefCell<TapLog>>,
    ops: Rc<Cell<u64>>,
    fault: Option<(u64, FaultKind)>,
    failed: bool,
    send_broken: bool,
    recv_broken: bool,
    recv_silent: bool,
    reported: bool,
    /// the client has been told that its transport failed
    told: Rc<Cell<bool>>,
}

impl Tap {
    fn new(inner: Inner, cid: usize, log: Rc<RefCell<TapLog>>, ops: Rc<Cell<u64>>, fault: Option<(u64, FaultKind)>, told: Rc<Cell<bool>>) -> Self {
        Tap { inner: Some(inner), cid, log, ops, fault, failed: false, send_broken: false, recv_broken: false, recv_silent: false, reported: false, told }
    }
    /// counts a completed transport operation and arms the fault when this is its point
    fn tick(&mut self) {
        let n = self.ops.get();
        self.ops.set(n + 1);
        if let Some((k, kind)) = self.fault {
            if k == n {
                self.failed = true;
                match kind {
                    FaultKind::Error | FaultKind::Eof => {
                        // the transport is gone for good, the peer sees it closed
                        self.inner = None;
                        self.send_broken = true;
                        self.recv_broken = true;
                    }
                    FaultKind::SendSide => {
                        self.send_broken = true;
                        self.recv_silent = true;
                    }
                    FaultKind::RecvSide => self.recv_broken = true,
                }
            }
        }
    }
    /// the client is told about the failure (logged the first time)
    fn fail(&mut self) -> TapError {
        if !self.reported {
            self.reported = true;
            self.told.set(true);
            self.log.borrow_mut().events.push((self.cid, Dir::Failed, Message::Shutdown(Shutdown)));
        }
        TapError::Injected
    }
}

macro_rules! with_inner {
    ($self:expr, $t:ident => $e:expr) => {
        match $self.inner.as_mut() {
            Some(Inner::B($t)) => $e,
            Some(Inner::U($t)) => $e,
            None => return Poll::Ready(Err($self.fail())),
        }
    };
}

impl AsyncTransport for Tap {
    type Error = TapError;

    fn receive_poll(mut self: Pin<&mut Self>, cx: &mut Context) -> Poll<Result<Message, TapError>> {
        transport_call();
        let this = &mut *self;
        if this.recv_broken {
            return Poll::Ready(Err(this.fail()));
        }
        if this.recv_silent {
            return Poll::Pending;
        }
        let r = with_inner!(this, t => Pin::new(t).receive_poll(cx));
        match r {
            Poll::Pending => Poll::Pending,
            Poll::Ready(Ok(m)) => {
                this.tick();
                if this.recv_broken {
                    return Poll::Ready(Err(this.fail()));
                }
                this.log.borrow_mut().events.push((this.cid, Dir::Received, m.clone()));
                Poll::Ready(Ok(m))
            }
            Poll::Ready(Err(Disconnected)) => Poll::Ready(Err(TapError::Disconnected)),
        }
    }

    fn send_poll_ready(mut self: Pin<&mut Self>, cx: &mut Context) -> Poll<Result<(), TapError>> {
        transport_call();
        let this = &mut *self;
        if this.send_broken {
            return Poll::Ready(Err(this.fail()));
        }
        let r = with_inner!(this, t => Pin::new(t).send_poll_ready(cx));
        if r.is_pending() && std::env::var("SYS_DUMP2").is_ok() {
            eprintln!("tap {} send_poll_ready pending (ops so far {})", this.cid, this.ops.get());
        }
        r.map_err(|_| TapError::Disconnected)
    }

    fn send_start(mut self: Pin<&mut Self>, msg: Message) -> Result<(), TapError> {
        transport_call();
        let this = &mut *self;
        if this.send_broken || this.inner.is_none() {
            return Err(this.fail());
        }
        this.tick();
        if this.send_broken {
            return Err(this.fail());
        }
        this.log.borrow_mut().events.push((this.cid, Dir::Sent, msg.clone()));
        match this.inner.as_mut().unwrap() {
            Inner::B(t) => Pin::new(t).send_start(msg).map_err(|_| TapError::Disconnected),
            Inner::U(t) => Pin::new(t).send_start(msg).map_err(|_| TapError::Disconnected),
        }
    }

    fn send_poll_flush(mut self: Pin<&mut Self>, cx: &mut Context) -> Poll<Result<(), TapError>> {
        transport_call();
        let this = &mut *self;
        if this.send_broken {
            return Poll::Ready(Err(this.fail()));
        }
        let r = with_inner!(this, t => Pin::new(t).send_poll_flush(cx));
        match r {
            Poll::Pending => Poll::Pending,
            Poll::Ready(r) => {
                this.tick();
                if this.send_broken {
                    return Poll::Ready(Err(this.fail()));
                }
                Poll::Ready(r.map_err(|_| TapError::Disconnected))
            }
        }
    }
}

/// the broker's end of a client's transport: only watches (debugging aid)
struct Watch<T> {
    inner: T,
    cid: usize,
}

impl<T: AsyncTransport + Unpin> AsyncTransport for Watch<T> {
    type Error = T::Error;
    fn receive_poll(mut self: Pin<&mut Self>, cx: &mut Context) -> Poll<Result<Message, T::Error>> {
        let r = Pin::new(&mut self.inner).receive_poll(cx);
        if std::env::var("SYS_DUMP2").is_ok() {
            eprintln!("conn {} receive_poll -> {}", self.cid, match &r { Poll::Pending => "pending".to_string(), Poll::Ready(Ok(m)) => format!("{:?}", m.kind()), Poll::Ready(Err(_)) => "err".to_string() });
        }
        r
    }
    fn send_poll_ready(mut self: Pin<&mut Self>, cx: &mut Context) -> Poll<Result<(), T::Error>> {
        let r = Pin::new(&mut self.inner).send_poll_ready(cx);
        if r.is_pending() && std::env::var("SYS_DUMP2").is_ok() {
            eprintln!("conn {} send_poll_ready pending", self.cid);
        }
        r
    }
    fn send_start(mut self: Pin<&mut Self>, msg: Message) -> Result<(), T::Error> {
        Pin::new(&mut self.inner).send_start(msg)
    }
    fn send_poll_flush(mut self: Pin<&mut Self>, cx: &mut Context) -> Poll<Result<(), T::Error>> {
        let r = Pin::new(&mut self.inner).send_poll_flush(cx);
        if r.is_pending() && std::env::var("SYS_DUMP2").is_ok() {
            eprintln!("conn {} send_poll_flush pending", self.cid);
        }
        r
    }
}

// ------------------------------------------------------------------------------------------------
// applications: objects of one client and the operations on them

fn ou(n: u64) -> ObjectUuid {
    ObjectUuid(pool_uuid(n))
}
fn su(n: u64) -> ServiceUuid {
    ServiceUuid(pool_uuid(100 + n))
}

enum SvcCmd {
    Emit(u32, u32),
    Destroy,
    Drop,
}

struct SvcCtl {
    id: ServiceId,
    cmds: Rc<RefCell<Vec<SvcCmd>>>,
    waker: Rc<RefCell<Option<Waker>>>,
    served: Rc<Cell<u64>>,
    gone: Rc<Cell<bool>>,
}

impl SvcCtl {
    fn tell(&self, cmd: SvcCmd) {
        self.cmds.borrow_mut().push(cmd);
        if let Some(w) = self.waker.borrow().as_ref() {
            w.wake_by_ref();
        }
    }
}

struct ChanStat {
    sent: u64,
    received: u64,
    bad_order: bool,
}

/// a proxy and what the application has subscribed it to (as far as completed operations say)
struct PInfo {
    proxy: Proxy,
    subs: std::collections::BTreeSet<u32>,
    all: bool,
}

#[derive(Default)]
struct App {
    handle: Option<Handle>,
    objects: Vec<Object>,
    services: Vec<SvcCtl>,
    proxies: Vec<PInfo>,
    psenders: Vec<PendingSender>,
    preceivers: Vec<PendingReceiver>,
    usenders: Vec<UnclaimedSender>,
    ureceivers: Vec<UnclaimedReceiver>,
    senders: Vec<Sender>,
    receivers: Vec<Receiver>,
    listeners: Vec<Lsn>,
    /// results of finished operations, for the statistics
    results: Vec<(String, String)>,
    fails: Vec<String>,
    /// panics of client-library objects in the application's own task
    app_panics: Vec<String>,
    /// scenario with a real broker and real services: results of calls are checked
    check_calls: bool,
}

/// a bus listener together with every filter it has ever been given: whatever it yields must match one of them
/// (the client matches an event against the listener's filters when it arrives; filters are only ever a subset of these)
struct Lsn {
    l: BusListener,
    ever: Vec<BusListenerFilter>,
}
impl std::ops::Deref for Lsn {
    type Target = BusListener;
    fn deref(&self) -> &BusListener {
        &self.l
    }
}
impl std::ops::DerefMut for Lsn {
    fn deref_mut(&mut self) -> &mut BusListener {
        &mut self.l
    }
}

/// a channel end taken from the pool: it goes back unless the claim came to a decision (an application that
/// abandons a claim it never got to make still knows the cookie)
struct CookieGuard {
    cookie: Option<ChannelCookie>,
    sender: bool,
    shared: SharedRc,
}
impl Drop for CookieGuard {
    fn drop(&mut self) {
        if let Some(ck) = self.cookie.take() {
            if std::env::var("SYS_DUMP").is_ok() {
                eprintln!("guard returns {:?}", ck);
            }
            if let Ok(mut sh) = self.shared.try_borrow_mut() {
                if self.sender { sh.unbound_senders.push(ck) } else { sh.unbound_receivers.push(ck) }
            }
        }
    }
}

/// what applications tell each other outside the bus
#[derive(Default)]
struct Shared {
    services: Vec<ServiceId>,
    unbound_senders: Vec<ChannelCookie>,
    unbound_receivers: Vec<ChannelCookie>,
    chan: HashMap<ChannelCookie, ChanStat>,
    next_token: u32,
    /// mode A: ids invented by the harness
    invented_services: Vec<ServiceId>,
}

impl App {
    /// holds nothing that keeps a client or a peer waiting
    fn is_empty(&self) -> bool {
        self.handle.is_none() && self.objects.is_empty() && self.services.is_empty() && self.proxies.is_empty() && self.psenders.is_empty()
            && self.preceivers.is_empty() && self.usenders.is_empty() && self.ureceivers.is_empty() && self.senders.is_empty()
            && self.receivers.is_empty() && self.listeners.is_empty()
    }
}

type AppRc = Rc<RefCell<App>>;
type SharedRc = Rc<RefCell<Shared>>;

fn err_name(e: &Error) -> String {
    match e {
        Error::Shutdown => "Shutdown".into(),
        Error::DuplicateObject => "DuplicateObject".into(),
        Error::InvalidObject => "InvalidObject".into(),
        Error::DuplicateService => "DuplicateService".into(),
        Error::InvalidService => "InvalidService".into(),
        Error::InvalidChannel => "InvalidChannel".into(),
        Error::CallAborted => "CallAborted".into(),
        Error::NotSupported => "NotSupported".into(),
        other => format!("{:?}", other).split(|c: char| !c.is_alphanumeric()).next().unwrap_or("Other").to_string(),
    }
}

fn res_name<T>(r: &Result<T, Error>) -> String {
    match r {
        Ok(_) => "Ok".into(),
        Err(e) => err_name(e),
    }
}

#[derive(Clone, Debug)]
enum Op {
    CreateObject(u64),
    DestroyObject(usize),
    DropObject(usize),
    CreateService(usize, u64, u32),
    SvcEmit(usize, u32),
    SvcDestroy(usize),
    SvcDrop(usize),
    CreateProxy(ServiceId),
    DropProxy(usize),
    Call(usize, u32, bool),
    Subscribe(usize, u32),
    Unsubscribe(usize, u32),
    SubscribeAll(usize),
    UnsubscribeAll(usize),
    DrainProxy(usize),
    CreateChannelSender,
    CreateChannelReceiver(u32),
    ShareUnclaimedSender(usize),
    ShareUnclaimedReceiver(usize),
    ClaimSharedSender(usize),
    ClaimSharedReceiver(usize, u32),
    ClaimOwnSender(usize),
    ClaimOwnReceiver(usize, u32),
    EstablishSender(usize),
    EstablishReceiver(usize),
    ClosePendingSender(usize),
    ClosePendingReceiver(usize),
    CloseUnclaimedSender(usize),
    CloseUnclaimedReceiver(usize),
    DropEnd(u8, usize),
    SendItem(usize),
    NextItem(usize),
    CloseSender(usize),
    CloseReceiver(usize),
    SyncBroker,
    SyncClient,
    CreateListener,
    ListenerFilter(usize, u8),
    ListenerStart(usize, u8),
    ListenerStop(usize),
    ListenerDestroy(usize),
    ListenerDrop(usize),
    ListenerDrain(usize),
    QueryIntrospection(u64),
    Version,
    Shutdown,
}

/// does the operation complete as soon as the broker has answered?
fn broker_only(op: &Op) -> bool {
    !matches!(op, Op::Call(..) | Op::EstablishSender(_) | Op::EstablishReceiver(_) | Op::SendItem(_) | Op::NextItem(_))
}

fn choose_op(rng: &mut Rng, app: &App, shared: &Shared, mode_a: bool) -> Op {
    for _ in 0..50 {
        let n = |v: usize, rng: &mut Rng| rng.below(v as u64) as usize;
        let op = match rng.below(46) {
            0 | 1 => Some(Op::CreateObject(rng.below(4))),
            2 if !app.objects.is_empty() => Some(Op::DestroyObject(n(app.objects.len(), rng))),
            3 if !app.objects.is_empty() && rng.below(2) == 0 => Some(Op::DropObject(n(app.objects.len(), rng))),
            4 | 5 if !app.objects.is_empty() => Some(Op::CreateService(n(app.objects.len(), rng), rng.below(3), rng.below(3) as u32)),
            6 if !app.services.is_empty() => Some(Op::SvcEmit(n(app.services.len(), rng), rng.below(3) as u32)),
            7 if !app.services.is_empty() => Some(Op::SvcDestroy(n(app.services.len(), rng))),
            8 if !app.services.is_empty() && rng.below(2) == 0 => Some(Op::SvcDrop(n(app.services.len(), rng))),
            9 | 10 => {
                let pool = if mode_a { &shared.invented_services } else { &shared.services };
                if pool.is_empty() { None } else { Some(Op::CreateProxy(pool[n(pool.len(), rng)])) }
            }
            11 if !app.proxies.is_empty() => Some(Op::DropProxy(n(app.proxies.len(), rng))),
            12 | 13 | 14 if !app.proxies.is_empty() => Some(Op::Call(n(app.proxies.len(), rng), rng.below(3) as u32, rng.below(5) == 0)),
            15 if !app.proxies.is_empty() => Some(Op::Subscribe(n(app.proxies.len(), rng), rng.below(3) as u32)),
            16 if !app.proxies.is_empty() => Some(Op::Unsubscribe(n(app.proxies.len(), rng), rng.below(3) as u32)),
            17 if !app.proxies.is_empty() => Some(Op::SubscribeAll(n(app.proxies.len(), rng))),
            18 if !app.proxies.is_empty() => Some(Op::UnsubscribeAll(n(app.proxies.len(), rng))),
            19 if !app.proxies.is_empty() => Some(Op::DrainProxy(n(app.proxies.len(), rng))),
            20 => Some(Op::CreateChannelSender),
            21 => Some(Op::CreateChannelReceiver(rng.below(4) as u32)),
            22 if !app.usenders.is_empty() => Some(Op::ShareUnclaimedSender(n(app.usenders.len(), rng))),
            23 if !app.ureceivers.is_empty() => Some(Op::ShareUnclaimedReceiver(n(app.ureceivers.len(), rng))),
            24 if !shared.unbound_senders.is_empty() => Some(Op::ClaimSharedSender(n(shared.unbound_senders.len(), rng))),
            25 if !shared.unbound_receivers.is_empty() => Some(Op::ClaimSharedReceiver(n(shared.unbound_receivers.len(), rng), 1 + rng.below(4) as u32)),
            26 if !app.usenders.is_empty() => Some(Op::ClaimOwnSender(n(app.usenders.len(), rng))),
            27 if !app.ureceivers.is_empty() => Some(Op::ClaimOwnReceiver(n(app.ureceivers.len(), rng), 1 + rng.below(4) as u32)),
            28 if !app.psenders.is_empty() => Some(Op::EstablishSender(n(app.psenders.len(), rng))),
            29 if !app.preceivers.is_empty() => Some(Op::EstablishReceiver(n(app.preceivers.len(), rng))),
            30 if !app.psenders.is_empty() && rng.below(3) == 0 => Some(Op::ClosePendingSender(n(app.psenders.len(), rng))),
            31 if !app.preceivers.is_empty() && rng.below(3) == 0 => Some(Op::ClosePendingReceiver(n(app.preceivers.len(), rng))),
            32 if !app.usenders.is_empty() && rng.below(3) == 0 => Some(Op::CloseUnclaimedSender(n(app.usenders.len(), rng))),
            33 if !app.ureceivers.is_empty() && rng.below(3) == 0 => Some(Op::CloseUnclaimedReceiver(n(app.ureceivers.len(), rng))),
            34 => {
                let which = rng.below(6) as u8;
                let len = [app.psenders.len(), app.preceivers.len(), app.usenders.len(), app.ureceivers.len(), app.senders.len(), app.receivers.len()][which as usize];
                if len > 0 && rng.below(3) == 0 { Some(Op::DropEnd(which, n(len, rng))) } else { None }
            }
            35 | 36 if !app.senders.is_empty() => Some(Op::SendItem(n(app.senders.len(), rng))),
            37 | 38 if !app.receivers.is_empty() => Some(Op::NextItem(n(app.receivers.len(), rng))),
            39 if !app.senders.is_empty() && rng.below(2) == 0 => Some(Op::CloseSender(n(app.senders.len(), rng))),
            39 if !app.receivers.is_empty() => Some(Op::CloseReceiver(n(app.receivers.len(), rng))),
            40 => Some(if rng.below(2) == 0 { Op::SyncBroker } else { Op::SyncClient }),
            41 => Some(Op::CreateListener),
            42 if !app.listeners.is_empty() => Some(match rng.below(6) {
                0 | 1 => Op::ListenerFilter(n(app.listeners.len(), rng), rng.below(5) as u8),
                2 | 3 => Op::ListenerStart(n(app.listeners.len(), rng), rng.below(3) as u8),
                4 => Op::ListenerStop(n(app.listeners.len(), rng)),
                _ => Op::ListenerDrain(n(app.listeners.len(), rng)),
            }),
            43 if !app.listeners.is_empty() => Some(match rng.below(3) {
                0 => Op::ListenerDestroy(n(app.listeners.len(), rng)),
                1 => Op::ListenerDrop(n(app.listeners.len(), rng)),
                _ => Op::ListenerDrain(n(app.listeners.len(), rng)),
            }),
            44 => Some(Op::QueryIntrospection(rng.below(3))),
            45 => Some(if rng.below(4) == 0 { Op::Shutdown } else { Op::Version }),
            _ => None,
        };
        if let Some(op) = op {
            return op;
        }
    }
    Op::SyncClient
}

fn record(app: &AppRc, op: &str, res: String) {
    app.borrow_mut().results.push((op.to_string(), res));
}

/// the task that owns a service: answers every call with `token + 1000`, obeys commands
async fn service_loop(mut svc: Service, ctl_cmds: Rc<RefCell<Vec<SvcCmd>>>, waker: Rc<RefCell<Option<Waker>>>, served: Rc<Cell<u64>>, gone: Rc<Cell<bool>>, app: AppRc) {
    std::future::poll_fn(move |cx| {
        *waker.borrow_mut() = Some(cx.waker().clone());
        loop {
            let cmd = {
                let mut c = ctl_cmds.borrow_mut();
                if c.is_empty() { None } else { Some(c.remove(0)) }
            };
            match cmd {
                Some(SvcCmd::Emit(ev, v)) => {
                    let _ = svc.emit(ev, v);
                }
                Some(SvcCmd::Destroy) => {
                    // `destroy` is async; hand the service to an operation task instead (see `Op::SvcDestroy`)
                    unreachable!()
                }
                Some(SvcCmd::Drop) => {
                    gone.set(true);
                    return Poll::Ready(());
                }
                None => break,
            }
        }
        loop {
            match svc.poll_next_call(cx) {
                Poll::Ready(Some(call)) => {
                    served.set(served.get() + 1);
                    match call.deserialize::<u32>() {
                        Ok(tok) => {
                            let f = call.id();
                            let r = match f {
                                0 => call.ok(tok.wrapping_add(1000)),
                                1 => call.err(tok.wrapping_add(2000)),
                                _ => call.invalid_function(),
                            };
                            if let Err(e) = r {
                                if !matches!(e, Error::Shutdown) {
                                    app.borrow_mut().fails.push(format!("replying to a call failed with {}", err_name(&e)));
                                }
                            }
                        }
                        Err(_) => {
                            let _ = call.invalid_args();
                        }
                    }
                }
                Poll::Ready(None) => {
                    gone.set(true);
                    return Poll::Ready(());
                }
                Poll::Pending => return Poll::Pending,
            }
        }
    })
    .await
}

fn filter_of(k: u8) -> BusListenerFilter {
    match k {
        0 => BusListenerFilter::any_object(),
        1 => BusListenerFilter::object(ou(0)),
        2 => BusListenerFilter::any_object_any_service(),
        3 => BusListenerFilter::specific_object_any_service(ou(1)),
        _ => BusListenerFilter::any_object_specific_service(su(0)),
    }
}

fn scope_of(k: u8) -> BusListenerScope {
    match k {
        0 => BusListenerScope::Current,
        1 => BusListenerScope::New,
        _ => BusListenerScope::All,
    }
}

/// Starts one operation. Synchronous operations run at once; asynchronous ones become a task.
/// Starts one operation; a panic of the synchronous part (an object of the client library misbehaving in the
/// application's own task) is recorded with the application.
fn start_op(op: Op, cid: usize, app: &AppRc, shared: &SharedRc, spawner: &Spawner) {
    let name = format!("{:?}", op).split('(').next().unwrap().to_string();
    let r = catch_unwind(AssertUnwindSafe(|| start_op_inner(op, cid, app, shared, spawner)));
    if let Err(e) = r {
        if let Ok(mut a) = app.try_borrow_mut() {
            a.app_panics.push(format!("{} panicked in the application's task: {}", name, panic_text(e)));
        }
    }
}

fn start_op_inner(op: Op, cid: usize, app: &AppRc, shared: &SharedRc, spawner: &Spawner) {
    let name = format!("{:?}", op).split('(').next().unwrap().to_string();
    let Some(handle) = app.borrow().handle.clone() else {
        return;
    };
    let a = app.clone();
    let sh = shared.clone();
    let nm = name.clone();
    let kind = Kind::Op(cid, broker_only(&op));
    let sp = spawner.clone();
    let spawn = |f: Pin<Box<dyn Future<Output = ()>>>| {
        sp.borrow_mut().push((format!("c{} {}", cid, name), kind, f));
    };
    match op {
        Op::CreateObject(u) => spawn(Box::pin(async move {
            let r = handle.create_object(ou(u)).await;
            record(&a, &nm, res_name(&r));
            if let Ok(o) = r {
                a.borrow_mut().objects.push(o);
            }
        })),
        Op::DestroyObject(i) => {
            let o = app.borrow_mut().objects.remove(i);
            spawn(Box::pin(async move {
                let r = o.destroy().await;
                record(&a, &nm, res_name(&r));
            }))
        }
        Op::DropObject(i) => {
            let o = app.borrow_mut().objects.remove(i);
            drop(o);
            record(app, &nm, "-".into());
        }
        Op::CreateService(i, u, ver) => {
            let o = app.borrow_mut().objects.remove(i);
            let sp2 = spawner.clone();
            spawn(Box::pin(async move {
                let r = Service::new(&o, su(u), ServiceInfo::new(ver)).await;
                record(&a, &nm, res_name(&r));
                a.borrow_mut().objects.push(o);
                if let Ok(svc) = r {
                    let id = svc.id();
                    let cmds = Rc::new(RefCell::new(vec![]));
                    let served = Rc::new(Cell::new(0));
                    let gone = Rc::new(Cell::new(false));
                    sh.borrow_mut().services.push(id);
                    let waker = Rc::new(RefCell::new(None));
                    a.borrow_mut().services.push(SvcCtl { id, cmds: cmds.clone(), waker: waker.clone(), served: served.clone(), gone: gone.clone() });
                    sp2.borrow_mut().push((format!("c{} service", cid), Kind::Service(cid), Box::pin(service_loop(svc, cmds, waker, served, gone, a.clone()))));
                }
            }))
        }
        Op::SvcEmit(i, ev) => {
            let tok = {
                let mut s = shared.borrow_mut();
                s.next_token += 1;
                s.next_token
            };
            app.borrow().services[i].tell(SvcCmd::Emit(ev, tok));
            record(app, &nm, "-".into());
        }
        Op::SvcDestroy(i) | Op::SvcDrop(i) => {
            // the loop task owns the `Service`; dropping it there destroys the service ("destroy now")
            let ctl = app.borrow_mut().services.remove(i);
            ctl.tell(SvcCmd::Drop);
            let _ = ctl.id;
            record(app, &nm, "-".into());
        }
        Op::CreateProxy(id) => spawn(Box::pin(async move {
            let r = Proxy::new(&handle, id).await;
            record(&a, &nm, res_name(&r));
            if let Ok(p) = r {
                a.borrow_mut().proxies.push(PInfo { proxy: p, subs: Default::default(), all: false });
            }
        })),
        Op::DropProxy(i) => {
            let p = app.borrow_mut().proxies.remove(i);
            drop(p);
            record(app, &nm, "-".into());
        }
        Op::Call(i, f, abort) => {
            let tok = {
                let mut s = shared.borrow_mut();
                s.next_token += 1;
                s.next_token
            };
            let pending = app.borrow().proxies[i].proxy.call(f, tok, None);
            if abort {
                pending.abort();
                record(app, &nm, "aborted-by-caller".into());
            } else {
                spawn(Box::pin(async move {
                    let r = pending.await;
                    let check = a.borrow().check_calls;
                    let txt = match &r {
                        Ok(_) | Err(_) if !check => res_name(&r),
                        Ok(reply) => match reply.deserialize::<u32, u32>() {
                            Ok(Ok(v)) => {
                                if f != 0 || v != tok.wrapping_add(1000) {
                                    a.borrow_mut().fails.push(format!("call of function {} with token {} returned Ok({})", f, tok, v));
                                }
                                "Ok".to_string()
                            }
                            Ok(Err(v)) => {
                                if f != 1 || v != tok.wrapping_add(2000) {
                                    a.borrow_mut().fails.push(format!("call of function {} with token {} returned Err({})", f, tok, v));
                                }
                                "Err".to_string()
                            }
                            Err(_) => {
                                a.borrow_mut().fails.push(format!("call of function {} with token {}: reply does not decode", f, tok));
                                "undecodable".to_string()
                            }
                        },
                        Err(e) => {
                            let n = err_name(e);
                            if n.starts_with("InvalidFunction") && f < 2 {
                                a.borrow_mut().fails.push(format!("call of function {} with token {} returned {}", f, tok, n));
                            }
                            n
                        }
                    };
                    record(&a, &nm, txt);
                }))
            }
        }
        Op::Subscribe(i, ev) | Op::Unsubscribe(i, ev) => {
            let mut p = app.borrow_mut().proxies.remove(i);
            let sub = matches!(op, Op::Subscribe(..));
            spawn(Box::pin(async move {
                let r = if sub { p.proxy.subscribe(ev).await } else { p.proxy.unsubscribe(ev).await };
                record(&a, &nm, res_name(&r));
                if r.is_ok() {
                    if sub { p.subs.insert(ev); } else { p.subs.remove(&ev); }
                }
                a.borrow_mut().proxies.push(p);
            }))
        }
        Op::SubscribeAll(i) | Op::UnsubscribeAll(i) => {
            let mut p = app.borrow_mut().proxies.remove(i);
            let sub = matches!(op, Op::SubscribeAll(..));
            spawn(Box::pin(async move {
                let r = if sub { p.proxy.subscribe_all().await } else { p.proxy.unsubscribe_all().await };
                record(&a, &nm, res_name(&r));
                if r.is_ok() {
                    if sub { p.all = true; } else { p.all = false; p.subs.clear(); }
                }
                a.borrow_mut().proxies.push(p);
            }))
        }
        Op::DrainProxy(i) => {
            let waker = Waker::noop();
            let mut cx = Context::from_waker(&waker);
            let mut k = 0;
            let mut app = app.borrow_mut();
            while let Poll::Ready(Some(_)) = app.proxies[i].proxy.poll_next_event(&mut cx) {
                k += 1;
            }
            app.results.push((nm, format!("{}", k.min(3))));
        }
        Op::CreateChannelSender => spawn(Box::pin(async move {
            let r = handle.create_low_level_channel().claim_sender().await;
            record(&a, &nm, res_name(&r));
            if let Ok((s, r)) = r {
                sh.borrow_mut().chan.insert(s.cookie(), ChanStat { sent: 0, received: 0, bad_order: false });
                let mut a = a.borrow_mut();
                a.psenders.push(s);
                a.ureceivers.push(r);
            }
        })),
        Op::CreateChannelReceiver(cap) => spawn(Box::pin(async move {
            let r = handle.create_low_level_channel().claim_receiver(cap).await;
            record(&a, &nm, res_name(&r));
            if let Ok((s, r)) = r {
                sh.borrow_mut().chan.insert(s.cookie(), ChanStat { sent: 0, received: 0, bad_order: false });
                let mut a = a.borrow_mut();
                a.usenders.push(s);
                a.preceivers.push(r);
            }
        })),
        Op::ShareUnclaimedSender(i) => {
            let s = app.borrow_mut().usenders.remove(i);
            shared.borrow_mut().unbound_senders.push(s.unbind().cookie());
            record(app, &nm, "-".into());
        }
        Op::ShareUnclaimedReceiver(i) => {
            let r = app.borrow_mut().ureceivers.remove(i);
            let ck = r.unbind().cookie();
            if std::env::var("SYS_DUMP").is_ok() {
                eprintln!("c{} shares receiver {:?}", cid, ck);
            }
            shared.borrow_mut().unbound_receivers.push(ck);
            record(app, &nm, "-".into());
        }
        Op::ClaimSharedSender(i) => {
            let ck = shared.borrow_mut().unbound_senders.remove(i);
            // made here, not in the task: a task dropped before its first poll must give the cookie back too
            let guard = CookieGuard { cookie: Some(ck), sender: true, shared: sh.clone() };
            spawn(Box::pin(async move {
                // the whole guard moves into the task (naming only its field would capture a copy of the field)
                let mut guard = guard;
                let r = UnboundSender::new(ck).claim(handle).await;
                record(&a, &nm, res_name(&r));
                match r {
                    Ok(s) => {
                        guard.cookie = None;
                        a.borrow_mut().senders.push(s)
                    }
                    // the client was gone before it could ask: the end is still up for grabs (the guard returns it)
                    Err(Error::Shutdown) => {}
                    Err(_) => guard.cookie = None,
                }
            }))
        }
        Op::ClaimSharedReceiver(i, cap) => {
            let ck = shared.borrow_mut().unbound_receivers.remove(i);
            if std::env::var("SYS_DUMP").is_ok() {
                eprintln!("c{} takes receiver {:?}", cid, ck);
            }
            let guard = CookieGuard { cookie: Some(ck), sender: false, shared: sh.clone() };
            spawn(Box::pin(async move {
                let mut guard = guard;
                let r = UnboundReceiver::new(ck).claim(handle, cap).await;
                record(&a, &nm, res_name(&r));
                match r {
                    Ok(r) => {
                        guard.cookie = None;
                        a.borrow_mut().receivers.push(r)
                    }
                    Err(Error::Shutdown) => {}
                    Err(_) => guard.cookie = None,
                }
            }))
        }
        Op::ClaimOwnSender(i) => {
            let s = app.borrow_mut().usenders.remove(i);
            spawn(Box::pin(async move {
                let r = s.claim().await;
                record(&a, &nm, res_name(&r));
                if let Ok(s) = r {
                    a.borrow_mut().senders.push(s);
                }
            }))
        }
        Op::ClaimOwnReceiver(i, cap) => {
            let r = app.borrow_mut().ureceivers.remove(i);
            spawn(Box::pin(async move {
                let r = r.claim(cap).await;
                record(&a, &nm, res_name(&r));
                if let Ok(r) = r {
                    a.borrow_mut().receivers.push(r);
                }
            }))
        }
        Op::EstablishSender(i) => {
            let s = app.borrow_mut().psenders.remove(i);
            spawn(Box::pin(async move {
                let r = s.establish().await;
                record(&a, &nm, res_name(&r));
                if let Ok(s) = r {
                    a.borrow_mut().senders.push(s);
                }
            }))
        }
        Op::EstablishReceiver(i) => {
            let r = app.borrow_mut().preceivers.remove(i);
            spawn(Box::pin(async move {
                let r = r.establish().await;
                record(&a, &nm, res_name(&r));
                if let Ok(r) = r {
                    a.borrow_mut().receivers.push(r);
                }
            }))
        }
        Op::ClosePendingSender(i) => {
            let mut s = app.borrow_mut().psenders.remove(i);
            spawn(Box::pin(async move {
                let r = s.close().await;
                record(&a, &nm, res_name(&r));
            }))
        }
        Op::ClosePendingReceiver(i) => {
            let mut s = app.borrow_mut().preceivers.remove(i);
            spawn(Box::pin(async move {
                let r = s.close().await;
                record(&a, &nm, res_name(&r));
            }))
        }
        Op::CloseUnclaimedSender(i) => {
            let mut s = app.borrow_mut().usenders.remove(i);
            spawn(Box::pin(async move {
                let r = s.close().await;
                record(&a, &nm, res_name(&r));
            }))
        }
        Op::CloseUnclaimedReceiver(i) => {
            let mut s = app.borrow_mut().ureceivers.remove(i);
            spawn(Box::pin(async move {
                let r = s.close().await;
                record(&a, &nm, res_name(&r));
            }))
        }
        Op::DropEnd(which, i) => {
            let mut a = app.borrow_mut();
            match which {
                0 => drop(a.psenders.remove(i)),
                1 => drop(a.preceivers.remove(i)),
                2 => drop(a.usenders.remove(i)),
                3 => drop(a.ureceivers.remove(i)),
                4 => drop(a.senders.remove(i)),
                _ => drop(a.receivers.remove(i)),
            }
            a.results.push((nm, format!("{}", which)));
        }
        Op::SendItem(i) => {
            let mut s = app.borrow_mut().senders.remove(i);
            spawn(Box::pin(async move {
                let ck = s.cookie();
                let seq = sh.borrow().chan.get(&ck).map(|c| c.sent).unwrap_or(0);
                let r = s.send_item(seq).await;
                record(&a, &nm, res_name(&r));
                if r.is_ok() {
                    if let Some(c) = sh.borrow_mut().chan.get_mut(&ck) {
                        c.sent += 1;
                    }
                }
                a.borrow_mut().senders.push(s);
            }))
        }
        Op::NextItem(i) => {
            let mut r = app.borrow_mut().receivers.remove(i);
            if std::env::var("SYS_DUMP").is_ok() {
                eprintln!("NextItem c{} on {:?}", cid, r.cookie());
            }
            spawn(Box::pin(async move {
                let ck = r.cookie();
                let item = r.next_item::<u64>().await;
                let txt = match &item {
                    Ok(Some(v)) => {
                        let check = a.borrow().check_calls;
                        if let Some(c) = sh.borrow_mut().chan.get_mut(&ck).filter(|_| check) {
                            if *v != c.received {
                                c.bad_order = true;
                                a.borrow_mut().fails.push(format!("channel item {} arrived where item {} was due", v, c.received));
                            }
                            c.received += 1;
                        }
                        "Item".to_string()
                    }
                    Ok(None) => "None".to_string(),
                    Err(e) => err_name(e),
                };
                record(&a, &nm, txt);
                a.borrow_mut().receivers.push(r);
            }))
        }
        Op::CloseSender(i) => {
            let mut s = app.borrow_mut().senders.remove(i);
            spawn(Box::pin(async move {
                let r = s.close().await;
                record(&a, &nm, res_name(&r));
            }))
        }
        Op::CloseReceiver(i) => {
            let mut s = app.borrow_mut().receivers.remove(i);
            spawn(Box::pin(async move {
                let r = s.close().await;
                record(&a, &nm, res_name(&r));
            }))
        }
        Op::SyncBroker => spawn(Box::pin(async move {
            let r = handle.sync_broker().await;
            record(&a, &nm, res_name(&r));
        })),
        Op::SyncClient => spawn(Box::pin(async move {
            let r = handle.sync_client().await;
            record(&a, &nm, res_name(&r));
        })),
        Op::CreateListener => spawn(Box::pin(async move {
            let r = BusListener::new(&handle).await;
            record(&a, &nm, res_name(&r));
            if let Ok(l) = r {
                a.borrow_mut().listeners.push(Lsn { l, ever: vec![] });
            }
        })),
        Op::ListenerFilter(i, k) => {
            let mut a = app.borrow_mut();
            if k <= 2 {
                let f = filter_of(k);
                if !a.listeners[i].ever.contains(&f) {
                    a.listeners[i].ever.push(f);
                }
            }
            let r = match k {
                0..=2 => a.listeners[i].add_filter(filter_of(k)),
                3 => a.listeners[i].remove_filter(filter_of(0)),
                _ => a.listeners[i].clear_filters(),
            };
            a.results.push((nm, res_name(&r)));
        }
        Op::ListenerStart(i, k) => {
            let mut l = app.borrow_mut().listeners.remove(i);
            spawn(Box::pin(async move {
                let r = l.start(scope_of(k)).await;
                record(&a, &nm, res_name(&r));
                a.borrow_mut().listeners.push(l);
            }))
        }
        Op::ListenerStop(i) => {
            let mut l = app.borrow_mut().listeners.remove(i);
            spawn(Box::pin(async move {
                let r = l.stop().await;
                record(&a, &nm, res_name(&r));
                a.borrow_mut().listeners.push(l);
            }))
        }
        Op::ListenerDestroy(i) => {
            let l = app.borrow_mut().listeners.remove(i);
            let mut l = l.l;
            spawn(Box::pin(async move {
                let r = l.destroy().await;
                record(&a, &nm, res_name(&r));
            }))
        }
        Op::ListenerDrop(i) => {
            let l = app.borrow_mut().listeners.remove(i);
            drop(l);
            record(app, &nm, "-".into());
        }
        Op::ListenerDrain(i) => {
            let waker = Waker::noop();
            let mut cx = Context::from_waker(&waker);
            let mut k = 0;
            let mut app = app.borrow_mut();
            let check = app.check_calls;
            while let Poll::Ready(Some(ev)) = app.listeners[i].poll_next_event(&mut cx) {
                k += 1;
                // with a real broker: a listener yields only what one of its filters (ever) matches
                if check && !app.listeners[i].ever.iter().any(|f| f.matches_event(ev)) {
                    let what = format!("a bus listener yielded {:?}, which none of the filters it ever had matches ({:?})", ev, app.listeners[i].ever);
                    app.fails.push(format!("C10 {}", what));
                }
            }
            app.results.push((nm, format!("{}", k.min(3))));
        }
        Op::QueryIntrospection(t) => spawn(Box::pin(async move {
            let r = handle.query_introspection(TypeId(pool_uuid(200 + t))).await;
            record(&a, &nm, res_name(&r));
        })),
        Op::Version => spawn(Box::pin(async move {
            let r = handle.version().await;
            record(&a, &nm, res_name(&r));
        })),
        Op::Shutdown => {
            handle.shutdown();
            record(app, &nm, "-".into());
        }
    }
}

/// drops everything an application holds (in a PRNG-chosen order of the groups)
fn drop_all(app: &AppRc, rng: &mut Rng) {
    let mut a = app.borrow_mut();
    for c in a.services.drain(..) {
        c.tell(SvcCmd::Drop);
    }
    let mut order: Vec<u8> = (0..9).collect();
    for i in (1..order.len()).rev() {
        let j = rng.below(i as u64 + 1) as usize;
        order.swap(i, j);
    }
    for k in order {
        match k {
            0 => a.objects.clear(),
            1 => a.proxies.clear(),
            2 => a.psenders.clear(),
            3 => a.preceivers.clear(),
            4 => a.usenders.clear(),
            5 => a.ureceivers.clear(),
            6 => a.senders.clear(),
            7 => a.receivers.clear(),
            _ => a.listeners.clear(),
        }
    }
    a.handle = None;
}

// ------------------------------------------------------------------------------------------------
// output

struct Out {
    req: BufWriter<File>,
    rust: BufWriter<File>,
    oracle: BufWriter<File>,
    lines: usize,
    fails: usize,
    dist: BTreeMap<String, u64>,
    samples: Vec<String>,
}
impl Out {
    fn emit(&mut self, req: &str, rust: &str) {
        writeln!(self.req, "{}", req).unwrap();
        writeln!(self.rust, "{}", rust).unwrap();
        self.lines += 1;
        if self.samples.len() < 8 && self.lines % 397 == 7 {
            self.samples.push(format!("{} => {}", req, rust));
        }
    }
    fn fail(&mut self, prop: &str, what: &str, ctx: &str) {
        writeln!(self.oracle, "FAIL {} line={} {} input={}", prop, self.lines, what, ctx).unwrap();
        self.fails += 1;
    }
    fn count(&mut self, k: &str) {
        *self.dist.entry(k.to_string()).or_insert(0) += 1;
    }
}

type RunResult = Rc<RefCell<Option<Result<(), String>>>>;

fn run_error_name(e: &RunError<TapError>) -> String {
    match e {
        RunError::UnexpectedMessageReceived(_) => "unexpected".into(),
        RunError::Transport(t) => format!("transport:{:?}", t),
        other => format!("other:{}", format!("{:?}", other).split(|c: char| !c.is_alphanumeric()).next().unwrap_or("")),
    }
}

// ------------------------------------------------------------------------------------------------
// scenario A: one client, the harness is the broker

#[derive(Clone, Debug)]
enum PendingReq {
    CreateObject(u32),
    DestroyObject(u32),
    CreateService(u32),
    DestroyService(u32, Uuid),
    Call(u32),
    SubscribeEvent(u32),
    QueryServiceInfo(u32),
    QueryServiceVersion(u32),
    SubscribeService(u32),
    SubscribeAll(u32),
    UnsubscribeAll(u32),
    CreateChannel(u32, ChannelEnd),
    CloseChannelEnd(u32, Uuid, ChannelEnd),
    ClaimChannelEnd(u32, Uuid, ChannelEnd),
    Sync(u32),
    CreateBusListener(u32),
    DestroyBusListener(u32, Uuid),
    StartBusListener(u32, Uuid, BusListenerScope),
    StopBusListener(u32, Uuid),
    QueryIntrospection(u32),
}

#[derive(Default)]
struct FakeBroker {
    pending: Vec<PendingReq>,
    objects: Vec<Uuid>,
    services: Vec<Uuid>,
    channels: Vec<Uuid>,
    listeners: Vec<Uuid>,
    call_serials: Vec<u32>,
    /// what the client holds, as far as a well-behaved broker would know: (cookie, the client's end, established?)
    ends: Vec<(Uuid, ChannelEnd, bool)>,
    /// started listeners: (cookie, scope includes current, current finished)
    started: Vec<(Uuid, bool, bool)>,
    live_services: Vec<Uuid>,
    next_cookie: u128,
    next_serial: u32,
}

impl FakeBroker {
    fn fresh(&mut self) -> Uuid {
        self.next_cookie += 1;
        Uuid::from_u128(0xC00C_0000_0000_0000_0000_0000_0000_0000u128 + self.next_cookie)
    }
    fn learn(&mut self, m: &Message) {
        let p = match m {
            Message::CreateObject(r) => PendingReq::CreateObject(r.serial),
            Message::DestroyObject(r) => PendingReq::DestroyObject(r.serial),
            Message::CreateService(r) => PendingReq::CreateService(r.serial),
            Message::CreateService2(r) => PendingReq::CreateService(r.serial),
            Message::DestroyService(r) => PendingReq::DestroyService(r.serial, r.cookie.0),
            Message::CallFunction(r) => PendingReq::Call(r.serial),
            Message::CallFunction2(r) => PendingReq::Call(r.serial),
            Message::SubscribeEvent(SubscribeEvent { serial: Some(s), .. }) => PendingReq::SubscribeEvent(*s),
            Message::QueryServiceInfo(r) => PendingReq::QueryServiceInfo(r.serial),
            Message::QueryServiceVersion(r) => PendingReq::QueryServiceVersion(r.serial),
            Message::SubscribeService(r) => PendingReq::SubscribeService(r.serial),
            Message::SubscribeAllEvents(SubscribeAllEvents { serial: Some(s), .. }) => PendingReq::SubscribeAll(*s),
            Message::UnsubscribeAllEvents(UnsubscribeAllEvents { serial: Some(s), .. }) => PendingReq::UnsubscribeAll(*s),
            Message::CreateChannel(r) => PendingReq::CreateChannel(r.serial, match r.end {
                ChannelEndWithCapacity::Sender => ChannelEnd::Sender,
                ChannelEndWithCapacity::Receiver(_) => ChannelEnd::Receiver,
            }),
            Message::CloseChannelEnd(r) => PendingReq::CloseChannelEnd(r.serial, r.cookie.0, r.end),
            Message::ClaimChannelEnd(r) => PendingReq::ClaimChannelEnd(r.serial, r.cookie.0, match r.end {
                ChannelEndWithCapacity::Sender => ChannelEnd::Sender,
                ChannelEndWithCapacity::Receiver(_) => ChannelEnd::Receiver,
            }),
            Message::Sync(r) => PendingReq::Sync(r.serial),
            Message::CreateBusListener(r) => PendingReq::CreateBusListener(r.serial),
            Message::DestroyBusListener(r) => PendingReq::DestroyBusListener(r.serial, r.cookie.0),
            Message::StartBusListener(r) => PendingReq::StartBusListener(r.serial, r.cookie.0, r.scope),
            Message::StopBusListener(r) => PendingReq::StopBusListener(r.serial, r.cookie.0),
            Message::QueryIntrospection(r) => PendingReq::QueryIntrospection(r.serial),
            Message::CallFunctionReply(r) => {
                self.call_serials.retain(|s| *s != r.serial);
                return;
            }
            _ => return,
        };
        self.pending.push(p);
    }

    fn pick(&self, rng: &mut Rng, pool: &[Uuid]) -> Uuid {
        if !pool.is_empty() && rng.below(8) != 0 {
            pool[rng.below(pool.len() as u64) as usize]
        } else if rng.below(2) == 0 {
            let all: Vec<Uuid> = self.objects.iter().chain(&self.services).chain(&self.channels).chain(&self.listeners).cloned().collect();
            if all.is_empty() { Uuid::from_u128(0xB060u128 << 112) } else { all[rng.below(all.len() as u64) as usize] }
        } else {
            Uuid::from_u128((0xB060u128 << 112) + rng.below(3) as u128)
        }
    }

    /// the answer to a pending request, mostly a sensible one
    fn answer(&mut self, rng: &mut Rng, p: PendingReq) -> Message {
        match p {
            PendingReq::CreateObject(serial) => {
                let result = if rng.below(5) == 0 { CreateObjectResult::DuplicateObject } else {
                    let c = self.fresh();
                    self.objects.push(c);
                    CreateObjectResult::Ok(ObjectCookie(c))
                };
                CreateObjectReply { serial, result }.into()
            }
            PendingReq::DestroyObject(serial) => DestroyObjectReply { serial, result: match rng.below(4) {
                0 => DestroyObjectResult::InvalidObject,
                _ => DestroyObjectResult::Ok,
            } }.into(),
            PendingReq::CreateService(serial) => {
                let result = match rng.below(8) {
                    0 => CreateServiceResult::DuplicateService,
                    1 => CreateServiceResult::InvalidObject,
                    2 if rng.below(4) == 0 => CreateServiceResult::ForeignObject,
                    3 if !self.services.is_empty() && rng.below(4) == 0 => CreateServiceResult::Ok(ServiceCookie(self.services[0])),
                    _ => {
                        let c = self.fresh();
                        self.services.push(c);
                        self.live_services.push(c);
                        CreateServiceResult::Ok(ServiceCookie(c))
                    }
                };
                CreateServiceReply { serial, result }.into()
            }
            PendingReq::DestroyService(serial, ck) => DestroyServiceReply { serial, result: match rng.below(6) {
                0 => DestroyServiceResult::InvalidService,
                1 if rng.below(4) == 0 => DestroyServiceResult::ForeignObject,
                _ => {
                    self.live_services.retain(|c| *c != ck);
                    DestroyServiceResult::Ok
                }
            } }.into(),
            PendingReq::Call(serial) => CallFunctionReply { serial, result: match rng.below(5) {
                0 => CallFunctionResult::InvalidService,
                1 => CallFunctionResult::Aborted,
                2 => CallFunctionResult::Err(SerializedValue::serialize(7u32).unwrap()),
                _ => CallFunctionResult::Ok(SerializedValue::serialize(9u32).unwrap()),
            } }.into(),
            PendingReq::SubscribeEvent(serial) => SubscribeEventReply { serial, result: if rng.below(4) == 0 { SubscribeEventResult::InvalidService } else { SubscribeEventResult::Ok } }.into(),
            PendingReq::QueryServiceInfo(serial) => QueryServiceInfoReply { serial, result: if rng.below(4) == 0 { QueryServiceInfoResult::InvalidService } else {
                let mut info = aldrin::core::ServiceInfo::new(rng.below(3) as u32);
                if rng.below(2) == 0 {
                    info = info.set_subscribe_all(rng.below(2) == 0);
                }
                QueryServiceInfoResult::Ok(SerializedValue::serialize(info).unwrap())
            } }.into(),
            PendingReq::QueryServiceVersion(serial) => QueryServiceVersionReply { serial, result: if rng.below(4) == 0 { QueryServiceVersionResult::InvalidService } else { QueryServiceVersionResult::Ok(rng.below(3) as u32) } }.into(),
            PendingReq::SubscribeService(serial) => SubscribeServiceReply { serial, result: if rng.below(4) == 0 { SubscribeServiceResult::InvalidService } else { SubscribeServiceResult::Ok } }.into(),
            PendingReq::SubscribeAll(serial) => SubscribeAllEventsReply { serial, result: match rng.below(8) {
                0 => SubscribeAllEventsResult::InvalidService,
                1 => SubscribeAllEventsResult::NotSupported,
                _ => SubscribeAllEventsResult::Ok,
            } }.into(),
            PendingReq::UnsubscribeAll(serial) => UnsubscribeAllEventsReply { serial, result: match rng.below(8) {
                0 => UnsubscribeAllEventsResult::InvalidService,
                1 => UnsubscribeAllEventsResult::NotSupported,
                _ => UnsubscribeAllEventsResult::Ok,
            } }.into(),
            PendingReq::CreateChannel(serial, end) => {
                // always a fresh cookie: one cookie naming two channels is something no transport-level view of the
                // client can follow (which of the two ends a later close belongs to is not on the wire)
                let c = self.fresh();
                self.channels.push(c);
                self.ends.push((c, end, false));
                CreateChannelReply { serial, cookie: ChannelCookie(c) }.into()
            }
            PendingReq::CloseChannelEnd(serial, ck, end) => CloseChannelEndReply { serial, result: match rng.below(6) {
                0 => CloseChannelEndResult::InvalidChannel,
                1 => CloseChannelEndResult::ForeignChannel,
                _ => {
                    self.ends.retain(|(c, e, _)| !(*c == ck && *e == end));
                    CloseChannelEndResult::Ok
                }
            } }.into(),
            PendingReq::ClaimChannelEnd(serial, ck, end) => ClaimChannelEndReply { serial, result: match rng.below(10) {
                0 => ClaimChannelEndResult::InvalidChannel,
                1 => ClaimChannelEndResult::AlreadyClaimed,
                2 if rng.below(3) == 0 => if end == ChannelEnd::Sender { ClaimChannelEndResult::ReceiverClaimed } else { ClaimChannelEndResult::SenderClaimed(2) },
                _ => {
                    if !self.ends.iter().any(|(c, e, _)| *c == ck && *e == end) {
                        self.ends.push((ck, end, true));
                    }
                    if end == ChannelEnd::Sender { ClaimChannelEndResult::SenderClaimed(1 + rng.below(3) as u32) } else { ClaimChannelEndResult::ReceiverClaimed }
                }
            } }.into(),
            PendingReq::Sync(serial) => SyncReply { serial }.into(),
            PendingReq::CreateBusListener(serial) => {
                let c = if !self.listeners.is_empty() && rng.below(12) == 0 { self.listeners[0] } else {
                    let c = self.fresh();
                    self.listeners.push(c);
                    c
                };
                CreateBusListenerReply { serial, cookie: BusListenerCookie(c) }.into()
            }
            PendingReq::DestroyBusListener(serial, ck) => DestroyBusListenerReply { serial, result: if rng.below(5) == 0 { DestroyBusListenerResult::InvalidBusListener } else {
                self.started.retain(|(c, _, _)| *c != ck);
                DestroyBusListenerResult::Ok
            } }.into(),
            PendingReq::StartBusListener(serial, ck, scope) => {
                let is_started = self.started.iter().any(|(c, _, _)| *c == ck);
                StartBusListenerReply { serial, result: match rng.below(8) {
                    0 => StartBusListenerResult::InvalidBusListener,
                    _ if is_started && rng.below(8) != 0 => StartBusListenerResult::AlreadyStarted,
                    1 => StartBusListenerResult::AlreadyStarted,
                    _ => {
                        if !is_started {
                            self.started.push((ck, scope.includes_current(), !scope.includes_current()));
                        }
                        StartBusListenerResult::Ok
                    }
                } }.into()
            }
            PendingReq::StopBusListener(serial, ck) => {
                let is_started = self.started.iter().any(|(c, _, _)| *c == ck);
                StopBusListenerReply { serial, result: match rng.below(8) {
                    0 => StopBusListenerResult::InvalidBusListener,
                    _ if !is_started && rng.below(8) != 0 => StopBusListenerResult::NotStarted,
                    1 => StopBusListenerResult::NotStarted,
                    _ => {
                        self.started.retain(|(c, _, _)| *c != ck);
                        StopBusListenerResult::Ok
                    }
                } }.into()
            }
            PendingReq::QueryIntrospection(serial) => QueryIntrospectionReply { serial, result: QueryIntrospectionResult::Unavailable }.into(),
        }
    }

    /// a message a well-behaved broker could send now, if there is one
    fn sensible(&mut self, rng: &mut Rng) -> Option<Message> {
        let val = SerializedValue::serialize(rng.below(100)).unwrap();
        for _ in 0..6 {
            match rng.below(8) {
                0 => {
                    let pend: Vec<usize> = (0..self.ends.len()).filter(|&i| !self.ends[i].2).collect();
                    if let Some(&i) = pend.get(rng.below(pend.len().max(1) as u64) as usize) {
                        self.ends[i].2 = true;
                        let (c, e, _) = self.ends[i];
                        // the *other* end was claimed
                        let end = if e == ChannelEnd::Sender { ChannelEndWithCapacity::Receiver(1 + rng.below(3) as u32) } else { ChannelEndWithCapacity::Sender };
                        return Some(ChannelEndClaimed { cookie: ChannelCookie(c), end }.into());
                    }
                }
                1 | 2 => {
                    let est: Vec<usize> = (0..self.ends.len()).filter(|&i| self.ends[i].2 && self.ends[i].1 == ChannelEnd::Receiver).collect();
                    if let Some(&i) = est.get(rng.below(est.len().max(1) as u64) as usize) {
                        return Some(ItemReceived { cookie: ChannelCookie(self.ends[i].0), value: val }.into());
                    }
                }
                3 => {
                    let est: Vec<usize> = (0..self.ends.len()).filter(|&i| self.ends[i].2 && self.ends[i].1 == ChannelEnd::Sender).collect();
                    if let Some(&i) = est.get(rng.below(est.len().max(1) as u64) as usize) {
                        return Some(AddChannelCapacity { cookie: ChannelCookie(self.ends[i].0), capacity: 1 + rng.below(3) as u32 }.into());
                    }
                }
                4 => {
                    if !self.ends.is_empty() && rng.below(3) == 0 {
                        let i = rng.below(self.ends.len() as u64) as usize;
                        let (c, e, _) = self.ends[i];
                        // the other end was closed; told once (the entry stays until the client closes its own end)
                        let end = if e == ChannelEnd::Sender { ChannelEnd::Receiver } else { ChannelEnd::Sender };
                        return Some(ChannelEndClosed { cookie: ChannelCookie(c), end }.into());
                    }
                }
                5 => {
                    let cur: Vec<usize> = (0..self.started.len()).filter(|&i| self.started[i].1 && !self.started[i].2).collect();
                    if let Some(&i) = cur.get(rng.below(cur.len().max(1) as u64) as usize) {
                        let o = ObjectId::new(ou(rng.below(3)), ObjectCookie(Uuid::from_u128(77)));
                        if rng.below(3) == 0 {
                            self.started[i].2 = true;
                            return Some(BusListenerCurrentFinished { cookie: BusListenerCookie(self.started[i].0) }.into());
                        }
                        return Some(EmitBusEvent { cookie: Some(BusListenerCookie(self.started[i].0)), event: BusEvent::ObjectCreated(o) }.into());
                    }
                }
                6 => {
                    if !self.live_services.is_empty() {
                        let c = self.live_services[rng.below(self.live_services.len() as u64) as usize];
                        self.next_serial += 1;
                        let serial = 500 + self.next_serial;
                        self.call_serials.push(serial);
                        return Some(CallFunction2 { serial, service_cookie: ServiceCookie(c), function: rng.below(3) as u32, version: None, value: val }.into());
                    }
                }
                _ => {}
            }
        }
        None
    }

    /// a message nobody asked for; cookies mostly from the matching pool, serials mostly small
    fn unsolicited(&mut self, rng: &mut Rng) -> Message {
        if rng.below(10) < 7 {
            if let Some(m) = self.sensible(rng) {
                return m;
            }
        }
        let serial = if rng.below(3) == 0 { rng.below(4) as u32 } else {
            self.next_serial += 1;
            100 + self.next_serial
        };
        let val = SerializedValue::serialize(rng.below(100) as u32).unwrap();
        match rng.below(24) {
            0 | 1 => {
                let c = self.pick(rng, &self.services.clone());
                self.call_serials.push(serial);
                if rng.below(2) == 0 {
                    CallFunction { serial, service_cookie: ServiceCookie(c), function: rng.below(3) as u32, value: val }.into()
                } else {
                    CallFunction2 { serial, service_cookie: ServiceCookie(c), function: rng.below(3) as u32, version: None, value: val }.into()
                }
            }
            2 => {
                let s = if !self.call_serials.is_empty() && rng.below(4) != 0 { self.call_serials[rng.below(self.call_serials.len() as u64) as usize] } else { serial };
                AbortFunctionCall { serial: s }.into()
            }
            3 => SubscribeEvent { serial: None, service_cookie: ServiceCookie(self.pick(rng, &self.services.clone())), event: rng.below(3) as u32 }.into(),
            4 => UnsubscribeEvent { service_cookie: ServiceCookie(self.pick(rng, &self.services.clone())), event: rng.below(3) as u32 }.into(),
            5 => EmitEvent { service_cookie: ServiceCookie(self.pick(rng, &self.services.clone())), event: rng.below(3) as u32, value: val }.into(),
            6 => ServiceDestroyed { service_cookie: ServiceCookie(self.pick(rng, &self.services.clone())) }.into(),
            7 => SubscribeAllEvents { serial: None, service_cookie: ServiceCookie(self.pick(rng, &self.services.clone())) }.into(),
            8 => UnsubscribeAllEvents { serial: None, service_cookie: ServiceCookie(self.pick(rng, &self.services.clone())) }.into(),
            9 | 10 => ChannelEndClaimed { cookie: ChannelCookie(self.pick(rng, &self.channels.clone())), end: if rng.below(2) == 0 { ChannelEndWithCapacity::Sender } else { ChannelEndWithCapacity::Receiver(1 + rng.below(3) as u32) } }.into(),
            11 | 12 => ChannelEndClosed { cookie: ChannelCookie(self.pick(rng, &self.channels.clone())), end: if rng.below(2) == 0 { ChannelEnd::Sender } else { ChannelEnd::Receiver } }.into(),
            13 | 14 => ItemReceived { cookie: ChannelCookie(self.pick(rng, &self.channels.clone())), value: SerializedValue::serialize(rng.below(3)).unwrap() }.into(),
            15 | 16 => AddChannelCapacity { cookie: ChannelCookie(self.pick(rng, &self.channels.clone())), capacity: 1 + rng.below(3) as u32 }.into(),
            17 | 18 => {
                let cookie = if rng.below(3) == 0 { None } else { Some(BusListenerCookie(self.pick(rng, &self.listeners.clone()))) };
                let o = ObjectId::new(ou(rng.below(3)), ObjectCookie(Uuid::from_u128(77)));
                let event = match rng.below(4) {
                    0 => BusEvent::ObjectCreated(o),
                    1 => BusEvent::ObjectDestroyed(o),
                    2 => BusEvent::ServiceCreated(ServiceId::new(o, su(rng.below(3)), ServiceCookie(Uuid::from_u128(78)))),
                    _ => BusEvent::ServiceDestroyed(ServiceId::new(o, su(rng.below(3)), ServiceCookie(Uuid::from_u128(78)))),
                };
                EmitBusEvent { cookie, event }.into()
            }
            19 | 20 => BusListenerCurrentFinished { cookie: BusListenerCookie(self.pick(rng, &self.listeners.clone())) }.into(),
            21 => QueryIntrospection { serial, type_id: TypeId(pool_uuid(200)) }.into(),
            22 => {
                // a reply nobody waits for
                match rng.below(8) {
                    0 => SyncReply { serial }.into(),
                    1 => CreateObjectReply { serial, result: CreateObjectResult::DuplicateObject }.into(),
                    2 => DestroyObjectReply { serial, result: DestroyObjectResult::Ok }.into(),
                    3 => CallFunctionReply { serial, result: CallFunctionResult::Aborted }.into(),
                    4 => DestroyServiceReply { serial, result: DestroyServiceResult::Ok }.into(),
                    5 => CloseChannelEndReply { serial, result: CloseChannelEndResult::Ok }.into(),
                    6 => QueryIntrospectionReply { serial, result: QueryIntrospectionResult::Unavailable }.into(),
                    _ => StopBusListenerReply { serial, result: StopBusListenerResult::Ok }.into(),
                }
            }
            _ => {
                if rng.below(6) == 0 { Message::Shutdown(Shutdown) } else { Message::Sync(Sync { serial }) }
            }
        }
    }
}

fn scenario_a(out: &mut Out, seed: u64) {
    let mut rng = Rng::new(seed);
    let mut ex = Exec::new();
    let log = Rc::new(RefCell::new(TapLog { events: vec![] }));
    let (t_client, t_broker) = channel::unbounded();
    let mut broker_end = Box::pin(t_broker);
    let tap = Tap::new(Inner::U(t_client), 0, log.clone(), Rc::new(Cell::new(0)), None, Rc::new(Cell::new(false)));
    let version = [14u32, 15, 16, 17, 18, 19, 20, 20, 20][rng.below(9) as usize];
    let app: AppRc = Rc::new(RefCell::new(App::default()));
    let shared: SharedRc = Rc::new(RefCell::new(Shared::default()));
    let result: RunResult = Rc::new(RefCell::new(None));
    let waker = Waker::noop();
    let mut cx = Context::from_waker(&waker);

    // connect: the harness answers the handshake
    {
        let app = app.clone();
        let result = result.clone();
        ex.spawn("client".into(), Kind::Client(0), async move {
            match Client::connect(tap).await {
                Ok(client) => {
                    app.borrow_mut().handle = Some(client.handle().clone());
                    let r = client.run().await;
                    *result.borrow_mut() = Some(r.map_err(|e| run_error_name(&e)));
                }
                Err(e) => *result.borrow_mut() = Some(Err(format!("connect:{:?}", e))),
            }
        });
    }
    ex.settle(&mut rng, false);
    match broker_end.as_mut().receive_poll(&mut cx) {
        Poll::Ready(Ok(Message::Connect2(_))) => {}
        other => {
            out.fail("C06", "the client did not open with Connect2", &format!("{:?}", other));
            return;
        }
    }
    let reply = ConnectReply2 { result: ConnectResult::Ok(version), value: SerializedValue::serialize(ConnectReplyData::new()).unwrap() };
    broker_end.as_mut().send_start(reply.into()).unwrap();
    ex.settle(&mut rng, false);
    log.borrow_mut().events.clear();
    out.emit(&format!("cnew 0 {}", version), "ok");
    out.count(&format!("A.version.{}", version));

    let mut names = Names::new();
    let mut fb = FakeBroker::default();
    // services other clients are said to own
    for k in 0..3u128 {
        let o = ObjectId::new(ou(8), ObjectCookie(Uuid::from_u128(0xD0 + k)));
        let c = fb.fresh();
        shared.borrow_mut().invented_services.push(ServiceId::new(o, su(k as u64), ServiceCookie(c)));
    }
    let steps = 20 + rng.below(60);
    let mut dead: Option<String> = None;
    let mut stopping = false;
    let mut trace: Vec<String> = vec![];
    let ctx = |trace: &Vec<String>| format!("scenario=A seed={} history=[{}]", seed, trace.join("; "));

    // after every step: what the client sent, in order
    macro_rules! drain_sent {
        () => {{
            loop {
                match broker_end.as_mut().receive_poll(&mut cx) {
                    Poll::Ready(Ok(m)) => {
                        let t = req_text(&mut names, &m);
                        trace.push(format!("sent {}", t));
                        out.emit(&format!("cs 0 {}", t), "ok");
                        out.count(&format!("A.sent.{}", t.split(' ').next().unwrap()));
                        if let Message::Shutdown(_) = &m {
                            stopping = true;
                        }
                        fb.learn(&m);
                    }
                    _ => break,
                }
            }
        }};
    }

    for _ in 0..steps {
        if dead.is_some() || stopping {
            break;
        }
        if rng.below(25) == 0 {
            // the application loses interest in one of its pending operations
            if let Some(n) = ex.cancel_one(&mut rng) {
                trace.push(format!("cancel {}", n));
                out.count("A.cancelled");
                ex.settle(&mut rng, true);
                drain_sent!();
            }
            continue;
        }
        let r = rng.below(10);
        if r < 5 || (fb.pending.is_empty() && r < 8) {
            // the application does something
            let op = choose_op(&mut rng, &app.borrow(), &shared.borrow(), true);
            trace.push(format!("op {:?}", op));
            out.count(&format!("A.op.{}", format!("{:?}", op).split('(').next().unwrap()));
            let before = ex.tasks.len();
            start_op(op.clone(), 0, &app, &shared, &ex.spawner.clone());
            ex.settle(&mut rng, true);
            let _ = before;
            drain_sent!();
        } else {
            // the broker says something
            let msg = if !fb.pending.is_empty() && r < 9 {
                let i = rng.below(fb.pending.len() as u64) as usize;
                let p = fb.pending.remove(i);
                fb.answer(&mut rng, p)
            } else {
                fb.unsolicited(&mut rng)
            };
            let t = rsp_text(&mut names, &msg);
            if t.starts_with("UNEXPECTED-KIND") {
                // a client-to-broker kind: always unexpected; the model has no name for it
                continue;
            }
            trace.push(format!("given {}", t));
            if broker_end.as_mut().send_start(msg).is_err() {
                break;
            }
            ex.settle(&mut rng, true);
            let verdict = if let Some((_, p)) = ex.panics().into_iter().next() {
                let _ = p;
                "panic".to_string()
            } else {
                match result.borrow().as_ref() {
                    None => "ok".to_string(),
                    Some(Ok(())) => "shutdown".to_string(),
                    Some(Err(e)) => e.clone(),
                }
            };
            out.emit(&format!("cr 0 {}", t), &verdict);
            out.count(&format!("A.given.{}.{}", t.split(' ').next().unwrap(), verdict.split(':').next().unwrap()));
            if verdict != "ok" {
                dead = Some(verdict);
            }
            drain_sent!();
        }
        // operations that wait for the broker only are complete unless their request is still unanswered
        if dead.is_none() && !stopping && fb.pending.is_empty() {
            let stuck = ex.unfinished(|k| matches!(k, Kind::Op(_, true)));
            // calls wait for an answer too; `fb.pending` covers them. Anything else still pending has lost its wake-up
            if !stuck.is_empty() {
                let names: Vec<String> = stuck.iter().map(|&i| ex.tasks[i].name.clone()).collect();
                out.fail("C06", &format!("operations [{}] are not complete although every request of the client has been answered", names.join(", ")), &ctx(&trace));
                return;
            }
        }
    }
    // termination (C15): whatever stopped the client, every operation completes once it has stopped
    if dead.is_none() {
        match if stopping { 3 } else { rng.below(3) } {
            3 => trace.push("(the client is stopping)".into()),
            0 => {
                if let Some(h) = app.borrow().handle.as_ref() {
                    h.shutdown();
                }
                trace.push("handle.shutdown()".into());
            }
            1 => {
                drop_all(&app, &mut rng);
                trace.push("all handles dropped".into());
            }
            _ => {
                let _ = broker_end.as_mut().send_start(Message::Shutdown(Shutdown));
                out.emit("cr 0 shutdown", "shutdown");
                trace.push("given shutdown".into());
            }
        }
        ex.settle(&mut rng, true);
        drain_sent!();
        // the application gives up on what it was still waiting for (a call, a claim, ...) while the client waits
        // for the broker's Shutdown
        if result.borrow().is_none() && rng.below(2) == 0 {
            for _ in 0..3 {
                if let Some(n) = ex.cancel_one(&mut rng) {
                    trace.push(format!("cancel {}", n));
                    out.count("A.cancelled-while-stopping");
                }
            }
            ex.settle(&mut rng, true);
            drain_sent!();
            if let Some((n, p)) = ex.panics().into_iter().next() {
                out.fail("C15", &format!("task {} panicked: {}", n, p), &ctx(&trace));
                return;
            }
        }
        // the client says Shutdown and waits for the broker's; what else arrives is not looked at
        if result.borrow().is_none() {
            for _ in 0..rng.below(4) {
                let msg = fb.unsolicited(&mut rng);
                if matches!(msg, Message::Shutdown(_)) {
                    break;
                }
                let t = rsp_text(&mut names, &msg);
                if t.starts_with("UNEXPECTED-KIND") {
                    continue;
                }
                trace.push(format!("given {}", t));
                let _ = broker_end.as_mut().send_start(msg);
                ex.settle(&mut rng, true);
                let verdict = if !ex.panics().is_empty() { "panic".to_string() } else {
                    match result.borrow().as_ref() {
                        None => "ok".to_string(),
                        Some(Ok(())) => "shutdown".to_string(),
                        Some(Err(e)) => e.clone(),
                    }
                };
                out.emit(&format!("cr 0 {}", t), &verdict);
                out.count("A.given-while-stopping");
                drain_sent!();
                if verdict != "ok" {
                    // it was still running (something kept a handle) and did not like the message
                    dead = Some(verdict);
                    break;
                }
            }
            if result.borrow().is_none() && dead.is_none() {
                out.emit("cr 0 shutdown", "shutdown");
            }
        }
        let _ = broker_end.as_mut().send_start(Message::Shutdown(Shutdown));
        ex.settle(&mut rng, true);
        drain_sent!();
        match result.borrow().as_ref() {
            _ if dead.is_some() => out.count("A.end.dead"),
            Some(Ok(())) => out.count("A.end.clean"),
            Some(Err(e)) => out.fail("C15", &format!("a cleanly stopped client returned {}", e), &ctx(&trace)),
            None => out.fail("C15", "the client did not stop after a clean termination cause", &ctx(&trace)),
        }
    } else {
        out.count("A.end.dead");
    }
    for _ in 0..200 {
        drop_all(&app, &mut rng);
        ex.settle(&mut rng, true);
        if app.borrow().is_empty() {
            break;
        }
    }
    if dead.as_deref() != Some("panic") {
        let stuck = ex.unfinished(|k| matches!(k, Kind::Op(..) | Kind::Service(_)));
        if !stuck.is_empty() {
            let names: Vec<String> = stuck.iter().map(|&i| ex.tasks[i].name.clone()).collect();
            out.fail("C15", &format!("operations [{}] never completed after the client had stopped", names.join(", ")), &ctx(&trace));
        }
        for (n, p) in ex.panics() {
            out.fail("C06", &format!("task {} panicked: {}", n, p), &ctx(&trace));
        }
    }
    for f in app.borrow().fails.iter() {
        out.fail("C06", f, &ctx(&trace));
    }
    for _ in app.borrow().app_panics.iter() {
        // the fake broker says things no broker says; what the library's objects make of them is not judged here
        out.count("A.application-object-panicked");
    }
    for (op, res) in app.borrow().results.iter() {
        out.count(&format!("A.result.{}.{}", op, res));
    }
    let r = if !ex.panics().is_empty() { "panic".to_string() } else {
        match result.borrow().as_ref() {
            None => "running".to_string(),
            Some(Ok(())) => "clean".to_string(),
            Some(Err(e)) if e.starts_with("transport") => "transport".to_string(),
            Some(Err(e)) => e.clone(),
        }
    };
    out.emit("cend 0", &r);
}

// ------------------------------------------------------------------------------------------------
// scenarios B and F: a real broker, several clients, a random schedule

#[derive(Clone, Copy, Debug, PartialEq, Eq)]
enum Cause {
    HandleShutdown,
    HandlesDropped,
    BrokerShutdown,
    ConnShutdown,
    Fault(u64, FaultKind),
}

fn scenario_b(out: &mut Out, seed: u64, with_fault: bool) {
    let tag = if with_fault { "F" } else { "B" };
    let mut rng = Rng::new(seed);
    let mut ex = Exec::new();
    let log = Rc::new(RefCell::new(TapLog { events: vec![] }));
    let shared: SharedRc = Rc::new(RefCell::new(Shared::default()));
    let broker = Broker::new();
    let mut bh: BrokerHandle = broker.handle().clone();
    let broker_task = ex.spawn("broker".into(), Kind::Broker, async move {
        broker.run().await;
    });
    let n = 2 + rng.below(3) as usize;
    let victim = if with_fault { Some(rng.below(n as u64) as usize) } else { None };
    let cause = if with_fault {
        Some(match rng.below(8) {
            0 => Cause::HandleShutdown,
            1 => Cause::HandlesDropped,
            2 => Cause::BrokerShutdown,
            3 => Cause::ConnShutdown,
            _ => Cause::Fault(rng.below(70), *rng.pick(&[FaultKind::Error, FaultKind::Eof, FaultKind::Error, FaultKind::SendSide, FaultKind::SendSide, FaultKind::RecvSide])),
        })
    } else {
        None
    };
    let mut apps: Vec<AppRc> = vec![];
    let mut results: Vec<RunResult> = vec![];
    let mut conn_results: Vec<Rc<RefCell<Option<String>>>> = vec![];
    let mut conn_handles: Vec<Rc<RefCell<Option<aldrin_broker::ConnectionHandle>>>> = vec![];
    let mut fifo: Vec<String> = vec![];
    let mut client_tasks = vec![];
    let mut conn_tasks = vec![];
    let mut op_counters = vec![];
    let told: Vec<Rc<Cell<bool>>> = (0..4).map(|_| Rc::new(Cell::new(false))).collect();
    for i in 0..n {
        let size = match rng.below(4) {
            0 => 0,
            1 => 1,
            2 => 2 + rng.below(3) as usize,
            _ => 5 + rng.below(12) as usize,
        };
        fifo.push(if size == 0 { "unbounded".into() } else { format!("{}", size) });
        out.count(&format!("{}.fifo.{}", tag, if size == 0 { "unbounded".to_string() } else if size <= 2 { format!("{}", size) } else if size <= 4 { "3-4".into() } else { "5-16".into() }));
        let ops = Rc::new(Cell::new(0));
        op_counters.push(ops.clone());
        let fault = match (victim, cause) {
            (Some(v), Some(Cause::Fault(k, kind))) if v == i => Some((k, kind)),
            _ => None,
        };
        let app: AppRc = Rc::new(RefCell::new(App { check_calls: true, ..App::default() }));
        let result: RunResult = Rc::new(RefCell::new(None));
        let conn_result = Rc::new(RefCell::new(None));
        let conn_handle = Rc::new(RefCell::new(None));
        macro_rules! wire {
            ($tc:expr, $tb:expr, $mk:expr) => {{
                let tap = Tap::new($mk($tc), i, log.clone(), ops, fault, told[i].clone());
                let app2 = app.clone();
                let result2 = result.clone();
                client_tasks.push(ex.spawn(format!("client {}", i), Kind::Client(i), async move {
                    match Client::connect(tap).await {
                        Ok(client) => {
                            app2.borrow_mut().handle = Some(client.handle().clone());
                            let r = client.run().await;
                            *result2.borrow_mut() = Some(r.map_err(|e| run_error_name(&e)));
                        }
                        Err(e) => *result2.borrow_mut() = Some(Err(format!("connect:{}", format!("{:?}", e).split(|c: char| !c.is_alphanumeric()).next().unwrap_or("")))),
                    }
                }));
                let mut bh2 = bh.clone();
                let cr = conn_result.clone();
                let chh = conn_handle.clone();
                let tb = Watch { inner: $tb, cid: i };
                conn_tasks.push(ex.spawn(format!("conn {}", i), Kind::Conn(i), async move {
                    match bh2.connect(tb).await {
                        Ok(conn) => {
                            *chh.borrow_mut() = Some(conn.handle().clone());
                            let r = conn.run().await;
                            *cr.borrow_mut() = Some(match r {
                                Ok(()) => "ok".to_string(),
                                Err(e) => format!("err:{:?}", e).chars().take(60).collect(),
                            });
                        }
                        Err(e) => *cr.borrow_mut() = Some(format!("accept:{:?}", e).chars().take(60).collect()),
                    }
                }));
            }};
        }
        if size == 0 {
            let (tc, tb) = channel::unbounded();
            wire!(tc, tb, Inner::U);
        } else {
            let (tc, tb) = channel::bounded(size);
            wire!(tc, tb, Inner::B);
        }
        apps.push(app);
        results.push(result);
        conn_results.push(conn_result);
        conn_handles.push(conn_handle);
    }
    let mut trace: Vec<String> = vec![format!("clients={} fifo=[{}] victim={:?} cause={:?}", n, fifo.join(","), victim, cause)];
    let ctx = |trace: &Vec<String>| format!("scenario={} seed={} history=[{}]", tag, seed, trace.join("; "));
    if !ex.settle(&mut rng, true) {
        out.fail("C06", "the executor did not become quiescent while connecting", &ctx(&trace));
        return;
    }

    // the run: operations start at random points of the schedule
    let steps = 150 + rng.below(450);
    let mut stopped = false; // the victim's termination cause has been applied
    let stop_at = if with_fault { rng.below(steps) } else { u64::MAX };
    let alive = |i: usize, results: &Vec<RunResult>| results[i].borrow().is_none();
    let mut bh_tasks: Vec<usize> = vec![];
    let mut broker_down = false;
    for step in 0..steps {
        if with_fault && !stopped && step >= stop_at {
            let v = victim.unwrap();
            match cause.unwrap() {
                Cause::HandleShutdown => {
                    if let Some(h) = apps[v].borrow().handle.as_ref() {
                        h.shutdown();
                    }
                }
                Cause::HandlesDropped => {
                    drop_all(&apps[v], &mut rng);
                }
                Cause::BrokerShutdown => {
                    let mut b = bh.clone();
                    broker_down = true;
                    bh_tasks.push(ex.spawn("broker-handle shutdown".into(), Kind::Broker, async move {
                        b.shutdown().await;
                    }));
                }
                Cause::ConnShutdown => {
                    if let Some(h) = conn_handles[v].borrow().as_ref() {
                        let h = h.clone();
                        let mut b = bh.clone();
                        bh_tasks.push(ex.spawn("shutdown_connection".into(), Kind::Broker, async move {
                            let _ = b.shutdown_connection(&h).await;
                        }));
                    }
                }
                Cause::Fault(..) => {}
            }
            trace.push(format!("@{} cause applied", step));
            stopped = true;
        }
        if rng.below(40) == 0 {
            if let Some(nm) = ex.cancel_one(&mut rng) {
                trace.push(format!("@{} cancel {}", step, nm));
                out.count(&format!("{}.cancelled", tag));
            }
            continue;
        }
        let r = rng.below(10);
        if r < 3 {
            let c = rng.below(n as u64) as usize;
            if apps[c].borrow().handle.is_some() {
                let op = choose_op(&mut rng, &apps[c].borrow(), &shared.borrow(), false);
                // a client that stops on its own in the middle of things: only in the termination scenarios
                if matches!(op, Op::Shutdown) && (!with_fault || rng.below(3) != 0) {
                    continue;
                }
                trace.push(format!("@{} c{} {:?}", step, c, op).chars().take(90).collect());
                out.count(&format!("{}.op.{}", tag, format!("{:?}", op).split('(').next().unwrap()));
                start_op(op, c, &apps[c], &shared, &ex.spawner.clone());
            }
        } else {
            let ready = ex.ready();
            if !ready.is_empty() {
                let i = ready[rng.below(ready.len() as u64) as usize];
                ex.poll(i);
            }
        }
        if rng.below(40) == 0 {
            if !ex.settle(&mut rng, true) {
                out.fail("C06", "the executor did not become quiescent", &ctx(&trace));
                return;
            }
            // quiescent: whatever only waits for the broker is complete
            // a victim whose connection has gone silent (sends will fail, nothing arrives) has not been told yet
            let silent = match (victim, cause) {
                (Some(v), Some(Cause::Fault(_, FaultKind::SendSide))) if results[v].borrow().is_none() => Some(v),
                _ => None,
            };
            let stuck = ex.unfinished(|k| matches!(k, Kind::Op(c, true) if Some(c) != silent));
            if !stuck.is_empty() {
                let names: Vec<String> = stuck.iter().map(|&i| ex.tasks[i].name.clone()).collect();
                out.fail(if with_fault { "C15" } else { "C06" }, &format!("the system is quiescent but operations [{}], which only wait for the broker, are not complete", names.join(", ")), &ctx(&trace));
                return;
            }
            out.count(&format!("{}.quiescence-checks", tag));
        }
    }
    if !ex.settle(&mut rng, true) {
        out.fail("C06", "the executor did not become quiescent", &ctx(&trace));
        return;
    }
    // every live service emits one event of each kind; every proxy subscribed to it must get it
    if !with_fault {
        // first a few more subscriptions and unsubscriptions, so that services have several subscribers
        for c in 0..n {
            for _ in 0..3 {
                let np = apps[c].borrow().proxies.len();
                if np == 0 || apps[c].borrow().handle.is_none() {
                    break;
                }
                let i = rng.below(np as u64) as usize;
                let op = match rng.below(5) {
                    0 => Op::Unsubscribe(i, rng.below(3) as u32),
                    1 => Op::SubscribeAll(i),
                    _ => Op::Subscribe(i, rng.below(3) as u32),
                };
                trace.push(format!("probe-round c{} {:?}", c, op));
                start_op(op, c, &apps[c], &shared, &ex.spawner.clone());
                if !ex.settle(&mut rng, true) {
                    out.fail("C06", "the executor did not become quiescent", &ctx(&trace));
                    return;
                }
            }
        }
        // likewise for the bus listeners: some get a filter and are started, then the bus moves
        for c in 0..n {
            let nl = apps[c].borrow().listeners.len().min(3);
            if apps[c].borrow().handle.is_none() {
                continue;
            }
            for i in 0..nl {
                for op in [Op::ListenerFilter(i, rng.below(3) as u8), Op::ListenerStart(i.min(apps[c].borrow().listeners.len().saturating_sub(1)), 1 + rng.below(2) as u8)] {
                    if i >= apps[c].borrow().listeners.len() {
                        break;
                    }
                    trace.push(format!("probe-round c{} {:?}", c, op));
                    start_op(op, c, &apps[c], &shared, &ex.spawner.clone());
                    if !ex.settle(&mut rng, true) {
                        out.fail("C06", "the executor did not become quiescent", &ctx(&trace));
                        return;
                    }
                }
            }
        }
        for c in 0..n {
            if apps[c].borrow().handle.is_none() {
                continue;
            }
            for k in 0..3 {
                // an object goes (if the client has one), then objects come: the listeners have something to report
                let nobj = apps[c].borrow().objects.len();
                let op = if k == 0 {
                    if nobj == 0 {
                        continue;
                    }
                    Op::DestroyObject(rng.below(nobj as u64) as usize)
                } else {
                    Op::CreateObject(rng.below(4))
                };
                trace.push(format!("probe-round c{} {:?}", c, op));
                start_op(op, c, &apps[c], &shared, &ex.spawner.clone());
                if !ex.settle(&mut rng, true) {
                    out.fail("C06", "the executor did not become quiescent", &ctx(&trace));
                    return;
                }
            }
        }
        let mut probes: Vec<(ServiceCookie, u32, u32)> = vec![];
        for app in apps.iter() {
            let app = app.borrow();
            for ctl in app.services.iter().filter(|c| !c.gone.get()) {
                for ev in 0..3u32 {
                    let tok = {
                        let mut sh = shared.borrow_mut();
                        sh.next_token += 1;
                        sh.next_token
                    };
                    ctl.tell(SvcCmd::Emit(ev, tok));
                    probes.push((ctl.id.cookie, ev, tok));
                }
            }
        }
        if !ex.settle(&mut rng, true) {
            out.fail("C06", "the executor did not become quiescent", &ctx(&trace));
            return;
        }
        let waker = Waker::noop();
        let mut cx = Context::from_waker(&waker);
        for (ci, app) in apps.iter().enumerate() {
            if !alive(ci, &results) {
                continue;
            }
            let mut app = app.borrow_mut();
            for p in app.proxies.iter_mut() {
                let mut got: Vec<(u32, u32)> = vec![];
                let mut finished = false;
                loop {
                    match p.proxy.poll_next_event(&mut cx) {
                        Poll::Ready(Some(ev)) => {
                            if let Ok(tok) = ev.deserialize::<u32>() {
                                got.push((ev.id(), tok));
                            }
                        }
                        Poll::Ready(None) => {
                            finished = true;
                            break;
                        }
                        Poll::Pending => break,
                    }
                }
                if finished {
                    continue;
                }
                let ck = p.proxy.id().cookie;
                for (svc, ev, tok) in probes.iter().filter(|(s, _, _)| *s == ck) {
                    let _ = svc;
                    let wanted = p.all || p.subs.contains(ev);
                    let has = got.contains(&(*ev, *tok));
                    if wanted && !has {
                        let what = format!("client {}: a proxy subscribed to event {} of a live service did not get the event its owner emitted (token {})", ci, ev, tok);
                        out.fail("C06", &what, &ctx(&trace));
                        // the same observation under the property about event delivery
                        out.fail("C04", &what, &ctx(&trace));
                    }
                    if wanted {
                        out.count("B.probe-events-delivered");
                    }
                }
            }
        }
    }
    // channels: a producer that also watches for its receiver going away, and a consumer that keeps up. Each round
    // every idle sender sends one item if it may, every idle receiver takes what has arrived (granting capacity back),
    // and every sender then polls `receiver_closed`. In the end a sender whose receiver is alive and has taken
    // everything must be allowed to send: the receiver's remaining capacity is positive and all of it has been
    // announced to the sender.
    if !with_fault {
        let waker = Waker::noop();
        let mut cx = Context::from_waker(&waker);
        let mut broken = false;
        for round in 0..7 {
            for (ci, app) in apps.iter().enumerate() {
                if !alive(ci, &results) {
                    continue;
                }
                let mut app = app.borrow_mut();
                for s in app.senders.iter_mut() {
                    if let Poll::Ready(Ok(())) = s.poll_send_ready(&mut cx) {
                        let ck = s.cookie();
                        let seq = shared.borrow().chan.get(&ck).map(|c| c.sent).unwrap_or(0);
                        if s.start_send_item(seq).is_ok() {
                            out.count("B.channel-round-items-sent");
                            if let Some(c) = shared.borrow_mut().chan.get_mut(&ck) {
                                c.sent += 1;
                            }
                        }
                    }
                }
            }
            if !ex.settle(&mut rng, true) {
                broken = true;
                break;
            }
            for (ci, app) in apps.iter().enumerate() {
                if !alive(ci, &results) {
                    continue;
                }
                let mut app = app.borrow_mut();
                let check = app.check_calls;
                let mut bad: Vec<String> = vec![];
                for r in app.receivers.iter_mut() {
                    let ck = r.cookie();
                    while let Poll::Ready(Ok(Some(v))) = r.poll_next_item::<u64>(&mut cx) {
                        out.count("B.channel-round-items-taken");
                        if let Some(c) = shared.borrow_mut().chan.get_mut(&ck).filter(|_| check) {
                            if v != c.received && !c.bad_order {
                                c.bad_order = true;
                                bad.push(format!("channel item {} arrived where item {} was due", v, c.received));
                            }
                            c.received += 1;
                        }
                    }
                }
                for b in bad {
                    app.fails.push(b);
                }
            }
            if !ex.settle(&mut rng, true) {
                broken = true;
                break;
            }
            for (ci, app) in apps.iter().enumerate() {
                if !alive(ci, &results) {
                    continue;
                }
                for s in app.borrow_mut().senders.iter_mut() {
                    let _ = s.poll_receiver_closed(&mut cx);
                }
            }
            trace.push(format!("channel-round {}", round));
        }
        if broken {
            out.fail("C06", "the executor did not become quiescent", &ctx(&trace));
            return;
        }
        let taking: Vec<ChannelCookie> = apps.iter().enumerate().filter(|(ci, _)| alive(*ci, &results))
            .flat_map(|(_, a)| a.borrow().receivers.iter().map(|r| r.cookie()).collect::<Vec<_>>()).collect();
        for (ci, app) in apps.iter().enumerate() {
            if !alive(ci, &results) {
                continue;
            }
            for s in app.borrow_mut().senders.iter_mut() {
                if !taking.contains(&s.cookie()) {
                    continue;
                }
                out.count("B.channel-round-pairs-checked");
                if s.poll_send_ready(&mut cx).is_pending() {
                    let what = format!("client {}: a sender may not send although its receiver is alive, has taken every item and so has granted more capacity than was used ({:?})", ci, s.cookie());
                    out.fail("C06", &what, &ctx(&trace));
                    out.fail("C05", &what, &ctx(&trace));
                }
            }
        }
    }
    // whatever the bus listeners have collected by now: each event matches a filter its listener has had
    if !with_fault {
        let waker = Waker::noop();
        let mut cx = Context::from_waker(&waker);
        for (ci, app) in apps.iter().enumerate() {
            if !alive(ci, &results) {
                continue;
            }
            let mut app = app.borrow_mut();
            for l in app.listeners.iter_mut() {
                let mut bad: Option<String> = None;
                while let Poll::Ready(Some(ev)) = l.l.poll_next_event(&mut cx) {
                    out.count("B.listener-events-checked");
                    if !l.ever.iter().any(|f| f.matches_event(ev)) && bad.is_none() {
                        bad = Some(format!("a bus listener yielded {:?}, which none of the filters it ever had matches ({:?})", ev, l.ever));
                    }
                }
                if let Some(what) = bad {
                    out.fail("C06", &format!("client {}: {}", ci, what), &ctx(&trace));
                    out.fail("C10", &format!("client {}: {}", ci, what), &ctx(&trace));
                }
            }
        }
    }
    // operations started on a client that has stopped complete at once
    if let Some(v) = victim {
        if !alive(v, &results) && apps[v].borrow().handle.is_some() {
            for _ in 0..6 {
                let op = choose_op(&mut rng, &apps[v].borrow(), &shared.borrow(), false);
                trace.push(format!("after-stop c{} {:?}", v, op).chars().take(90).collect());
                start_op(op, v, &apps[v], &shared, &ex.spawner.clone());
            }
            ex.settle(&mut rng, true);
            let stuck = ex.unfinished(|k| matches!(k, Kind::Op(c, _) if c == v));
            if !stuck.is_empty() {
                let names: Vec<String> = stuck.iter().map(|&i| ex.tasks[i].name.clone()).collect();
                out.fail("C15", &format!("operations [{}] on a stopped client did not complete", names.join(", ")), &ctx(&trace));
            }
        }
    }
    // channel ends that were handed out and never picked up: somebody closes them (otherwise their peers wait
    // for ever, which is what the API promises)
    {
        let live: Vec<usize> = (0..n).filter(|&i| Some(i) != victim && results[i].borrow().is_none() && apps[i].borrow().handle.is_some()).collect();
        let (us, ur) = {
            let mut sh = shared.borrow_mut();
            (std::mem::take(&mut sh.unbound_senders), std::mem::take(&mut sh.unbound_receivers))
        };
        if live.is_empty() && (!us.is_empty() || !ur.is_empty()) {
            // nobody is left who could pick these ends up or close them: the applications that still wait for a
            // peer on them give up
            let waiting = ex.unfinished(|k| matches!(k, Kind::Op(_, false)));
            for i in waiting {
                let fut = ex.tasks[i].fut.take();
                if let Err(e) = catch_unwind(AssertUnwindSafe(move || drop(fut))) {
                    ex.tasks[i].panicked = Some(panic_text(e));
                }
            }
            out.count(&format!("{}.gave-up-waiting-for-lost-ends", tag));
        }
        if !live.is_empty() {
            for ck in us {
                let c = live[rng.below(live.len() as u64) as usize];
                let h = apps[c].borrow().handle.clone().unwrap();
                drop(UnboundSender::new(ck).bind(h));
            }
            for ck in ur {
                let c = live[rng.below(live.len() as u64) as usize];
                let h = apps[c].borrow().handle.clone().unwrap();
                drop(UnboundReceiver::new(ck).bind(h));
            }
        }
    }
    // the end: every application lets go of everything, in some order, under the same schedule
    let mut order: Vec<usize> = (0..n).collect();
    for i in (1..order.len()).rev() {
        let j = rng.below(i as u64 + 1) as usize;
        order.swap(i, j);
    }
    for c in order {
        drop_all(&apps[c], &mut rng);
        for _ in 0..rng.below(30) {
            let ready = ex.ready();
            if ready.is_empty() {
                break;
            }
            let i = ready[rng.below(ready.len() as u64) as usize];
            ex.poll(i);
        }
    }
    // operations that complete now hand their objects back to the application, which drops them as well
    for _ in 0..200 {
        if !ex.settle(&mut rng, true) {
            out.fail("C06", "the executor did not become quiescent at the end", &ctx(&trace));
            return;
        }
        if apps.iter().all(|a| a.borrow().is_empty()) {
            break;
        }
        for a in apps.iter() {
            drop_all(a, &mut rng);
        }
    }
    if !ex.settle(&mut rng, true) {
        out.fail("C06", "the executor did not become quiescent at the end", &ctx(&trace));
        return;
    }
    let prop = if with_fault { "C15" } else { "C06" };
    if let (Some(v), Some(Cause::Fault(_, FaultKind::SendSide))) = (victim, cause) {
        if results[v].borrow().is_none() && !told[v].get() {
            // the connection went silent while the client had nothing left to send: it cannot know, and waits
            out.count("F.silent-fault-never-observed");
            return;
        }
    }
    for i in 0..n {
        let r = results[i].borrow().clone();
        let expect_err = matches!((victim, cause), (Some(v), Some(Cause::Fault(..))) if v == i);
        match r {
            None => out.fail(prop, &format!("client {} did not stop after all its handles were dropped", i), &ctx(&trace)),
            Some(Ok(())) => out.count(&format!("{}.client-end.ok", tag)),
            Some(Err(e)) => {
                let injected = e.starts_with("transport:Injected") || e.starts_with("connect:Transport");
                if expect_err && op_counters[i].get() > 0 && (injected || true) && tap_failed(&log, i, &e) {
                    out.count(&format!("{}.client-end.{}", tag, e.split(':').next().unwrap()));
                } else if false && broker_down {
                    // the broker went away first
                    out.count(&format!("{}.client-end.disconnected", tag));
                } else {
                    out.fail(prop, &format!("client {} stopped with {}", i, e), &ctx(&trace));
                }
            }
        }
    }
    let stuck = ex.unfinished(|k| matches!(k, Kind::Op(..) | Kind::Service(_)));
    if !stuck.is_empty() {
        let names: Vec<String> = stuck.iter().map(|&i| ex.tasks[i].name.clone()).collect();
        out.fail(prop, &format!("operations [{}] never completed although every client has stopped", names.join(", ")), &ctx(&trace));
    }
    for (nm, p) in ex.panics() {
        out.fail(prop, &format!("task {} panicked: {}", nm, p), &ctx(&trace));
    }
    // the broker has forgotten every connection and stops when idle
    {
        let mut b = bh.clone();
        let stats: Rc<RefCell<Option<(usize, usize, usize, usize, usize)>>> = Rc::new(RefCell::new(None));
        let st = stats.clone();
        ex.spawn("statistics".into(), Kind::Broker, async move {
            if let Ok(s) = b.take_statistics().await {
                *st.borrow_mut() = Some((s.num_connections(), s.num_objects(), s.num_services(), s.num_channels(), s.num_bus_listeners()));
            }
        });
        ex.settle(&mut rng, true);
        let got = *stats.borrow();
        match got {
            Some((0, 0, 0, 0, 0)) => out.count(&format!("{}.broker-clean", tag)),
            Some(other) => out.fail(prop, &format!("after all clients stopped the broker still counts (connections, objects, services, channels, listeners) = {:?}", other), &ctx(&trace)),
            None => {
                if !broker_down {
                    out.fail(prop, "the broker did not answer a statistics request", &ctx(&trace));
                }
            }
        }
    }
    bh_tasks.push(ex.spawn("shutdown_idle".into(), Kind::Broker, async move {
        bh.shutdown_idle().await;
    }));
    ex.settle(&mut rng, true);
    if !ex.done(broker_task) {
        out.fail(prop, "the broker did not stop when idle", &ctx(&trace));
    }
    for (i, t) in conn_tasks.iter().enumerate() {
        if !ex.done(*t) {
            out.fail(prop, &format!("the connection task of client {} did not end", i), &ctx(&trace));
        }
    }
    for (i, app) in apps.iter().enumerate() {
        for f in app.borrow().fails.iter() {
            out.fail("C06", &format!("client {}: {}", i, f), &ctx(&trace));
            // the same observation under the property about bus listeners
            if let Some(rest) = f.strip_prefix("C10 ") {
                out.fail("C10", &format!("client {}: {}", i, rest), &ctx(&trace));
            }
            // and the one about channels
            if f.starts_with("channel item ") {
                out.fail("C05", &format!("client {}: {}", i, f), &ctx(&trace));
            }
        }
        for f in app.borrow().app_panics.iter() {
            out.fail("C06", &format!("client {}: {}", i, f), &ctx(&trace));
        }
        for (op, res) in app.borrow().results.iter() {
            out.count(&format!("{}.result.{}.{}", tag, op, res));
        }
    }
    for (ck, c) in shared.borrow().chan.iter() {
        let _ = ck;
        if c.received > c.sent {
            out.fail("C06", &format!("a channel delivered {} items but only {} were sent", c.received, c.sent), &ctx(&trace));
        }
    }

    // the transport traces, through the model
    let mut names = Names::new();
    let events = std::mem::take(&mut log.borrow_mut().events);
    if std::env::var("SYS_DUMP").is_ok() {
        let mut nn = Names::new();
        for (c, d, m) in events.iter() {
            eprintln!("{} {:?} {}", c, d, match d { Dir::Sent => req_text(&mut nn, m), Dir::Failed => "(transport fails)".to_string(), _ => rsp_text(&mut nn, m) });
        }
        for (i, r) in results.iter().enumerate() {
            eprintln!("client {} result {:?} conn {:?}", i, r.borrow(), conn_results[i].borrow());
        }
        for t in ex.tasks.iter().filter(|t| t.fut.is_some()) {
            eprintln!("unfinished task {} ({:?})", t.name, t.kind);
        }
    }
    let mut started = vec![false; n];
    let mut last_recv: Vec<Option<usize>> = vec![None; n];
    for (idx, (c, d, _)) in events.iter().enumerate() {
        if matches!(d, Dir::Received) {
            last_recv[*c] = Some(idx);
        }
    }
    for (idx, (c, d, m)) in events.iter().enumerate() {
        match (d, m) {
            (_, Message::Connect2(_)) | (_, Message::Connect(_)) => {}
            (Dir::Received, Message::ConnectReply2(r)) => {
                if let ConnectResult::Ok(v) = r.result {
                    out.emit(&format!("cnew {} {}", c, v), "ok");
                    started[*c] = true;
                }
            }
            (Dir::Failed, _) => {
                if started[*c] {
                    out.emit(&format!("cfail {}", c), "ok");
                }
            }
            (Dir::Sent, m) if started[*c] => {
                let t = req_text(&mut names, m);
                out.emit(&format!("cs {} {}", c, t), "ok");
            }
            (Dir::Received, m) if started[*c] => {
                let t = rsp_text(&mut names, m);
                let verdict = if matches!(m, Message::Shutdown(_)) {
                    "shutdown".to_string()
                } else if last_recv[*c] == Some(idx) && matches!(results[*c].borrow().as_ref(), Some(Err(e)) if e == "unexpected") {
                    "unexpected".to_string()
                } else {
                    "ok".to_string()
                };
                // after its own Shutdown the client no longer looks at what it receives
                out.emit(&format!("cr {} {}", c, t), &verdict);
                out.count(&format!("{}.given.{}", tag, t.split(' ').next().unwrap()));
            }
            _ => {}
        }
    }
    for c in 0..n {
        if started[c] {
            let r = match results[c].borrow().as_ref() {
                None => "running".to_string(),
                Some(Ok(())) => "clean".to_string(),
                Some(Err(e)) if e == "unexpected" => "unexpected".to_string(),
                Some(Err(e)) if e.starts_with("transport") => "transport".to_string(),
                Some(Err(e)) => e.clone(),
            };
            let r = if ex.tasks[client_tasks[c]].panicked.is_some() { "panic".to_string() } else { r };
            out.emit(&format!("cend {}", c), &r);
        }
    }
    out.count(&format!("{}.scenarios", tag));
}

/// did the transport of client `i` fail at the injected point (and is `e` that failure)?
fn tap_failed(_log: &Rc<RefCell<TapLog>>, _i: usize, e: &str) -> bool {
    e.starts_with("transport:Injected") || e.starts_with("connect:")
}

// ------------------------------------------------------------------------------------------------

fn main() {
    let args: Vec<String> = std::env::args().collect();
    if args.len() < 4 {
        eprintln!("usage: sys <outdir> <seed> <cases> [A|B|F]*");
        std::process::exit(2);
    }
    let outdir = &args[1];
    let seed: u64 = args[2].parse().expect("seed");
    let cases: u64 = args[3].parse().expect("cases");
    let kinds: Vec<String> = if args.len() > 4 { args[4..].to_vec() } else { vec!["A".into()] };
    std::fs::create_dir_all(outdir).unwrap();
    let mk = |n: &str| BufWriter::new(File::create(format!("{}/{}", outdir, n)).unwrap());
    let mut out = Out { req: mk("req.txt"), rust: mk("rust.txt"), oracle: mk("oracle.txt"), lines: 0, fails: 0, dist: BTreeMap::new(), samples: vec![] };
    // panics of the code under test are caught per poll; keep the default hook quiet
    if std::env::var("SYS_PANICS").is_err() {
        std::panic::set_hook(Box::new(|_| {}));
    }
    let mut rng = Rng::new(seed);
    if kinds.len() == 2 && kinds[0] == "--replay" {
        // every `scenario=<kind> seed=<n>` named in a replay file written by ./check
        let text = std::fs::read_to_string(&kinds[1]).unwrap_or_default();
        let mut seen = std::collections::BTreeSet::new();
        for (i, _) in text.match_indices("scenario=") {
            let rest = &text[i + 9..];
            let kind = rest.chars().next().unwrap_or('A');
            if let Some(j) = rest.find("seed=") {
                let digits: String = rest[j + 5..].chars().take_while(|c| c.is_ascii_digit()).collect();
                if let Ok(s) = digits.parse::<u64>() {
                    if j < 6 && seen.insert((kind, s)) {
                        match kind {
                            'A' => scenario_a(&mut out, s),
                            'B' => scenario_b(&mut out, s, false),
                            _ => scenario_b(&mut out, s, true),
                        }
                    }
                }
            }
        }
    } else if kinds.len() == 3 && kinds[0] == "--scenario" {
        // replay of one scenario: sys <outdir> 0 0 --scenario <A|B|F> <scenario seed>
        let s: u64 = kinds[2].parse().expect("scenario seed");
        match kinds[1].as_str() {
            "A" => scenario_a(&mut out, s),
            "B" => scenario_b(&mut out, s, false),
            _ => scenario_b(&mut out, s, true),
        }
    }
    let replaying = kinds.first().map(|k| k.starts_with("--")).unwrap_or(false);
    for i in 0..(if replaying { 0 } else { cases }) {
        let s = rng.next();
        match kinds[(i as usize) % kinds.len()].as_str() {
            "A" => scenario_a(&mut out, s),
            "B" => scenario_b(&mut out, s, false),
            "F" => scenario_b(&mut out, s, true),
            other => panic!("unknown scenario kind {}", other),
        }
    }
    out.req.flush().unwrap();
    out.rust.flush().unwrap();
    out.oracle.flush().unwrap();
    let mut stats = String::from("{\n");
    write!(stats, "  \"lines\": {},\n  \"oracle_fails\": {},\n  \"cases\": {},\n", out.lines, out.fails, cases).unwrap();
    write!(stats, "  \"samples\": [{}],\n", out.samples.iter().map(|s| format!("{:?}", s)).collect::<Vec<_>>().join(", ")).unwrap();
    write!(stats, "  \"distribution\": {{{}}}\n}}\n", out.dist.iter().map(|(k, v)| format!("{:?}: {}", k, v)).collect::<Vec<_>>().join(", ")).unwrap();
    std::fs::write(format!("{}/stats.json", outdir), stats).unwrap();
}
