//! Correspondence + oracle harness for the broker state machine (C02 C03 C04 C05 C09 C10 C11 C12).
//!
//! The real `Broker::run`, `BrokerHandle::connect` and `Connection::run` futures are driven by a
//! small deterministic executor over in-memory transports; clients are played by the harness at
//! the message level. Every broker-level event is also written as a `bev …` line for the Lean
//! model (see lean/Driver/BrokerCmd.lean), and the messages each client receives are written in the
//! same text format the model prints.
//!
//! Usage: broker <outdir> <seed> <cases> [profile]

use aldrin_broker::{Broker, BrokerHandle, ConnectionHandle};
use aldrin_core::channel::{self, Unbounded};
use aldrin_core::message::*;
use aldrin_core::transport::AsyncTransport;
use aldrin_core::{
    BusEvent, BusListenerCookie, BusListenerFilter, BusListenerScope, BusListenerServiceFilter,
    ChannelCookie, ChannelEnd, ChannelEndWithCapacity, ObjectCookie, ObjectId, ObjectUuid,
    SerializedValue, ServiceCookie, ServiceId, ServiceInfo, ServiceUuid, TypeId,
};
use std::collections::{BTreeMap, HashMap, HashSet};
use std::fmt::Write as _;
use std::fs::File;
use std::future::Future;
use std::io::{BufWriter, Write};
use std::panic::{catch_unwind, AssertUnwindSafe};
use std::pin::Pin;
use std::sync::atomic::{AtomicBool, Ordering};
use std::sync::Arc;
use std::task::{Context, Poll, Wake, Waker};
use uuid::Uuid;
use verif_harness::{hex, Rng};

// ------------------------------------------------------------------------------------------------
// executor

struct Flag(AtomicBool);
impl Wake for Flag {
    fn wake(self: Arc<Self>) {
        self.0.store(true, Ordering::SeqCst);
    }
    fn wake_by_ref(self: &Arc<Self>) {
        self.0.store(true, Ordering::SeqCst);
    }
}

struct Task<T> {
    fut: Option<Pin<Box<dyn Future<Output = T>>>>,
    flag: Arc<Flag>,
    result: Option<T>,
}

impl<T> Task<T> {
    fn new(f: impl Future<Output = T> + 'static) -> Self {
        Task { fut: Some(Box::pin(f)), flag: Arc::new(Flag(AtomicBool::new(true))), result: None }
    }
    /// Polls if woken (or forced); returns true if it was polled.
    fn poll(&mut self, force: bool) -> bool {
        if self.fut.is_none() {
            return false;
        }
        if !force && !self.flag.0.swap(false, Ordering::SeqCst) {
            return false;
        }
        self.flag.0.store(false, Ordering::SeqCst);
        let waker = Waker::from(self.flag.clone());
        let mut cx = Context::from_waker(&waker);
        if let Poll::Ready(r) = self.fut.as_mut().unwrap().as_mut().poll(&mut cx) {
            self.fut = None;
            self.result = Some(r);
        }
        true
    }
    fn done(&self) -> bool {
        self.fut.is_none()
    }
}

type ConnResult = Result<(), aldrin_broker::ConnectionError<channel::Disconnected>>;

struct SimConn {
    client: Option<Pin<Box<Unbounded>>>,
    task: Option<Task<ConnResult>>,
    /// given up once the connection's task has ended, so that the broker's allocator can hand the id out again
    handle: Option<ConnectionHandle>,
    version: u32,
    /// the broker no longer knows this connection (as far as the harness can tell)
    gone: bool,
}

struct Sim {
    broker: Task<()>,
    handle: BrokerHandle,
    conns: Vec<SimConn>,
}

impl Sim {
    fn new() -> Self {
        let broker = Broker::new();
        let handle = broker.handle().clone();
        Sim { broker: Task::new(broker.run()), handle, conns: vec![] }
    }

    /// Run everything until no task has been woken. `hold_broker` keeps the broker task unpolled.
    fn settle(&mut self, hold_broker: bool) {
        for round in 0..10_000 {
            let mut any = false;
            let force = round == 0;
            for c in self.conns.iter_mut() {
                if let Some(t) = c.task.as_mut() {
                    any |= t.poll(force);
                }
            }
            if !hold_broker {
                any |= self.broker.poll(force);
            }
            for c in self.conns.iter_mut() {
                if let Some(t) = c.task.as_mut() {
                    any |= t.poll(false);
                }
            }
            if !any {
                return;
            }
        }
        panic!("executor did not become quiescent");
    }

    fn run_aux<T: 'static>(&mut self, f: impl Future<Output = T> + 'static, hold_broker: bool) -> Option<T> {
        let mut t = Task::new(f);
        for _ in 0..10_000 {
            t.poll(true);
            if t.done() {
                self.settle(hold_broker);
                return t.result.take();
            }
            self.settle(hold_broker);
        }
        None
    }

    fn connect(&mut self, minor: u32, legacy: bool, major: u32) -> Result<usize, String> {
        let (t_broker, t_client) = channel::unbounded();
        let mut client = Box::pin(t_client);
        let waker = Waker::noop();
        let mut cx = Context::from_waker(&waker);
        let msg: Message = if legacy {
            Message::Connect(Connect { version: minor, value: SerializedValue::serialize(()).unwrap() })
        } else {
            Message::Connect2(Connect2 {
                major_version: major,
                minor_version: minor,
                value: SerializedValue::serialize(ConnectData::new()).unwrap(),
            })
        };
        client.as_mut().send_start(msg).unwrap();
        let _ = client.as_mut().send_poll_flush(&mut cx);
        let mut handle = self.handle.clone();
        let res = self.run_aux(async move { handle.connect(t_broker).await }, false);
        let reply = match client.as_mut().receive_poll(&mut cx) {
            Poll::Ready(Ok(m)) => Some(m),
            _ => None,
        };
        match res {
            Some(Ok(conn)) => {
                let negotiated = match reply {
                    Some(Message::ConnectReply2(ConnectReply2 { result: ConnectResult::Ok(v), .. })) => v,
                    Some(Message::ConnectReply(ConnectReply::Ok(_))) => 14,
                    other => return Err(format!("accepted but reply is {:?}", other)),
                };
                let h = conn.handle().clone();
                self.conns.push(SimConn { client: Some(client), task: Some(Task::new(conn.run())), handle: Some(h), version: negotiated, gone: false });
                self.settle(false);
                Ok(self.conns.len() - 1)
            }
            Some(Err(e)) => Err(format!("rejected:{}:{:?}", match reply {
                Some(Message::ConnectReply2(ConnectReply2 { result: ConnectResult::IncompatibleVersion, .. })) => "incompatible2".to_string(),
                Some(Message::ConnectReply(ConnectReply::IncompatibleVersion(v))) => format!("incompatible1({})", v),
                other => format!("{:?}", other),
            }, e)),
            None => Err("connect did not finish".into()),
        }
    }

    fn client_send(&mut self, c: usize, m: Message) -> bool {
        let waker = Waker::noop();
        let mut cx = Context::from_waker(&waker);
        if let Some(cl) = self.conns[c].client.as_mut() {
            if cl.as_mut().send_start(m).is_err() {
                return false;
            }
            let _ = cl.as_mut().send_poll_flush(&mut cx);
            true
        } else {
            false
        }
    }

    fn drain(&mut self, c: usize) -> Vec<Message> {
        let waker = Waker::noop();
        let mut cx = Context::from_waker(&waker);
        let mut out = vec![];
        if let Some(cl) = self.conns[c].client.as_mut() {
            loop {
                match cl.as_mut().receive_poll(&mut cx) {
                    Poll::Ready(Ok(m)) => out.push(m),
                    Poll::Ready(Err(_)) => break,
                    Poll::Pending => break,
                }
            }
        }
        out
    }
}

// ------------------------------------------------------------------------------------------------
// naming: uuids chosen by the harness are `u<n>`, broker cookies are `c<k>` by first appearance

struct Names {
    cookies: HashMap<Uuid, usize>,
    order: Vec<Uuid>,
}

impl Names {
    fn new() -> Self {
        Names { cookies: HashMap::new(), order: vec![] }
    }
    fn cookie(&mut self, u: Uuid) -> String {
        if let Some(k) = self.cookies.get(&u) {
            return format!("c{}", k);
        }
        let k = self.order.len();
        self.cookies.insert(u, k);
        self.order.push(u);
        format!("c{}", k)
    }
}

fn pool_uuid(n: u64) -> Uuid {
    Uuid::from_u128(0xA1D0_0000_0000_0000_0000_0000_0000_0000u128 + n as u128)
}
fn uuid_name(u: Uuid) -> String {
    let v = u.as_u128().wrapping_sub(0xA1D0_0000_0000_0000_0000_0000_0000_0000u128);
    format!("u{}", v)
}
/// a cookie value the broker never issued
fn bogus_cookie(n: u64) -> Uuid {
    Uuid::from_u128(0xB060_0000_0000_0000_0000_0000_0000_0000u128 + n as u128)
}

fn opt<T>(o: &Option<T>, f: impl Fn(&T) -> String) -> String {
    match o {
        Some(x) => f(x),
        None => "-".into(),
    }
}

fn obj_id_text(n: &mut Names, o: &ObjectId) -> String {
    format!("{}/{}", uuid_name(o.uuid.0), n.cookie(o.cookie.0))
}
fn svc_id_text(n: &mut Names, s: &ServiceId) -> String {
    let o = obj_id_text(n, &s.object_id);
    format!("{}/{}/{}", o, uuid_name(s.uuid.0), n.cookie(s.cookie.0))
}
fn end_name(e: ChannelEnd) -> &'static str {
    match e {
        ChannelEnd::Sender => "snd",
        ChannelEnd::Receiver => "rcv",
    }
}
fn val(v: &SerializedValue) -> String {
    hex(v)
}

fn call_res_text(r: &CallFunctionResult) -> String {
    match r {
        CallFunctionResult::Ok(v) => format!("ok {}", val(v)),
        CallFunctionResult::Err(v) => format!("err {}", val(v)),
        CallFunctionResult::Aborted => "aborted".into(),
        CallFunctionResult::InvalidService => "invalidService".into(),
        CallFunctionResult::InvalidFunction => "invalidFunction".into(),
        CallFunctionResult::InvalidArgs => "invalidArgs".into(),
    }
}

/// Text of a message received by a client, identical to `rspText` of the Lean driver.
fn rsp_text(n: &mut Names, m: &Message) -> String {
    match m {
        Message::CreateObjectReply(r) => match r.result {
            CreateObjectResult::Ok(c) => format!("createObjectReply {} ok {}", r.serial, n.cookie(c.0)),
            CreateObjectResult::DuplicateObject => format!("createObjectReply {} duplicate", r.serial),
        },
        Message::DestroyObjectReply(r) => format!("destroyObjectReply {} {}", r.serial, match r.result {
            DestroyObjectResult::Ok => "ok",
            DestroyObjectResult::InvalidObject => "invalidObject",
            DestroyObjectResult::ForeignObject => "foreignObject",
        }),
        Message::CreateServiceReply(r) => match r.result {
            CreateServiceResult::Ok(c) => format!("createServiceReply {} ok {}", r.serial, n.cookie(c.0)),
            CreateServiceResult::DuplicateService => format!("createServiceReply {} duplicate", r.serial),
            CreateServiceResult::InvalidObject => format!("createServiceReply {} invalidObject", r.serial),
            CreateServiceResult::ForeignObject => format!("createServiceReply {} foreignObject", r.serial),
        },
        Message::DestroyServiceReply(r) => format!("destroyServiceReply {} {}", r.serial, match r.result {
            DestroyServiceResult::Ok => "ok",
            DestroyServiceResult::InvalidService => "invalidService",
            DestroyServiceResult::ForeignObject => "foreignObject",
        }),
        Message::CallFunction(r) => format!("callFunction {} {} {} {}", r.serial, n.cookie(r.service_cookie.0), r.function, val(&r.value)),
        Message::CallFunction2(r) => format!("callFunction2 {} {} {} {} {}", r.serial, n.cookie(r.service_cookie.0), r.function, opt(&r.version, |v| v.to_string()), val(&r.value)),
        Message::CallFunctionReply(r) => format!("callFunctionReply {} {}", r.serial, call_res_text(&r.result)),
        Message::AbortFunctionCall(r) => format!("abortFunctionCall {}", r.serial),
        Message::SubscribeEvent(r) => format!("subscribeEvent {} {} {}", opt(&r.serial, |s| s.to_string()), n.cookie(r.service_cookie.0), r.event),
        Message::SubscribeEventReply(r) => format!("subscribeEventReply {} {}", r.serial, match r.result {
            SubscribeEventResult::Ok => "ok",
            SubscribeEventResult::InvalidService => "invalidService",
        }),
        Message::UnsubscribeEvent(r) => format!("unsubscribeEvent {} {}", n.cookie(r.service_cookie.0), r.event),
        Message::EmitEvent(r) => format!("emitEvent {} {} {}", n.cookie(r.service_cookie.0), r.event, val(&r.value)),
        Message::QueryServiceVersionReply(r) => format!("queryServiceVersionReply {} {}", r.serial, match r.result {
            QueryServiceVersionResult::Ok(v) => v.to_string(),
            QueryServiceVersionResult::InvalidService => "-".into(),
        }),
        Message::QueryServiceInfoReply(r) => format!("queryServiceInfoReply {} {}", r.serial, match &r.result {
            QueryServiceInfoResult::Ok(v) => val(v),
            QueryServiceInfoResult::InvalidService => "-".into(),
        }),
        Message::SubscribeServiceReply(r) => format!("subscribeServiceReply {} {}", r.serial, match r.result {
            SubscribeServiceResult::Ok => "ok",
            SubscribeServiceResult::InvalidService => "invalidService",
        }),
        Message::SubscribeAllEvents(r) => format!("subscribeAllEvents {} {}", opt(&r.serial, |s| s.to_string()), n.cookie(r.service_cookie.0)),
        Message::SubscribeAllEventsReply(r) => format!("subscribeAllEventsReply {} {}", r.serial, match r.result {
            SubscribeAllEventsResult::Ok => "ok",
            SubscribeAllEventsResult::InvalidService => "invalidService",
            SubscribeAllEventsResult::NotSupported => "notSupported",
        }),
        Message::UnsubscribeAllEvents(r) => format!("unsubscribeAllEvents {} {}", opt(&r.serial, |s| s.to_string()), n.cookie(r.service_cookie.0)),
        Message::UnsubscribeAllEventsReply(r) => format!("unsubscribeAllEventsReply {} {}", r.serial, match r.result {
            UnsubscribeAllEventsResult::Ok => "ok",
            UnsubscribeAllEventsResult::InvalidService => "invalidService",
            UnsubscribeAllEventsResult::NotSupported => "notSupported",
        }),
        Message::ServiceDestroyed(r) => format!("serviceDestroyed {}", n.cookie(r.service_cookie.0)),
        Message::CreateChannelReply(r) => format!("createChannelReply {} {}", r.serial, n.cookie(r.cookie.0)),
        Message::CloseChannelEndReply(r) => format!("closeChannelEndReply {} {}", r.serial, match r.result {
            CloseChannelEndResult::Ok => "ok",
            CloseChannelEndResult::InvalidChannel => "invalidChannel",
            CloseChannelEndResult::ForeignChannel => "foreignChannel",
        }),
        Message::ChannelEndClosed(r) => format!("channelEndClosed {} {}", n.cookie(r.cookie.0), end_name(r.end)),
        Message::ClaimChannelEndReply(r) => format!("claimChannelEndReply {} {}", r.serial, match r.result {
            ClaimChannelEndResult::SenderClaimed(c) => format!("senderClaimed {}", c),
            ClaimChannelEndResult::ReceiverClaimed => "receiverClaimed".into(),
            ClaimChannelEndResult::InvalidChannel => "invalidChannel".into(),
            ClaimChannelEndResult::AlreadyClaimed => "alreadyClaimed".into(),
        }),
        Message::ChannelEndClaimed(r) => match r.end {
            ChannelEndWithCapacity::Sender => format!("channelEndClaimed {} snd 0", n.cookie(r.cookie.0)),
            ChannelEndWithCapacity::Receiver(c) => format!("channelEndClaimed {} rcv {}", n.cookie(r.cookie.0), c),
        },
        Message::ItemReceived(r) => format!("itemReceived {} {}", n.cookie(r.cookie.0), val(&r.value)),
        Message::AddChannelCapacity(r) => format!("addChannelCapacity {} {}", n.cookie(r.cookie.0), r.capacity),
        Message::SyncReply(r) => format!("syncReply {}", r.serial),
        Message::CreateBusListenerReply(r) => format!("createBusListenerReply {} {}", r.serial, n.cookie(r.cookie.0)),
        Message::DestroyBusListenerReply(r) => format!("destroyBusListenerReply {} {}", r.serial, match r.result {
            DestroyBusListenerResult::Ok => "ok",
            DestroyBusListenerResult::InvalidBusListener => "invalid",
        }),
        Message::StartBusListenerReply(r) => format!("startBusListenerReply {} {}", r.serial, match r.result {
            StartBusListenerResult::Ok => "ok",
            StartBusListenerResult::InvalidBusListener => "invalid",
            StartBusListenerResult::AlreadyStarted => "alreadyStarted",
        }),
        Message::StopBusListenerReply(r) => format!("stopBusListenerReply {} {}", r.serial, match r.result {
            StopBusListenerResult::Ok => "ok",
            StopBusListenerResult::InvalidBusListener => "invalid",
            StopBusListenerResult::NotStarted => "notStarted",
        }),
        Message::EmitBusEvent(r) => {
            let l = match r.cookie {
                Some(c) => n.cookie(c.0),
                None => "-".into(),
            };
            let e = match &r.event {
                BusEvent::ObjectCreated(o) => format!("objCreated {}", obj_id_text(n, o)),
                BusEvent::ObjectDestroyed(o) => format!("objDestroyed {}", obj_id_text(n, o)),
                BusEvent::ServiceCreated(s) => format!("svcCreated {}", svc_id_text(n, s)),
                BusEvent::ServiceDestroyed(s) => format!("svcDestroyed {}", svc_id_text(n, s)),
            };
            format!("emitBusEvent {} {}", l, e)
        }
        Message::BusListenerCurrentFinished(r) => format!("busListenerCurrentFinished {}", n.cookie(r.cookie.0)),
        Message::QueryIntrospection(r) => format!("queryIntrospection {} {}", r.serial, uuid_name(r.type_id.0)),
        Message::QueryIntrospectionReply(r) => format!("queryIntrospectionReply {} {}", r.serial, match &r.result {
            QueryIntrospectionResult::Ok(v) => val(v),
            QueryIntrospectionResult::Unavailable => "-".into(),
        }),
        Message::Shutdown(_) => "shutdown".into(),
        other => format!("UNEXPECTED-KIND {:?}", other.kind()),
    }
}

// ------------------------------------------------------------------------------------------------
// requests: build the real message and the text the Lean driver parses

#[derive(Clone, Debug)]
enum Ck {
    Known(Uuid),
    Bogus(u64),
}

impl Ck {
    fn uuid(&self) -> Uuid {
        match self {
            Ck::Known(u) => *u,
            Ck::Bogus(n) => bogus_cookie(*n),
        }
    }
    fn text(&self, n: &mut Names) -> String {
        match self {
            Ck::Known(u) => n.cookie(*u),
            Ck::Bogus(k) => format!("x{}", k),
        }
    }
}

fn payload(rng: &mut Rng) -> SerializedValue {
    // small values in the current (1.20) encoding; some contain the new container kinds
    match rng.below(5) {
        0 => SerializedValue::serialize(rng.next() as u8).unwrap(),
        1 => SerializedValue::serialize(vec![rng.next() as u16, 300, 7]).unwrap(),
        2 => SerializedValue::serialize(Some(vec![vec![1u8, 2], vec![]])).unwrap(),
        3 => {
            let mut m = HashMap::new();
            m.insert(rng.below(4) as u32, "x".to_string());
            SerializedValue::serialize(m).unwrap()
        }
        _ => SerializedValue::serialize(()).unwrap(),
    }
}

fn filter_text(f: &BusListenerFilter) -> String {
    match f {
        BusListenerFilter::Object(o) => format!("fo {}", opt(o, |u| uuid_name(u.0))),
        BusListenerFilter::Service(s) => format!("fs {} {}", opt(&s.object, |u| uuid_name(u.0)), opt(&s.service, |u| uuid_name(u.0))),
    }
}

/// minimum negotiated version for a client-to-broker message kind (property C12)
fn gate_of(m: &Message) -> u32 {
    match m {
        Message::AbortFunctionCall(_) => 16,
        Message::RegisterIntrospection(_) | Message::QueryIntrospection(_) | Message::QueryIntrospectionReply(_)
        | Message::CreateService2(_) | Message::QueryServiceInfo(_) => 17,
        Message::SubscribeService(_) | Message::UnsubscribeService(_) | Message::SubscribeAllEvents(_) | Message::UnsubscribeAllEvents(_) => 18,
        Message::CallFunction2(_) => 19,
        _ => 14,
    }
}

// ------------------------------------------------------------------------------------------------
// scenario state

#[derive(Clone, Debug)]
struct ChanInfo {
    cookie: Uuid,
    sender: Option<usize>,
    receiver: Option<usize>,
}

#[derive(Default)]
struct Pools {
    /// (cookie, owner)
    objects: Vec<(Uuid, usize)>,
    /// (cookie, owner, object cookie)
    services: Vec<(Uuid, usize, Uuid)>,
    channels: Vec<ChanInfo>,
    /// (cookie, owner)
    listeners: Vec<(Uuid, usize)>,
    /// cookies that used to be valid
    stale: Vec<Uuid>,
    /// requests whose reply updates the pools: (conn, serial) -> what
    pending: HashMap<(usize, u32), Pending>,
    /// broker serials of calls delivered to a connection: (conn, serial)
    incoming_calls: Vec<(usize, u32)>,
    /// caller serials in use: (conn, serial)
    outgoing_calls: Vec<(usize, u32)>,
    /// caller serials whose call has been answered (possibly by the caller's own abort, with the callee still working on it)
    freed_calls: Vec<(usize, u32)>,
    /// introspection queries delivered to a connection: (conn, serial)
    incoming_iqueries: Vec<(usize, u32)>,
}

#[derive(Clone, Debug)]
enum Pending {
    CreateService(Uuid),
    DestroyObject(Uuid),
    DestroyService(Uuid),
    DestroyListener(Uuid),
    CreateChannel(bool),
    Claim(Uuid, bool),
    Close(Uuid, bool),
}

struct Out {
    req: BufWriter<File>,
    rust: BufWriter<File>,
    oracle: BufWriter<File>,
    /// the event that is being processed (written as a `PANIC` line if the implementation panics on it)
    pending: Option<String>,
    lines: usize,
    oracle_fails: usize,
    stats: BTreeMap<String, u64>,
    samples: Vec<String>,
}

impl Out {
    fn emit(&mut self, req: &str, rust: &str) {
        self.pending = None;
        writeln!(self.req, "{}", req).unwrap();
        writeln!(self.rust, "{}", rust).unwrap();
        self.lines += 1;
        if self.samples.len() < 10 && self.lines % 331 == 7 {
            self.samples.push(format!("{} => {}", req, rust));
        }
    }
    fn fail(&mut self, prop: &str, what: &str, ctx: &str) {
        writeln!(self.oracle, "FAIL {} line={} {} input={}", prop, self.lines, what, ctx).unwrap();
        self.oracle_fails += 1;
    }
    fn count(&mut self, key: &str) {
        *self.stats.entry(key.to_string()).or_insert(0) += 1;
    }
}

struct Scenario<'a> {
    sim: Sim,
    names: Names,
    pools: Pools,
    /// the caller serial of a call that has just been aborted by its caller: the next request uses it for a new call
    reuse_next: Option<(usize, u32)>,
    /// (connection, service cookie) pairs: the connection has asked for a subscription of some kind to that service
    touched: Vec<(usize, Uuid)>,
    force_ck: Option<Uuid>,
    force_conn: Option<usize>,
    rng: Rng,
    out: &'a mut Out,
    serial: u32,
    trace: Vec<String>,
    used_serials: HashSet<(usize, u32)>,
    registered_types: HashSet<u64>,
    profile: String,
}

impl<'a> Scenario<'a> {
    /// A cookie from `pool` (with the connection that can use it), occasionally a stale or
    /// never-issued one.
    fn pick_from(&mut self, pool: &[(Uuid, usize)]) -> (Ck, Option<usize>) {
        if pool.is_empty() || self.rng.chance(1, 12) {
            if !self.pools.stale.is_empty() && self.rng.chance(1, 2) {
                let u = *self.rng.pick(&self.pools.stale.clone());
                return (Ck::Known(u), None);
            }
            return (Ck::Bogus(self.rng.below(3)), None);
        }
        // recent entries are more likely still alive
        let k = pool.len();
        let i = if self.rng.chance(1, 2) { k - 1 - (self.rng.below(k.min(3) as u64) as usize) } else { self.rng.below(k as u64) as usize };
        (Ck::Known(pool[i].0), Some(pool[i].1))
    }
    fn pick_obj(&mut self) -> (Ck, Option<usize>) {
        let p = self.pools.objects.clone();
        self.pick_from(&p)
    }
    fn pick_svc(&mut self) -> (Ck, Option<usize>) {
        if let Some(u) = self.force_ck.take() {
            return (Ck::Known(u), None);
        }
        let p: Vec<(Uuid, usize)> = self.pools.services.iter().map(|x| (x.0, x.1)).collect();
        self.pick_from(&p)
    }
    fn pick_lsn(&mut self) -> (Ck, Option<usize>) {
        let p = self.pools.listeners.clone();
        self.pick_from(&p)
    }
    /// the owner with high probability, otherwise anybody alive
    fn conn_for(&mut self, owner: Option<usize>, p_owner: u64) -> usize {
        let live = self.live_conns();
        match owner {
            Some(o) if live.contains(&o) && self.rng.chance(p_owner, 100) => o,
            _ => *self.rng.pick(&live),
        }
    }

    fn next_serial(&mut self) -> u32 {
        self.serial = self.serial.wrapping_add(1);
        if self.rng.chance(1, 25) {
            *self.rng.pick(&[0u32, 1, 251, 252, 65535, u32::MAX])
        } else {
            self.serial
        }
    }

    /// Collect what every client received, render it, learn cookies, run the online oracles.
    fn observe(&mut self) -> String {
        let mut txt = String::new();
        let fin = self.sim.broker.done();
        write!(txt, "fin={}", if fin { 1 } else { 0 }).unwrap();
        for c in 0..self.sim.conns.len() {
            let msgs = self.sim.drain(c);
            if msgs.is_empty() {
                continue;
            }
            let mut parts = vec![];
            for m in &msgs {
                self.learn(c, m);
                parts.push(rsp_text(&mut self.names, m));
            }
            write!(txt, " | {}: {}", c, parts.join(" ; ")).unwrap();
        }
        txt
    }

    fn learn(&mut self, c: usize, m: &Message) {
        let version = self.sim.conns[c].version;
        // C12 oracle: never a kind newer than the connection's version
        let min_version = match m {
            Message::AbortFunctionCall(_) => 16,
            Message::QueryIntrospection(_) | Message::QueryIntrospectionReply(_) | Message::QueryServiceInfoReply(_) => 17,
            Message::SubscribeServiceReply(_) | Message::SubscribeAllEvents(_) | Message::SubscribeAllEventsReply(_)
            | Message::UnsubscribeAllEvents(_) | Message::UnsubscribeAllEventsReply(_) => 18,
            Message::CallFunction2(_) => 19,
            _ => 14,
        };
        if min_version > version {
            let t = format!("{:?}", m.kind());
            self.out.fail("C12", &format!("connection negotiated 1.{} received {}", version, t), &self.trace.join(" / "));
        }
        let pend = match m {
            Message::CreateServiceReply(r) => self.pools.pending.remove(&(c, r.serial)),
            Message::DestroyObjectReply(r) => self.pools.pending.remove(&(c, r.serial)),
            Message::DestroyServiceReply(r) => self.pools.pending.remove(&(c, r.serial)),
            Message::DestroyBusListenerReply(r) => self.pools.pending.remove(&(c, r.serial)),
            Message::CreateChannelReply(r) => self.pools.pending.remove(&(c, r.serial)),
            Message::ClaimChannelEndReply(r) => self.pools.pending.remove(&(c, r.serial)),
            Message::CloseChannelEndReply(r) => self.pools.pending.remove(&(c, r.serial)),
            _ => None,
        };
        match m {
            Message::CreateObjectReply(CreateObjectReply { result: CreateObjectResult::Ok(ck), .. }) => {
                if self.pools.objects.iter().any(|x| x.0 == ck.0) || self.pools.stale.contains(&ck.0) {
                    self.out.fail("C03", "object cookie issued twice", &self.trace.join(" / "));
                }
                self.pools.objects.push((ck.0, c));
            }
            Message::CreateServiceReply(CreateServiceReply { result: CreateServiceResult::Ok(ck), .. }) => {
                if self.pools.services.iter().any(|x| x.0 == ck.0) || self.pools.stale.contains(&ck.0) {
                    self.out.fail("C03", "service cookie issued twice", &self.trace.join(" / "));
                }
                let obj = match pend {
                    Some(Pending::CreateService(o)) => o,
                    _ => Uuid::nil(),
                };
                self.pools.services.push((ck.0, c, obj));
            }
            Message::DestroyObjectReply(DestroyObjectReply { result: DestroyObjectResult::Ok, .. }) => {
                if let Some(Pending::DestroyObject(o)) = pend {
                    self.pools.objects.retain(|x| x.0 != o);
                    self.pools.stale.push(o);
                    let gone: Vec<Uuid> = self.pools.services.iter().filter(|x| x.2 == o).map(|x| x.0).collect();
                    self.pools.services.retain(|x| x.2 != o);
                    self.pools.stale.extend(gone);
                }
            }
            Message::DestroyServiceReply(DestroyServiceReply { result: DestroyServiceResult::Ok, .. }) => {
                if let Some(Pending::DestroyService(sv)) = pend {
                    self.pools.services.retain(|x| x.0 != sv);
                    self.pools.stale.push(sv);
                }
            }
            Message::DestroyBusListenerReply(DestroyBusListenerReply { result: DestroyBusListenerResult::Ok, .. }) => {
                if let Some(Pending::DestroyListener(l)) = pend {
                    self.pools.listeners.retain(|x| x.0 != l);
                    self.pools.stale.push(l);
                }
            }
            Message::CreateChannelReply(r) => {
                let sender = matches!(pend, Some(Pending::CreateChannel(true)));
                self.pools.channels.push(ChanInfo { cookie: r.cookie.0, sender: if sender { Some(c) } else { None }, receiver: if sender { None } else { Some(c) } });
            }
            Message::ClaimChannelEndReply(r) => {
                if let Some(Pending::Claim(ck, sender)) = pend {
                    if let Some(ch) = self.pools.channels.iter_mut().find(|x| x.cookie == ck) {
                        match r.result {
                            ClaimChannelEndResult::SenderClaimed(_) if sender => ch.sender = Some(c),
                            ClaimChannelEndResult::ReceiverClaimed if !sender => ch.receiver = Some(c),
                            _ => {}
                        }
                    }
                }
            }
            Message::CloseChannelEndReply(CloseChannelEndReply { result: CloseChannelEndResult::Ok, .. }) => {
                if let Some(Pending::Close(ck, sender)) = pend {
                    if let Some(ch) = self.pools.channels.iter_mut().find(|x| x.cookie == ck) {
                        if sender { ch.sender = None } else { ch.receiver = None }
                    }
                }
            }
            Message::CreateBusListenerReply(r) => self.pools.listeners.push((r.cookie.0, c)),
            Message::CallFunction(r) => self.pools.incoming_calls.push((c, r.serial)),
            Message::CallFunction2(r) => self.pools.incoming_calls.push((c, r.serial)),
            Message::QueryIntrospection(r) => self.pools.incoming_iqueries.push((c, r.serial)),
            Message::CallFunctionReply(r) => {
                // C02 oracle (coarse; the precise statement is decided by the model): no reply for
                // a serial this connection never used in a call
                let key = (c, r.serial);
                if !self.used_serials.contains(&key) {
                    self.out.fail("C02", "reply for a serial this connection never called with", &self.trace.join(" / "));
                }
                self.pools.outgoing_calls.retain(|k| *k != key);
                if self.pools.freed_calls.len() < 16 && !self.pools.freed_calls.contains(&key) {
                    self.pools.freed_calls.push(key);
                }
            }
            _ => {}
        }
    }

    fn log(&mut self, lean: &str) {
        self.trace.push(lean.to_string());
        if self.trace.len() > 400 {
            self.trace.remove(0);
        }
    }

    fn event(&mut self, lean: String, rust: String) {
        self.log(&lean);
        self.out.emit(&format!("bev {}", lean), &rust);
    }

    fn connect(&mut self) {
        let (minor, legacy, major) = match self.rng.below(12) {
            0 => (14, true, 1),
            1 => (self.rng.range(10, 16) as u32, true, 1),
            2 => (self.rng.range(0, 25) as u32, false, 1),
            3 => (self.rng.range(14, 20) as u32, false, *self.rng.pick(&[0u32, 2])),
            _ => (self.rng.range(14, 21) as u32, false, 1),
        };
        self.out.count("connect.attempt");
        let hs = format!("hs {} {} {}", if legacy { "legacy" } else { "new" }, major, minor);
        match self.sim.connect(minor, legacy, major) {
            Ok(id) => {
                let v = self.sim.conns[id].version;
                self.out.emit(&hs, &format!("ok {}", v));
                // C12 handshake oracle
                let expect = if legacy { if minor == 14 { Some(14) } else { None } } else if major == 1 && minor >= 14 { Some(minor.min(20)) } else { None };
                if expect != Some(v) {
                    self.out.fail("C12", &format!("handshake {}{}.{} negotiated 1.{}", if legacy { "legacy " } else { "" }, major, minor, v), "");
                }
                let obs = self.observe();
                self.event(format!("new {} {}", id, v), obs);
                self.out.count(&format!("connect.ok.v{}", v));
            }
            Err(e) => {
                self.out.emit(&hs, if e.contains("incompatible") { "incompatible" } else { "error" });
                let expect_fail = if legacy { minor != 14 } else { !(major == 1 && minor >= 14) };
                if !expect_fail || !e.contains("incompatible") {
                    self.out.fail("C12", &format!("handshake {}{}.{} failed: {}", if legacy { "legacy " } else { "" }, major, minor, e), "");
                }
                self.out.count("connect.rejected");
            }
        }
    }

    fn live_conns(&self) -> Vec<usize> {
        (0..self.sim.conns.len()).filter(|&c| self.sim.conns[c].client.is_some() && self.sim.conns[c].task.is_some() && !self.sim.conns[c].gone).collect()
    }

    /// Build a random request: (sending connection, message, lean text).
    fn gen_request(&mut self) -> (usize, Message, String) {
        let wild = self.profile == "abuse";
        let mut choice = self.rng.below(if wild { 44 } else { 41 });
        // build up state first: most requests are only interesting against live entities
        if self.pools.objects.is_empty() && self.rng.chance(3, 4) {
            choice = 0;
        } else if self.pools.services.len() < 2 && self.rng.chance(1, 2) {
            choice = 3;
        } else if self.pools.channels.is_empty() && self.rng.chance(1, 4) {
            choice = 26;
        } else if self.pools.listeners.is_empty() && self.rng.chance(1, 6) {
            choice = 36;
        }
        let s = self.next_serial();
        let n_uuid = 4;
        let mut anyc = self.conn_for(None, 0);
        // a caller that has aborted a call may use the serial again at once, while the callee still works on the old call
        let mut forced_serial = None;
        if let Some((c, n)) = self.reuse_next.take() {
            if !self.pools.services.is_empty() && self.live_conns().contains(&c) && self.rng.chance(2, 3) {
                choice = 7;
                anyc = c;
                forced_serial = Some(n);
                self.out.count("call.serial_reused_after_abort");
            }
        }
        // a connection that subscribed to something of a service comes back to it after the service is gone
        self.force_ck = None;
        self.force_conn = None;
        if forced_serial.is_none() && self.rng.chance(1, 8) {
            let live = self.live_conns();
            let cands: Vec<(usize, Uuid)> = self.touched.iter().cloned().filter(|(c, u)| live.contains(c) && self.pools.stale.contains(u)).collect();
            if !cands.is_empty() {
                let (c, u) = *self.rng.pick(&cands);
                self.force_ck = Some(u);
                self.force_conn = Some(c);
                anyc = c;
                choice = *self.rng.pick(&[16u64, 16, 17, 19, 23, 24, 25]);
                self.out.count("svc.revisit_stale_after_subscription");
            }
        }
        match choice {
            0 | 1 => {
                let u = self.rng.below(n_uuid);
                (anyc, Message::CreateObject(CreateObject { serial: s, uuid: ObjectUuid(pool_uuid(u)) }), format!("createObject {} u{}", s, u))
            }
            2 => {
                let (ck, owner) = self.pick_obj();
                let c = self.conn_for(owner, 85);
                self.pools.pending.insert((c, s), Pending::DestroyObject(ck.uuid()));
                (c, Message::DestroyObject(DestroyObject { serial: s, cookie: ObjectCookie(ck.uuid()) }), format!("destroyObject {} {}", s, ck.text(&mut self.names)))
            }
            3 | 4 | 5 => {
                let (ck, owner) = self.pick_obj();
                let c = self.conn_for(owner, 90);
                let version = self.sim.conns[c].version;
                let u = self.rng.below(n_uuid);
                let ver = self.rng.below(5) as u32;
                self.pools.pending.insert((c, s), Pending::CreateService(ck.uuid()));
                if version >= 17 && self.rng.chance(2, 3) || (wild && self.rng.chance(1, 6)) {
                    if self.rng.chance(1, 12) {
                        let garbage = SerializedValue::serialize(17u8).unwrap();
                        (c, Message::CreateService2(CreateService2 { serial: s, object_cookie: ObjectCookie(ck.uuid()), uuid: ServiceUuid(pool_uuid(u)), value: garbage }),
                         format!("createService2 {} {} u{} bad", s, ck.text(&mut self.names), u))
                    } else {
                        let sa = match self.rng.below(3) {
                            0 => None,
                            1 => Some(true),
                            _ => Some(false),
                        };
                        let mut info = ServiceInfo::new(ver);
                        if let Some(b) = sa {
                            info = info.set_subscribe_all(b);
                        }
                        (c, Message::CreateService2(CreateService2 { serial: s, object_cookie: ObjectCookie(ck.uuid()), uuid: ServiceUuid(pool_uuid(u)), value: SerializedValue::serialize(info).unwrap() }),
                         format!("createService2 {} {} u{} {} {}", s, ck.text(&mut self.names), u, ver, match sa { None => "-", Some(true) => "t", Some(false) => "f" }))
                    }
                } else {
                    (c, Message::CreateService(CreateService { serial: s, object_cookie: ObjectCookie(ck.uuid()), uuid: ServiceUuid(pool_uuid(u)), version: ver }),
                     format!("createService {} {} u{} {}", s, ck.text(&mut self.names), u, ver))
                }
            }
            6 => {
                let (ck, owner) = self.pick_svc();
                let c = self.conn_for(owner, 85);
                self.pools.pending.insert((c, s), Pending::DestroyService(ck.uuid()));
                (c, Message::DestroyService(DestroyService { serial: s, cookie: ServiceCookie(ck.uuid()) }), format!("destroyService {} {}", s, ck.text(&mut self.names)))
            }
            7 | 8 | 9 | 10 => {
                let (ck, _) = self.pick_svc();
                let c = anyc;
                let version = self.sim.conns[c].version;
                // caller serial: mostly fresh, sometimes (rarely) a pending one again
                let mine: Vec<u32> = self.pools.outgoing_calls.iter().filter(|k| k.0 == c).map(|k| k.1).collect();
                let freed: Vec<u32> = self.pools.freed_calls.iter().filter(|k| k.0 == c).map(|k| k.1).collect();
                let cs = if let Some(n) = forced_serial {
                    n
                } else if !mine.is_empty() && self.rng.chance(1, 40) {
                    *self.rng.pick(&mine)
                } else if !freed.is_empty() && self.rng.chance(1, 5) {
                    // a serial whose call has been answered is used again (the callee may still answer the old call)
                    let x = *self.rng.pick(&freed);
                    self.pools.freed_calls.retain(|k| *k != (c, x));
                    self.out.count("call.serial_reused");
                    x
                } else {
                    s
                };
                let f = self.rng.below(3) as u32;
                let p = payload(&mut self.rng);
                if !self.pools.outgoing_calls.contains(&(c, cs)) {
                    self.pools.outgoing_calls.push((c, cs));
                }
                self.used_serials.insert((c, cs));
                if (version >= 19 && self.rng.chance(1, 2)) || (wild && self.rng.chance(1, 8)) {
                    let v = if self.rng.chance(1, 2) { Some(self.rng.below(9) as u32) } else { None };
                    (c, Message::CallFunction2(CallFunction2 { serial: cs, service_cookie: ServiceCookie(ck.uuid()), function: f, version: v, value: p.clone() }),
                     format!("callFunction2 {} {} {} {} {}", cs, ck.text(&mut self.names), f, opt(&v, |x| x.to_string()), val(&p)))
                } else {
                    (c, Message::CallFunction(CallFunction { serial: cs, service_cookie: ServiceCookie(ck.uuid()), function: f, value: p.clone() }),
                     format!("callFunction {} {} {} {}", cs, ck.text(&mut self.names), f, val(&p)))
                }
            }
            11 | 12 | 13 | 14 => {
                // reply to a call: usually by the connection it was delivered to
                let (c, serial) = if !self.pools.incoming_calls.is_empty() && self.rng.chance(9, 10) {
                    let (oc, x) = *self.rng.pick(&self.pools.incoming_calls.clone());
                    let c = self.conn_for(Some(oc), 92);
                    if self.rng.chance(9, 10) {
                        self.pools.incoming_calls.retain(|k| *k != (oc, x));
                    }
                    (c, x)
                } else {
                    (anyc, self.rng.below(6) as u32)
                };
                let p = payload(&mut self.rng);
                let (r, t) = match self.rng.below(7) {
                    0 => (CallFunctionResult::Err(p.clone()), format!("err {}", val(&p))),
                    1 => (CallFunctionResult::Aborted, "aborted".to_string()),
                    2 => (CallFunctionResult::InvalidFunction, "invalidFunction".to_string()),
                    3 => (CallFunctionResult::InvalidArgs, "invalidArgs".to_string()),
                    _ => (CallFunctionResult::Ok(p.clone()), format!("ok {}", val(&p))),
                };
                (c, Message::CallFunctionReply(CallFunctionReply { serial, result: r }), format!("callFunctionReply {} {}", serial, t))
            }
            15 => {
                let (c, serial) = if !self.pools.outgoing_calls.is_empty() && self.rng.chance(5, 6) {
                    let (oc, x) = *self.rng.pick(&self.pools.outgoing_calls.clone());
                    (self.conn_for(Some(oc), 92), x)
                } else {
                    (anyc, self.rng.below(5) as u32)
                };
                if self.rng.chance(1, 2) {
                    self.reuse_next = Some((c, serial));
                }
                (c, Message::AbortFunctionCall(AbortFunctionCall { serial }), format!("abortFunctionCall {}", serial))
            }
            16 | 17 | 18 => {
                let (ck, _) = self.pick_svc();
                let ev = self.rng.below(3) as u32;
                let ser = if self.rng.chance(1, 30) { None } else { Some(s) };
                if let Ck::Known(u) = ck { self.touched.push((anyc, u)); }
                (anyc, Message::SubscribeEvent(SubscribeEvent { serial: ser, service_cookie: ServiceCookie(ck.uuid()), event: ev }),
                 format!("subscribeEvent {} {} {}", opt(&ser, |x| x.to_string()), ck.text(&mut self.names), ev))
            }
            19 => {
                let (ck, _) = self.pick_svc();
                let ev = self.rng.below(3) as u32;
                (anyc, Message::UnsubscribeEvent(UnsubscribeEvent { service_cookie: ServiceCookie(ck.uuid()), event: ev }), format!("unsubscribeEvent {} {}", ck.text(&mut self.names), ev))
            }
            20 | 21 | 22 => {
                let (ck, owner) = self.pick_svc();
                let c = self.conn_for(owner, 92);
                let ev = self.rng.below(3) as u32;
                let p = payload(&mut self.rng);
                (c, Message::EmitEvent(EmitEvent { service_cookie: ServiceCookie(ck.uuid()), event: ev, value: p.clone() }), format!("emitEvent {} {} {}", ck.text(&mut self.names), ev, val(&p)))
            }
            23 => {
                let (ck, _) = self.pick_svc();
                let c = anyc;
                let version = self.sim.conns[c].version;
                if version >= 17 && self.rng.chance(1, 2) || (wild && self.rng.chance(1, 6)) {
                    (c, Message::QueryServiceInfo(QueryServiceInfo { serial: s, cookie: ServiceCookie(ck.uuid()) }), format!("queryServiceInfo {} {}", s, ck.text(&mut self.names)))
                } else {
                    (c, Message::QueryServiceVersion(QueryServiceVersion { serial: s, cookie: ServiceCookie(ck.uuid()) }), format!("queryServiceVersion {} {}", s, ck.text(&mut self.names)))
                }
            }
            24 | 25 => {
                let (ck, _) = self.pick_svc();
                // prefer a connection that may use these kinds
                let ok: Vec<usize> = self.live_conns().into_iter().filter(|&c| self.sim.conns[c].version >= 18).collect();
                let c = if let Some(fc) = self.force_conn.take() { fc } else if !ok.is_empty() && !(wild && self.rng.chance(1, 5)) { *self.rng.pick(&ok) } else if wild { anyc } else {
                    return (anyc, Message::Sync(Sync { serial: s }), format!("sync {}", s));
                };
                if let Ck::Known(u) = ck { self.touched.push((c, u)); }
                match self.rng.below(5) {
                    0 => (c, Message::SubscribeService(SubscribeService { serial: s, service_cookie: ServiceCookie(ck.uuid()) }), format!("subscribeService {} {}", s, ck.text(&mut self.names))),
                    1 => (c, Message::UnsubscribeService(UnsubscribeService { service_cookie: ServiceCookie(ck.uuid()) }), format!("unsubscribeService {}", ck.text(&mut self.names))),
                    2 | 3 => {
                        let ser = if self.rng.chance(1, 20) { None } else { Some(s) };
                        (c, Message::SubscribeAllEvents(SubscribeAllEvents { serial: ser, service_cookie: ServiceCookie(ck.uuid()) }), format!("subscribeAllEvents {} {}", opt(&ser, |x| x.to_string()), ck.text(&mut self.names)))
                    }
                    _ => {
                        let ser = if self.rng.chance(1, 6) { None } else { Some(s) };
                        (c, Message::UnsubscribeAllEvents(UnsubscribeAllEvents { serial: ser, service_cookie: ServiceCookie(ck.uuid()) }), format!("unsubscribeAllEvents {} {}", opt(&ser, |x| x.to_string()), ck.text(&mut self.names)))
                    }
                }
            }
            26 | 27 => {
                let cap = *self.rng.pick(&[0u32, 1, 3, 4, 5, 6, 9, u32::MAX - 1, u32::MAX]);
                let c = anyc;
                if self.rng.chance(1, 2) {
                    self.pools.pending.insert((c, s), Pending::CreateChannel(true));
                    (c, Message::CreateChannel(CreateChannel { serial: s, end: ChannelEndWithCapacity::Sender }), format!("createChannel {} snd 0", s))
                } else {
                    self.pools.pending.insert((c, s), Pending::CreateChannel(false));
                    (c, Message::CreateChannel(CreateChannel { serial: s, end: ChannelEndWithCapacity::Receiver(cap) }), format!("createChannel {} rcv {}", s, cap))
                }
            }
            28 => {
                let (ck, info) = self.pick_chan();
                let sender = self.rng.chance(1, 2);
                let owner = info.as_ref().and_then(|i| if sender { i.sender } else { i.receiver });
                let c = self.conn_for(owner, 80);
                let e = if sender { ChannelEnd::Sender } else { ChannelEnd::Receiver };
                self.pools.pending.insert((c, s), Pending::Close(ck.uuid(), sender));
                (c, Message::CloseChannelEnd(CloseChannelEnd { serial: s, cookie: ChannelCookie(ck.uuid()), end: e }), format!("closeChannelEnd {} {} {}", s, ck.text(&mut self.names), end_name(e)))
            }
            29 | 30 => {
                let (ck, info) = self.pick_chan();
                let cap = *self.rng.pick(&[0u32, 1, 3, 4, 5, 6, 9, u32::MAX - 1, u32::MAX]);
                // usually claim the end that is still free
                let sender = match &info {
                    Some(i) if self.rng.chance(9, 10) => i.sender.is_none(),
                    _ => self.rng.chance(1, 2),
                };
                let c = anyc;
                self.pools.pending.insert((c, s), Pending::Claim(ck.uuid(), sender));
                if sender {
                    (c, Message::ClaimChannelEnd(ClaimChannelEnd { serial: s, cookie: ChannelCookie(ck.uuid()), end: ChannelEndWithCapacity::Sender }), format!("claimChannelEnd {} {} snd 0", s, ck.text(&mut self.names)))
                } else {
                    (c, Message::ClaimChannelEnd(ClaimChannelEnd { serial: s, cookie: ChannelCookie(ck.uuid()), end: ChannelEndWithCapacity::Receiver(cap) }), format!("claimChannelEnd {} {} rcv {}", s, ck.text(&mut self.names), cap))
                }
            }
            31 | 32 | 33 | 34 => {
                let (ck, info) = self.pick_chan();
                let c = self.conn_for(info.as_ref().and_then(|i| i.sender), 93);
                let p = payload(&mut self.rng);
                (c, Message::SendItem(SendItem { cookie: ChannelCookie(ck.uuid()), value: p.clone() }), format!("sendItem {} {}", ck.text(&mut self.names), val(&p)))
            }
            35 => {
                let (ck, info) = self.pick_chan();
                let c = self.conn_for(info.as_ref().and_then(|i| i.receiver), 93);
                let cap = *self.rng.pick(&[0u32, 1, 2, 4, 5, 7, u32::MAX - 2, u32::MAX]);
                (c, Message::AddChannelCapacity(AddChannelCapacity { cookie: ChannelCookie(ck.uuid()), capacity: cap }), format!("addChannelCapacity {} {}", ck.text(&mut self.names), cap))
            }
            36 => {
                if self.rng.chance(1, 4) {
                    (anyc, Message::Sync(Sync { serial: s }), format!("sync {}", s))
                } else {
                    (anyc, Message::CreateBusListener(CreateBusListener { serial: s }), format!("createBusListener {}", s))
                }
            }
            37 => {
                let (ck, owner) = self.pick_lsn();
                let c = self.conn_for(owner, 90);
                match self.rng.below(6) {
                    0 => {
                        self.pools.pending.insert((c, s), Pending::DestroyListener(ck.uuid()));
                        (c, Message::DestroyBusListener(DestroyBusListener { serial: s, cookie: BusListenerCookie(ck.uuid()) }), format!("destroyBusListener {} {}", s, ck.text(&mut self.names)))
                    }
                    1 => (c, Message::ClearBusListenerFilters(ClearBusListenerFilters { cookie: BusListenerCookie(ck.uuid()) }), format!("clearFilters {}", ck.text(&mut self.names))),
                    _ => (c, Message::StopBusListener(StopBusListener { serial: s, cookie: BusListenerCookie(ck.uuid()) }), format!("stopBusListener {} {}", s, ck.text(&mut self.names))),
                }
            }
            38 | 39 => {
                let (ck, owner) = self.pick_lsn();
                let c = self.conn_for(owner, 92);
                let o = if self.rng.chance(1, 2) { Some(ObjectUuid(pool_uuid(self.rng.below(n_uuid)))) } else { None };
                let sv = if self.rng.chance(1, 2) { Some(ServiceUuid(pool_uuid(self.rng.below(n_uuid)))) } else { None };
                let mut f = if self.rng.chance(1, 2) { BusListenerFilter::Object(o) } else { BusListenerFilter::Service(BusListenerServiceFilter { object: o, service: sv }) };
                // half of the time: service filters on one of two specific objects, with and without a service uuid, so that
                // listeners come to hold several filters that match the same service
                if self.rng.chance(1, 2) {
                    let o = Some(ObjectUuid(pool_uuid(self.rng.below(2))));
                    let sv = if self.rng.chance(1, 2) { Some(ServiceUuid(pool_uuid(self.rng.below(2)))) } else { None };
                    f = BusListenerFilter::Service(BusListenerServiceFilter { object: o, service: sv });
                    self.out.count("filter.overlapping_specific_object");
                }
                if self.rng.chance(3, 4) {
                    (c, Message::AddBusListenerFilter(AddBusListenerFilter { cookie: BusListenerCookie(ck.uuid()), filter: f }), format!("addFilter {} {}", ck.text(&mut self.names), filter_text(&f)))
                } else {
                    (c, Message::RemoveBusListenerFilter(RemoveBusListenerFilter { cookie: BusListenerCookie(ck.uuid()), filter: f }), format!("removeFilter {} {}", ck.text(&mut self.names), filter_text(&f)))
                }
            }
            40 => {
                let (ck, owner) = self.pick_lsn();
                let c = self.conn_for(owner, 92);
                let (sc, t) = match self.rng.below(3) {
                    0 => (BusListenerScope::Current, "current"),
                    1 => (BusListenerScope::New, "new"),
                    _ => (BusListenerScope::All, "all"),
                };
                (c, Message::StartBusListener(StartBusListener { serial: s, cookie: BusListenerCookie(ck.uuid()), scope: sc }), format!("startBusListener {} {} {}", s, ck.text(&mut self.names), t))
            }
            _ => {
                // wrong-direction kinds
                let (m, k): (Message, u32) = match self.rng.below(6) {
                    0 => (Message::SyncReply(SyncReply { serial: s }), 31),
                    1 => (Message::ServiceDestroyed(ServiceDestroyed { service_cookie: ServiceCookie(bogus_cookie(1)) }), 32),
                    2 => (Message::CreateObjectReply(CreateObjectReply { serial: s, result: CreateObjectResult::DuplicateObject }), 4),
                    3 => (Message::ItemReceived(ItemReceived { cookie: ChannelCookie(bogus_cookie(2)), value: payload(&mut self.rng) }), 28),
                    4 => (Message::ChannelEndClosed(ChannelEndClosed { cookie: ChannelCookie(bogus_cookie(2)), end: ChannelEnd::Sender }), 23),
                    _ => (Message::BusListenerCurrentFinished(BusListenerCurrentFinished { cookie: BusListenerCookie(bogus_cookie(0)) }), 45),
                };
                (anyc, m, format!("other {}", k))
            }
        }
    }

    /// introspection traffic (kept apart: the broker picks a random registered connection when it
    /// has to ask, so at most one connection registers each type)
    fn gen_introspection(&mut self) -> Option<(usize, Message, String)> {
        let ok: Vec<usize> = self.live_conns().into_iter().filter(|&c| self.sim.conns[c].version >= 17).collect();
        let wild = self.profile == "abuse";
        let s = self.next_serial();
        let c = if !ok.is_empty() && !(wild && self.rng.chance(1, 6)) { *self.rng.pick(&ok) } else if wild { self.conn_for(None, 0) } else { return None };
        Some(match self.rng.below(4) {
            0 => {
                let free: Vec<u64> = (0..3).filter(|t| !self.registered_types.contains(t)).collect();
                if free.is_empty() {
                    return None;
                }
                let ty = *self.rng.pick(&free);
                self.registered_types.insert(ty);
                let mut set = HashSet::new();
                set.insert(TypeId(pool_uuid(ty)));
                (c, Message::RegisterIntrospection(RegisterIntrospection { value: SerializedValue::serialize(&set).unwrap() }), format!("registerIntrospection u{}", ty))
            }
            1 => {
                let ty = self.rng.below(3);
                (c, Message::QueryIntrospection(QueryIntrospection { serial: s, type_id: TypeId(pool_uuid(ty)) }), format!("queryIntrospection {} u{}", s, ty))
            }
            _ => {
                let (c, serial) = if !self.pools.incoming_iqueries.is_empty() && self.rng.chance(5, 6) {
                    let (oc, x) = *self.rng.pick(&self.pools.incoming_iqueries.clone());
                    self.pools.incoming_iqueries.retain(|k| *k != (oc, x));
                    (self.conn_for(Some(oc), 92), x)
                } else {
                    (c, self.rng.below(4) as u32)
                };
                if self.rng.chance(2, 3) {
                    let p = payload(&mut self.rng);
                    (c, Message::QueryIntrospectionReply(QueryIntrospectionReply { serial, result: QueryIntrospectionResult::Ok(p.clone()) }), format!("queryIntrospectionReply {} {}", serial, val(&p)))
                } else {
                    (c, Message::QueryIntrospectionReply(QueryIntrospectionReply { serial, result: QueryIntrospectionResult::Unavailable }), format!("queryIntrospectionReply {} -", serial))
                }
            }
        })
    }

    fn pick_chan(&mut self) -> (Ck, Option<ChanInfo>) {
        let pool = self.pools.channels.clone();
        if pool.is_empty() || self.rng.chance(1, 14) {
            return (Ck::Bogus(self.rng.below(3)), None);
        }
        let k = pool.len();
        let i = if self.rng.chance(2, 3) { k - 1 - (self.rng.below(k.min(2) as u64) as usize) } else { self.rng.below(k as u64) as usize };
        (Ck::Known(pool[i].cookie), Some(pool[i].clone()))
    }

    fn step(&mut self) {
        let live = self.live_conns();
        let want = if self.profile == "faults" { 4 } else { 3 };
        if live.len() < 2 || (live.len() < want && self.rng.chance(1, 6)) || (live.len() < 6 && self.rng.chance(1, 50)) {
            self.connect();
            return;
        }
        let term_rate = if self.profile == "faults" { 12 } else { 70 };
        if self.rng.chance(1, term_rate) {
            let c = *self.rng.pick(&live);
            self.terminate(c);
            return;
        }
        if self.rng.chance(1, 40) {
            self.check_stats();
            return;
        }
        let (c, msg, text) = if self.rng.chance(1, 16) {
            match self.gen_introspection() {
                Some(x) => x,
                None => self.gen_request(),
            }
        } else {
            self.gen_request()
        };
        self.out.count(&format!("req.{}", text.split(' ').next().unwrap()));
        // "requests still queued while the connection dies": forward to the broker's queue, then
        // drop the connection's task before the broker runs
        if self.profile == "faults" && self.rng.chance(1, 15) {
            self.sim.client_send(c, msg);
            self.sim.settle(true);
            self.sim.conns[c].task = None;
            self.sim.conns[c].gone = true;
            let dropped = format!("drop {}", c);
            self.log(&dropped);
            self.out.emit(&format!("bev {}", dropped), "fin=0");
            self.sim.settle(false);
            self.sim.conns[c].client = None;
            let obs = self.observe();
            self.event(format!("msg {} {}", c, text), obs);
            self.forget_conn(c);
            self.out.count("fault.queued_then_dropped");
            return;
        }
        let gate = gate_of(&msg);
        let wrong_direction = text.starts_with("other ");
        self.out.pending = Some(format!("bev msg {} {}", c, text));
        self.sim.client_send(c, msg);
        self.sim.settle(false);
        let obs = self.observe();
        self.event(format!("msg {} {}", c, text), obs);
        // a protocol error closes the connection: the connection task ends
        let closed = self.sim.conns[c].task.as_ref().map_or(true, |t| t.done());
        if closed {
            self.sim.conns[c].gone = true;
            self.forget_conn(c);
            self.out.count("closed_by_broker");
        }
        // C12 oracle: a message kind newer than the negotiated version closes the connection
        if gate > self.sim.conns[c].version {
            self.out.count("gated_message");
            if !closed {
                let t = self.trace.join(" / ");
                self.out.fail("C12", &format!("connection negotiated 1.{} used a 1.{} message and was not closed", self.sim.conns[c].version, gate), &t);
            }
        }
        // C11 oracle: wrong-direction kinds close the connection
        if wrong_direction && !closed {
            let t = self.trace.join(" / ");
            self.out.fail("C11", "a broker-to-client message kind sent by a client did not close the connection", &t);
        }
    }

    fn forget_conn(&mut self, c: usize) {
        // the connection's task has ended by itself: nothing of the harness refers to the connection any more, and with
        // the handle the last clone of its id goes once the broker has removed it (ids are reused by later connects)
        if self.sim.conns[c].task.as_ref().map_or(false, |t| t.done()) && self.rng.chance(2, 3) {
            self.sim.conns[c].handle = None;
            self.out.count("conn.handle_released");
        }
        self.pools.incoming_calls.retain(|k| k.0 != c);
        self.pools.incoming_iqueries.retain(|k| k.0 != c);
        self.pools.outgoing_calls.retain(|k| k.0 != c);
        self.pools.freed_calls.retain(|k| k.0 != c);
        let gone: Vec<Uuid> = self.pools.objects.iter().filter(|x| x.1 == c).map(|x| x.0)
            .chain(self.pools.services.iter().filter(|x| x.1 == c).map(|x| x.0))
            .chain(self.pools.listeners.iter().filter(|x| x.1 == c).map(|x| x.0)).collect();
        self.pools.stale.extend(gone);
        self.pools.objects.retain(|x| x.1 != c);
        self.pools.services.retain(|x| x.1 != c);
        self.pools.listeners.retain(|x| x.1 != c);
        for ch in self.pools.channels.iter_mut() {
            if ch.sender == Some(c) { ch.sender = None }
            if ch.receiver == Some(c) { ch.receiver = None }
        }
    }

    /// End connection `c` in one of the four ways.
    fn terminate(&mut self, c: usize) {
        let how = self.rng.below(4);
        self.out.count(&format!("terminate.{}", how));
        match how {
            0 => {
                // clean shutdown requested by the client
                self.sim.client_send(c, Message::Shutdown(Shutdown));
                self.sim.settle(false);
                let mut obs = self.observe();
                // the connection task echoes Shutdown to its client; that is not a broker output
                obs = obs.replace(&format!(" | {}: shutdown", c), "");
                self.event(format!("cshut {}", c), obs);
            }
            1 => {
                // transport error: the client end of the transport is dropped
                self.sim.conns[c].client = None;
                self.sim.settle(false);
                let obs = self.observe();
                self.event(format!("cshut {}", c), obs);
            }
            2 => {
                // forced by the broker handle
                let h = self.sim.conns[c].handle.clone().expect("a live connection keeps its handle");
                let mut handle = self.sim.handle.clone();
                let _ = self.sim.run_aux(async move { handle.shutdown_connection(&h).await }, false);
                let obs = self.observe();
                self.event(format!("kshut {}", c), obs);
                // the client answers the Shutdown by closing its end
                self.sim.conns[c].client = None;
                self.sim.settle(false);
                let _ = self.observe();
            }
            _ => {
                // the connection task is dropped; the broker finds out at the next send
                self.sim.conns[c].task = None;
                let dropped = format!("drop {}", c);
                self.log(&dropped);
                self.out.emit(&format!("bev {}", dropped), "fin=0");
                self.sim.conns[c].client = None;
                // a shutdown_connection makes the broker notice deterministically
                let h = self.sim.conns[c].handle.clone().expect("a live connection keeps its handle");
                let mut handle = self.sim.handle.clone();
                let _ = self.sim.run_aux(async move { handle.shutdown_connection(&h).await }, false);
                let obs = self.observe();
                self.event(format!("kshut {}", c), obs);
            }
        }
        self.sim.conns[c].gone = true;
        self.forget_conn(c);
    }

    fn check_stats(&mut self) {
        let mut handle = self.sim.handle.clone();
        let st = self.sim.run_aux(async move { handle.take_statistics().await }, false);
        if let Some(Ok(st)) = st {
            let line = format!("conns={} objs={} svcs={} chans={} lsn={} sent={} recv={} gauges=ok", st.num_connections(), st.num_objects(), st.num_services(), st.num_channels(), st.num_bus_listeners(), st.messages_sent(), st.messages_received());
            self.out.emit("bstats", &line);
        }
    }

    fn close_all(&mut self) {
        for c in self.live_conns() {
            self.sim.client_send(c, Message::Shutdown(Shutdown));
            self.sim.settle(false);
            let mut obs = self.observe();
            obs = obs.replace(&format!(" | {}: shutdown", c), "");
            self.event(format!("cshut {}", c), obs);
            self.sim.conns[c].gone = true;
            self.forget_conn(c);
        }
        // dropped tasks that the broker has not noticed yet keep it alive: make it notice
        for c in 0..self.sim.conns.len() {
            if self.sim.conns[c].task.is_none() && !self.sim.broker.done() {
                let Some(h) = self.sim.conns[c].handle.clone() else { continue };
                let mut handle = self.sim.handle.clone();
                let _ = self.sim.run_aux(async move { handle.shutdown_connection(&h).await }, false);
                let obs = self.observe();
                self.event(format!("kshut {}", c), obs);
            }
        }
    }

    fn finish(&mut self) {
        // C11: whatever happened, every connection that is still alive is served
        for c in self.live_conns() {
            let s = self.next_serial();
            self.sim.client_send(c, Message::Sync(Sync { serial: s }));
            self.sim.settle(false);
            let obs = self.observe();
            if !obs.contains(&format!("{}: syncReply {}", c, s)) && !obs.contains(&format!("; syncReply {}", s)) {
                let t = self.trace.join(" / ");
                self.out.fail("C11", &format!("live connection {} got no SyncReply", c), &t);
            }
            self.event(format!("msg {} sync {}", c, s), obs);
        }
        // C09: all connections gone => no residual state, idle shutdown completes
        if self.rng.chance(1, 2) {
            let mut handle = self.sim.handle.clone();
            let _ = self.sim.run_aux(async move { handle.shutdown_idle().await }, false);
            let obs = self.observe();
            self.event("ishut".to_string(), obs);
            self.close_all();
        } else {
            self.close_all();
            let mut handle = self.sim.handle.clone();
            let st = self.sim.run_aux(async move { handle.take_statistics().await }, false);
            if let Some(Ok(st)) = st {
                let line = format!("conns={} objs={} svcs={} chans={} lsn={} sent={} recv={} gauges=ok", st.num_connections(), st.num_objects(), st.num_services(), st.num_channels(), st.num_bus_listeners(), st.messages_sent(), st.messages_received());
                if st.num_connections() != 0 || st.num_objects() != 0 || st.num_services() != 0 || st.num_channels() != 0 || st.num_bus_listeners() != 0 {
                    let t = self.trace.join(" / ");
                    self.out.fail("C09", &format!("all connections are gone but the statistics say {}", line), &t);
                }
                self.out.emit("bstats", &line);
            }
            let mut handle = self.sim.handle.clone();
            let _ = self.sim.run_aux(async move { handle.shutdown_idle().await }, false);
            let obs = self.observe();
            self.event("ishut".to_string(), obs);
        }
        self.sim.settle(false);
        if !self.sim.broker.done() {
            let t = self.trace.join(" / ");
            self.out.fail("C09", "idle shutdown did not complete after all connections ended", &t);
        }
    }
}

fn run_scenario(out: &mut Out, seed: u64, steps: u64, profile: &str) {
    out.emit("breset", "ok");
    let mut sc = Scenario {
        sim: Sim::new(),
        names: Names::new(),
        pools: Pools::default(),
        reuse_next: None,
        touched: Vec::new(),
        force_ck: None,
        force_conn: None,
        rng: Rng::new(seed),
        out,
        serial: 100,
        trace: vec![],
        used_serials: HashSet::new(),
        registered_types: HashSet::new(),
        profile: profile.to_string(),
    };
    for _ in 0..steps {
        if sc.sim.broker.done() {
            break;
        }
        sc.step();
    }
    sc.check_stats();
    sc.finish();
}

fn main() {
    let args: Vec<String> = std::env::args().collect();
    if args.len() < 4 {
        eprintln!("usage: broker <outdir> <seed> <cases> [profile]");
        std::process::exit(2);
    }
    let outdir = &args[1];
    let seed: u64 = args[2].parse().expect("seed");
    let cases: u64 = args[3].parse().expect("cases");
    let profile = args.get(4).cloned().unwrap_or_else(|| "mixed".to_string());
    std::fs::create_dir_all(outdir).unwrap();
    let mk = |n: &str| BufWriter::new(File::create(format!("{}/{}", outdir, n)).unwrap());
    let mut out = Out { req: mk("req.txt"), rust: mk("rust.txt"), oracle: mk("oracle.txt"), pending: None, lines: 0, oracle_fails: 0, stats: BTreeMap::new(), samples: vec![] };
    let mut rng = Rng::new(seed);
    for i in 0..cases {
        let s = rng.next();
        let prof = if profile == "mixed" { ["normal", "faults", "abuse"][(i % 3) as usize] } else { profile.as_str() };
        let steps = 60 + (s % 340);
        let r = catch_unwind(AssertUnwindSafe(|| run_scenario(&mut out, s, steps, prof)));
        if r.is_err() {
            out.fail("C11", "panic while driving the broker", &format!("scenario seed {} profile {}", s, prof));
            if let Some(p) = out.pending.take() {
                out.emit(&p, "PANIC");
            }
        }
    }
    out.req.flush().unwrap();
    out.rust.flush().unwrap();
    out.oracle.flush().unwrap();
    let mut stats = String::from("{\n");
    write!(stats, "  \"lines\": {},\n  \"oracle_fails\": {},\n  \"cases\": {},\n", out.lines, out.oracle_fails, cases).unwrap();
    write!(stats, "  \"samples\": [{}],\n", out.samples.iter().map(|s| format!("{:?}", s)).collect::<Vec<_>>().join(", ")).unwrap();
    write!(stats, "  \"distribution\": {{{}}}\n}}\n", out.stats.iter().map(|(k, v)| format!("{:?}: {}", k, v)).collect::<Vec<_>>().join(", ")).unwrap();
    std::fs::write(format!("{}/stats.json", outdir), stats).unwrap();
}
