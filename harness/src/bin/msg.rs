//! Correspondence + oracle harness for the message codec (C08).
//!
//! Usage: msg <outdir> <seed> <cases> [corpus-file]
//! Request lines: `frame <hex>`; answer: `ok <hex of the re-serialised parsed message>` | `err <class>`.

use aldrin_core::message::{Message, MessageDeserializeError, MessageOps};
use arbitrary::{Arbitrary, Unstructured};
use bytes::BytesMut;
use std::collections::BTreeMap;
use std::fmt::Write as _;
use std::fs::File;
use std::io::{BufWriter, Write};
use std::panic::{catch_unwind, AssertUnwindSafe};
use verif_harness::{hex, unhex, Rng};

fn de_err(e: MessageDeserializeError) -> &'static str {
    match e {
        MessageDeserializeError::InvalidSerialization => "invalid",
        MessageDeserializeError::UnexpectedEoi => "eoi",
        MessageDeserializeError::UnexpectedMessage => "unexpected",
        MessageDeserializeError::TrailingData => "trailing",
    }
}

struct Out {
    req: BufWriter<File>,
    rust: BufWriter<File>,
    oracle: BufWriter<File>,
    lines: usize,
    oracle_fails: usize,
    stats: BTreeMap<String, u64>,
    samples: Vec<String>,
    kinds_seen: std::collections::BTreeSet<u8>,
    accepted_mutants: u64,
}

impl Out {
    fn emit(&mut self, req: &str, rust: &str) {
        writeln!(self.req, "{}", req).unwrap();
        writeln!(self.rust, "{}", rust).unwrap();
        self.lines += 1;
        if self.samples.len() < 10 && req.len() < 200 && self.lines % 211 == 1 {
            self.samples.push(format!("{} => {}", req, rust));
        }
    }
    fn fail(&mut self, what: &str, input: &str) {
        writeln!(self.oracle, "FAIL C08 line={} {} input={}", self.lines, what, input).unwrap();
        self.oracle_fails += 1;
    }
    fn count(&mut self, key: &str) {
        *self.stats.entry(key.to_string()).or_insert(0) += 1;
    }
}

/// Parse a frame with the real code; answer line + oracles on what was accepted.
fn frame_case(out: &mut Out, fr: &[u8], origin: &str) {
    let h = hex(fr);
    let r = catch_unwind(AssertUnwindSafe(|| Message::deserialize_message(BytesMut::from(fr))));
    let ans = match r {
        Err(_) => {
            out.fail("panic in deserialize_message", &h);
            "panic".to_string()
        }
        Ok(Err(e)) => {
            out.count(&format!("{}.err.{}", origin, de_err(e)));
            format!("err {}", de_err(e))
        }
        Ok(Ok(m)) => {
            out.count(&format!("{}.ok", origin));
            if origin != "valid" {
                out.accepted_mutants += 1;
            }
            // accepted => prefix matches, kind known, re-serialises to a frame parsing to the same message
            if fr.len() < 5 || u32::from_le_bytes([fr[0], fr[1], fr[2], fr[3]]) as usize != fr.len() {
                out.fail("accepted a frame whose length prefix does not match", &h);
            }
            match catch_unwind(AssertUnwindSafe(|| m.clone().serialize_message())) {
                Ok(Ok(fr2)) => {
                    if u32::from_le_bytes([fr2[0], fr2[1], fr2[2], fr2[3]]) as usize != fr2.len() {
                        out.fail("serialized frame has a wrong length prefix", &h);
                    }
                    match Message::deserialize_message(fr2.clone()) {
                        Ok(m2) if m2 == m => {}
                        Ok(_) => out.fail("re-serialised frame parses to a different message", &h),
                        Err(e) => out.fail(&format!("re-serialised frame is rejected: {}", de_err(e)), &h),
                    }
                    format!("ok {}", hex(&fr2))
                }
                Ok(Err(e)) => {
                    out.fail(&format!("accepted message does not serialise: {:?}", e), &h);
                    "ok unserializable".to_string()
                }
                Err(_) => {
                    out.fail("panic in serialize_message", &h);
                    "panic".to_string()
                }
            }
        }
    };
    out.emit(&format!("frame {}", h), &ans);
}

fn gen_message(rng: &mut Rng) -> Option<Message> {
    // biased raw material: boundary bytes are frequent so that serials/ids/capacities hit 0, 251..255, u32::MAX
    let n = rng.range(8, 160) as usize;
    let mut raw = Vec::with_capacity(n);
    for _ in 0..n {
        raw.push(match rng.below(6) {
            0 => 0,
            1 => 255,
            2 => *rng.pick(&[1u8, 2, 127, 128, 250, 251, 252, 253, 254]),
            _ => rng.next() as u8,
        });
    }
    let mut u = Unstructured::new(&raw);
    Message::arbitrary(&mut u).ok()
}

fn mutate(rng: &mut Rng, fr: &[u8]) -> Vec<u8> {
    let mut b = fr.to_vec();
    let fix_prefix = rng.chance(1, 2);
    let n = rng.range(1, 3);
    for _ in 0..n {
        if b.is_empty() {
            b.push(rng.next() as u8);
            continue;
        }
        let i = rng.below(b.len() as u64) as usize;
        match rng.below(7) {
            0 => b[i] ^= 1 << rng.below(8),
            1 => b[i] = rng.next() as u8,
            2 => b[i] = *rng.pick(&[0u8, 1, 2, 3, 5, 6, 62, 63, 64, 250, 251, 252, 253, 254, 255]),
            3 => b.truncate(i),
            4 => b.insert(i, rng.next() as u8),
            5 => {
                b.remove(i);
            }
            _ => b.push(rng.next() as u8),
        }
    }
    if fix_prefix && b.len() >= 4 {
        let l = (b.len() as u32).to_le_bytes();
        b[..4].copy_from_slice(&l);
    }
    b
}

fn main() {
    let args: Vec<String> = std::env::args().collect();
    if args.len() < 4 {
        eprintln!("usage: msg <outdir> <seed> <cases> [corpus-file]");
        std::process::exit(2);
    }
    std::panic::set_hook(Box::new(|_| {}));
    let outdir = &args[1];
    let seed: u64 = args[2].parse().expect("seed");
    let cases: u64 = args[3].parse().expect("cases");
    std::fs::create_dir_all(outdir).unwrap();
    let mk = |n: &str| BufWriter::new(File::create(format!("{}/{}", outdir, n)).unwrap());
    let mut out = Out {
        req: mk("req.txt"),
        rust: mk("rust.txt"),
        oracle: mk("oracle.txt"),
        lines: 0,
        oracle_fails: 0,
        stats: BTreeMap::new(),
        samples: vec![],
        kinds_seen: Default::default(),
        accepted_mutants: 0,
    };
    if let Some(corpus) = args.get(4) {
        if let Ok(text) = std::fs::read_to_string(corpus) {
            for line in text.lines() {
                let mut it = line.split_whitespace();
                if let (Some("frame"), Some(h)) = (it.next(), it.next()) {
                    if let Some(bs) = unhex(h) {
                        frame_case(&mut out, &bs, "corpus");
                    }
                }
            }
        }
    }
    let mut rng = Rng::new(seed);
    let mut pool: Vec<Vec<u8>> = Vec::new();
    let mut i = 0;
    while i < cases {
        let mut r = rng.fork();
        match i % 4 {
            0 | 1 => {
                let Some(m) = gen_message(&mut r) else { continue };
                let k: u8 = m.kind().into();
                out.kinds_seen.insert(k);
                out.count(&format!("kind.{:02}", k));
                let ser = catch_unwind(AssertUnwindSafe(|| m.clone().serialize_message()));
                match ser {
                    Ok(Ok(fr)) => {
                        // C08 oracle: round trip with identical payload, prefix = length
                        if u32::from_le_bytes([fr[0], fr[1], fr[2], fr[3]]) as usize != fr.len() {
                            out.fail("length prefix differs from frame length", &hex(&fr));
                        }
                        match Message::deserialize_message(fr.clone()) {
                            Ok(m2) => {
                                if m2 != m {
                                    out.fail("round trip yields a different message", &hex(&fr));
                                }
                            }
                            Err(e) => out.fail(&format!("round trip rejected: {}", de_err(e)), &hex(&fr)),
                        }
                        if pool.len() < 600 {
                            pool.push(fr.to_vec());
                        } else {
                            let j = r.below(pool.len() as u64) as usize;
                            pool[j] = fr.to_vec();
                        }
                        frame_case(&mut out, &fr, "valid");
                    }
                    Ok(Err(e)) => out.fail(&format!("a generated message does not serialise: {:?}", e), &format!("{:?}", m)),
                    Err(_) => out.fail("panic in serialize_message", &format!("{:?}", m)),
                }
            }
            2 => {
                if pool.is_empty() {
                    i += 1;
                    continue;
                }
                let base = r.pick(&pool).clone();
                let m = mutate(&mut r, &base);
                frame_case(&mut out, &m, "mutant");
            }
            _ => {
                let n = r.range(0, 40) as usize;
                let mut b = r.bytes(n);
                if n >= 5 && r.chance(3, 4) {
                    let l = (n as u32).to_le_bytes();
                    b[..4].copy_from_slice(&l);
                    b[4] = r.below(66) as u8;
                }
                frame_case(&mut out, &b, "random");
            }
        }
        i += 1;
    }
    out.req.flush().unwrap();
    out.rust.flush().unwrap();
    out.oracle.flush().unwrap();
    let mut stats = String::from("{\n");
    write!(stats, "  \"lines\": {},\n  \"oracle_fails\": {},\n  \"cases\": {},\n  \"kinds_seen\": {},\n  \"accepted_mutants\": {},\n",
        out.lines, out.oracle_fails, cases, out.kinds_seen.len(), out.accepted_mutants).unwrap();
    write!(stats, "  \"samples\": [{}],\n", out.samples.iter().map(|s| format!("{:?}", s)).collect::<Vec<_>>().join(", ")).unwrap();
    write!(stats, "  \"distribution\": {{{}}}\n}}\n", out.stats.iter().map(|(k, v)| format!("{:?}: {}", k, v)).collect::<Vec<_>>().join(", ")).unwrap();
    std::fs::write(format!("{}/stats.json", outdir), stats).unwrap();
}
