//! Reads the schema corpus (schemas/*.aldrin) with aldrin-parser and writes, for the `typed` harness
//! binary, (1) the `aldrin::generate!` invocations that make rustc compile what the code generator
//! produces for them and (2) a registry with, per generated struct / enum / newtype, a description
//! of its schema type (taken from the parser's AST, not from the generated code) and a function that
//! deserializes bytes as that type and serializes the result again.

use aldrin_parser::ast::{ArrayLenValue, Definition, EnumVariant, EnumFallback, NamedRefKind, ServiceItem, StructFallback, StructField, TypeName, TypeNameKind, TypeNameOrInline};
use aldrin_parser::{FilesystemResolver, Parser};
use std::fmt::Write as _;
use std::path::PathBuf;

fn ty(t: &TypeName, schema: &str) -> String {
    match t.kind() {
        TypeNameKind::Bool => "bool".into(),
        TypeNameKind::U8 => "u8".into(),
        TypeNameKind::I8 => "i8".into(),
        TypeNameKind::U16 => "u16".into(),
        TypeNameKind::I16 => "i16".into(),
        TypeNameKind::U32 => "u32".into(),
        TypeNameKind::I32 => "i32".into(),
        TypeNameKind::U64 => "u64".into(),
        TypeNameKind::I64 => "i64".into(),
        TypeNameKind::F32 => "f32".into(),
        TypeNameKind::F64 => "f64".into(),
        TypeNameKind::String => "string".into(),
        TypeNameKind::Uuid => "uuid".into(),
        TypeNameKind::ObjectId => "object_id".into(),
        TypeNameKind::ServiceId => "service_id".into(),
        TypeNameKind::Value => "value".into(),
        TypeNameKind::Option(t) => format!("opt({})", ty(t, schema)),
        TypeNameKind::Box(t) => format!("box({})", ty(t, schema)),
        TypeNameKind::Vec(t) => format!("vec({})", ty(t, schema)),
        TypeNameKind::Bytes => "bytes".into(),
        TypeNameKind::Map(k, t) => format!("map({},{})", ty(k, schema), ty(t, schema)),
        TypeNameKind::Set(t) => format!("set({})", ty(t, schema)),
        TypeNameKind::Sender(t) => format!("sender({})", ty(t, schema)),
        TypeNameKind::Receiver(t) => format!("receiver({})", ty(t, schema)),
        TypeNameKind::Lifetime => "lifetime".into(),
        TypeNameKind::Unit => "unit".into(),
        TypeNameKind::Result(a, b) => format!("result({},{})", ty(a, schema), ty(b, schema)),
        TypeNameKind::Array(t, len) => {
            let n = match len.value() {
                ArrayLenValue::Literal(l) => l.value().to_string(),
                ArrayLenValue::Ref(_) => panic!("array lengths by constant are not used in the corpus"),
            };
            format!("arr({},{})", ty(t, schema), n)
        }
        TypeNameKind::Ref(r) => match r.kind() {
            NamedRefKind::Intern(id) => format!("@{}.{}", schema, id.value()),
            NamedRefKind::Extern(s, id) => format!("@{}.{}", s.value(), id.value()),
        },
    }
}

/// `snake_case` to `CamelCase` for the item names used in the corpus (lower-case words separated by `_`).
fn camel(s: &str) -> String {
    s.split('_').filter(|w| !w.is_empty()).map(|w| {
        let mut c = w.chars();
        let f = c.next().unwrap();
        assert!(f.is_ascii_lowercase() && c.clone().all(|x| x.is_ascii_lowercase() || x.is_ascii_digit()), "corpus item name {} is not plain snake_case", s);
        f.to_ascii_uppercase().to_string() + c.as_str()
    }).collect()
}

fn struct_desc(fields: &[StructField], fallback: Option<&StructFallback>, schema: &str) -> String {
    let mut d = String::from("struct{");
    for fld in fields {
        write!(d, "{}:{}:{}:{};", fld.id().value(), if fld.required() { "r" } else { "o" }, fld.name().value(), ty(fld.field_type(), schema)).unwrap();
    }
    d.push('}');
    if fallback.is_some() {
        d.push_str("fb");
    }
    d
}

fn enum_desc(variants: &[EnumVariant], fallback: Option<&EnumFallback>, schema: &str) -> String {
    let mut d = String::from("enum{");
    for v in variants {
        write!(d, "{}:{}:{};", v.id().value(), v.name().value(), v.variant_type().map_or("-".to_string(), |t| ty(t, schema))).unwrap();
    }
    d.push('}');
    if fallback.is_some() {
        d.push_str("fb");
    }
    d
}

/// What `Introspectable::layout()` of the generated type has to say, derived from the AST: ids, names, required
/// flags, types (`<…>`, resolved to lexical ids by the harness), fallback names; sorted by id like the IR.
fn struct_layout(kind_name: &str, fields: &[StructField], fallback: Option<&StructFallback>, schema: &str) -> String {
    let mut fs: Vec<(u32, String)> = fields.iter().map(|f| (f.id().value().parse().unwrap(),
        format!("{}:{}:{}:<{}>;", f.id().value(), f.name().value(), if f.required() { "r" } else { "o" }, ty(f.field_type(), schema)))).collect();
    fs.sort();
    format!("struct {} {{{}}} fb={}", kind_name, fs.into_iter().map(|f| f.1).collect::<String>(), fallback.map_or("-", |f| f.name().value()))
}

fn enum_layout(kind_name: &str, variants: &[EnumVariant], fallback: Option<&EnumFallback>, schema: &str) -> String {
    let mut vs: Vec<(u32, String)> = variants.iter().map(|v| (v.id().value().parse().unwrap(),
        format!("{}:{}:{};", v.id().value(), v.name().value(), v.variant_type().map_or("-".to_string(), |t| format!("<{}>", ty(t, schema)))))).collect();
    vs.sort();
    format!("enum {} {{{}}} fb={}", kind_name, vs.into_iter().map(|v| v.1).collect::<String>(), fallback.map_or("-", |f| f.name().value()))
}

fn main() {
    let base = PathBuf::from(std::env::var("CARGO_MANIFEST_DIR").unwrap()).join("schemas");
    println!("cargo:rerun-if-env-changed=TYPED_SCHEMA_DIR");
    let mut dirs = vec![base];
    if let Ok(extra) = std::env::var("TYPED_SCHEMA_DIR") {
        if !extra.is_empty() {
            dirs.push(PathBuf::from(extra));
        }
    }
    let mut files: Vec<PathBuf> = vec![];
    for dir in &dirs {
        println!("cargo:rerun-if-changed={}", dir.display());
        files.extend(std::fs::read_dir(dir).unwrap().map(|e| e.unwrap().path()).filter(|p| p.extension().map_or(false, |e| e == "aldrin")));
    }
    files.sort();
    let mut out = String::new();
    let mut reg = String::new();
    let mut svcs = String::new();
    let mut paths = vec![];
    for f in &files {
        println!("cargo:rerun-if-changed={}", f.display());
        let parser = Parser::parse(FilesystemResolver::with_include_paths(f, dirs.iter()));
        assert!(parser.errors().is_empty(), "schema corpus: {} has errors: {:?}", f.display(), parser.errors());
        let schema = parser.main_schema();
        let sname = schema.name().to_string();
        paths.push(format!("{:?}", f.display().to_string()));
        let mut add = |name: String, desc: String, lay: String| {
            writeln!(reg, "        TypeEntry {{ name: \"{s}.{n}\", desc: \"{d}\", rt: |sv| rt::<gen::r#{s}::r#{n}>(sv), lay: \"{l}\", layout: || <gen::r#{s}::r#{n} as aldrin_core::introspection::Introspectable>::layout() }},", s = sname, n = name, d = desc, l = lay).unwrap();
        };
        for def in schema.definitions() {
            match def {
                Definition::Struct(s) => add(s.name().value().to_string(), struct_desc(s.fields(), s.fallback(), &sname),
                    struct_layout(&format!("{}.{}", sname, s.name().value()), s.fields(), s.fallback(), &sname)),
                Definition::Enum(e) => add(e.name().value().to_string(), enum_desc(e.variants(), e.fallback(), &sname),
                    enum_layout(&format!("{}.{}", sname, e.name().value()), e.variants(), e.fallback(), &sname)),
                Definition::Newtype(n) => add(n.name().value().to_string(), format!("newtype({})", ty(n.target_type(), &sname)),
                    format!("newtype {}.{} <{}>", sname, n.name().value(), ty(n.target_type(), &sname))),
                Definition::Service(svc) => {
                    // inline structs and enums of functions and events become types named after the service and the item
                    let sn = svc.name().value();
                    // returns how the item refers to the type
                    let mut inline = |t: &TypeNameOrInline, name: String| -> String {
                        match t {
                            TypeNameOrInline::TypeName(t) => format!("<{}>", ty(t, &sname)),
                            TypeNameOrInline::Struct(s) => {
                                add(name.clone(), struct_desc(s.fields(), s.fallback(), &sname), struct_layout(&format!("{}.{}", sname, name), s.fields(), s.fallback(), &sname));
                                format!("<@{}.{}>", sname, name)
                            }
                            TypeNameOrInline::Enum(e) => {
                                add(name.clone(), enum_desc(e.variants(), e.fallback(), &sname), enum_layout(&format!("{}.{}", sname, name), e.variants(), e.fallback(), &sname));
                                format!("<@{}.{}>", sname, name)
                            }
                        }
                    };
                    let mut fns: Vec<(u32, String)> = vec![];
                    let mut evs: Vec<(u32, String)> = vec![];
                    for item in svc.items() {
                        match item {
                            ServiceItem::Function(f) => {
                                let fname = camel(f.name().value());
                                let a = f.args().map_or("-".to_string(), |p| inline(p.part_type(), format!("{sn}{fname}Args")));
                                let o = f.ok().map_or("-".to_string(), |p| inline(p.part_type(), format!("{sn}{fname}Ok")));
                                let e = f.err().map_or("-".to_string(), |p| inline(p.part_type(), format!("{sn}{fname}Error")));
                                fns.push((f.id().value().parse().unwrap(), format!("{}:{}:{}:{}:{};", f.id().value(), f.name().value(), a, o, e)));
                            }
                            ServiceItem::Event(e) => {
                                let t = e.event_type().map_or("-".to_string(), |t| inline(t, format!("{sn}{}Args", camel(e.name().value()))));
                                evs.push((e.id().value().parse().unwrap(), format!("{}:{}:{};", e.id().value(), e.name().value(), t)));
                            }
                        }
                    }
                    fns.sort();
                    evs.sort();
                    writeln!(svcs, "        SvcEntry {{ name: \"{s}.{n}\", lay: \"service {s}.{n} uuid={u} version={v} fns{{{f}}} evs{{{e}}} fnfb={ff} evfb={ef}\", layout: || <gen::r#{s}::r#{n} as aldrin_core::introspection::Introspectable>::layout() }},",
                        s = sname, n = sn, u = svc.uuid().value(), v = svc.version().value(),
                        f = fns.into_iter().map(|x| x.1).collect::<String>(), e = evs.into_iter().map(|x| x.1).collect::<String>(),
                        ff = svc.function_fallback().map_or("-", |f| f.name().value()), ef = svc.event_fallback().map_or("-", |f| f.name().value())).unwrap();
                }
                _ => {}
            }
        }
    }
    writeln!(out, "pub mod gen {{\n    aldrin::generate!({}, {}, introspection = true);\n}}", paths.join(", "), dirs.iter().map(|d| format!("include = {:?}", d.display().to_string())).collect::<Vec<_>>().join(", ")).unwrap();
    writeln!(out, "pub fn registry() -> Vec<TypeEntry> {{\n    vec![\n{}    ]\n}}", reg).unwrap();
    writeln!(out, "pub fn services() -> Vec<SvcEntry> {{\n    vec![\n{}    ]\n}}", svcs).unwrap();
    let dest = PathBuf::from(std::env::var("OUT_DIR").unwrap()).join("typed_gen.rs");
    std::fs::write(dest, out).unwrap();
}
