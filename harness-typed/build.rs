//! Reads the schema corpus (schemas/*.aldrin) with aldrin-parser and writes, for the `typed` harness
//! binary, (1) the `aldrin::generate!` invocations that make rustc compile what the code generator
//! produces for them and (2) a registry with, per generated struct / enum / newtype, a description
//! of its schema type (taken from the parser's AST, not from the generated code) and a function that
//! deserializes bytes as that type and serializes the result again.

use aldrin_parser::ast::{ArrayLenValue, Definition, EnumVariant, EnumFallback, NamedRefKind, ServiceItem, StructFallback, StructField, TypeName, TypeNameKind, TypeNameOrInline};
use aldrin_parser::{FilesystemResolver, Parser};
use std::fmt::Write as _;
use std::path::PathBuf;

fn ty(t: &TypeName, schema: &str) -> String {
    match t.kind() {
        TypeNameKind::Bool => "bool".into(),
        TypeNameKind::U8 => "u8".into(),
        TypeNameKind::I8 => "i8".into(),
        TypeNameKind::U16 => "u16".into(),
        TypeNameKind::I16 => "i16".into(),
        TypeNameKind::U32 => "u32".into(),
        TypeNameKind::I32 => "i32".into(),
        TypeNameKind::U64 => "u64".into(),
        TypeNameKind::I64 => "i64".into(),
        TypeNameKind::F32 => "f32".into(),
        TypeNameKind::F64 => "f64".into(),
        TypeNameKind::String => "string".into(),
        TypeNameKind::Uuid => "uuid".into(),
        TypeNameKind::ObjectId => "object_id".into(),
        TypeNameKind::ServiceId => "service_id".into(),
        TypeNameKind::Value => "value".into(),
        TypeNameKind::Option(t) => format!("opt({})", ty(t, schema)),
        TypeNameKind::Box(t) => format!("box({})", ty(t, schema)),
        TypeNameKind::Vec(t) => format!("vec({})", ty(t, schema)),
        TypeNameKind::Bytes => "bytes".into(),
        TypeNameKind::Map(k, t) => format!("map({},{})", ty(k, schema), ty(t, schema)),
        TypeNameKind::Set(t) => format!("set({})", ty(t, schema)),
        TypeNameKind::Sender(t) => format!("sender({})", ty(t, schema)),
        TypeNameKind::Receiver(t) => format!("receiver({})", ty(t, schema)),
        TypeNameKind::Lifetime => "lifetime".into(),
        TypeNameKind::Unit => "unit".into(),
        TypeNameKind::Result(a, b) => format!("result({},{})", ty(a, schema), ty(b, schema)),
        TypeNameKind::Array(t, len) => {
            let n = match len.value() {
                ArrayLenValue::Literal(l) => l.value().to_string(),
                ArrayLenValue::Ref(_) => panic!("array lengths by constant are not used in the corpus"),
            };
            format!("arr({},{})", ty(t, schema), n)
        }
        TypeNameKind::Ref(r) => match r.kind() {
            NamedRefKind::Intern(id) => format!("@{}.{}", schema, id.value()),
            NamedRefKind::Extern(s, id) => format!("@{}.{}", s.value(), id.value()),
        },
    }
}

/// `snake_case` to `CamelCase` for the item names used in the corpus (lower-case words separated by `_`).
fn camel(s: &str) -> String {
    s.split('_').filter(|w| !w.is_empty()).map(|w| {
        let mut c = w.chars();
        let f = c.next().unwrap();
        assert!(f.is_ascii_lowercase() && c.clone().all(|x| x.is_ascii_lowercase() || x.is_ascii_digit()), "corpus item name {} is not plain snake_case", s);
        f.to_ascii_uppercase().to_string() + c.as_str()
    }).collect()
}

fn struct_desc(fields: &[StructField], fallback: Option<&StructFallback>, schema: &str) -> String {
    let mut d = String::from("struct{");
    for fld in fields {
        write!(d, "{}:{}:{}:{};", fld.id().value(), if fld.required() { "r" } else { "o" }, fld.name().value(), ty(fld.field_type(), schema)).unwrap();
    }
    d.push('}');
    if fallback.is_some() {
        d.push_str("fb");
    }
    d
}

fn enum_desc(variants: &[EnumVariant], fallback: Option<&EnumFallback>, schema: &str) -> String {
    let mut d = String::from("enum{");
    for v in variants {
        write!(d, "{}:{}:{};", v.id().value(), v.name().value(), v.variant_type().map_or("-".to_string(), |t| ty(t, schema))).unwrap();
    }
    d.push('}');
    if fallback.is_some() {
        d.push_str("fb");
    }
    d
}

fn main() {
    let base = PathBuf::from(std::env::var("CARGO_MANIFEST_DIR").unwrap()).join("schemas");
    println!("cargo:rerun-if-env-changed=TYPED_SCHEMA_DIR");
    let mut dirs = vec![base];
    if let Ok(extra) = std::env::var("TYPED_SCHEMA_DIR") {
        if !extra.is_empty() {
            dirs.push(PathBuf::from(extra));
        }
    }
    let mut files: Vec<PathBuf> = vec![];
    for dir in &dirs {
        println!("cargo:rerun-if-changed={}", dir.display());
        files.extend(std::fs::read_dir(dir).unwrap().map(|e| e.unwrap().path()).filter(|p| p.extension().map_or(false, |e| e == "aldrin")));
    }
    files.sort();
    let mut out = String::new();
    let mut reg = String::new();
    let mut paths = vec![];
    for f in &files {
        println!("cargo:rerun-if-changed={}", f.display());
        let parser = Parser::parse(FilesystemResolver::with_include_paths(f, dirs.iter()));
        assert!(parser.errors().is_empty(), "schema corpus: {} has errors: {:?}", f.display(), parser.errors());
        let schema = parser.main_schema();
        let sname = schema.name().to_string();
        paths.push(format!("{:?}", f.display().to_string()));
        let mut add = |name: String, desc: String| {
            writeln!(reg, "        TypeEntry {{ name: \"{s}.{n}\", desc: \"{d}\", rt: |sv| rt::<gen::r#{s}::r#{n}>(sv) }},", s = sname, n = name, d = desc).unwrap();
        };
        for def in schema.definitions() {
            match def {
                Definition::Struct(s) => add(s.name().value().to_string(), struct_desc(s.fields(), s.fallback(), &sname)),
                Definition::Enum(e) => add(e.name().value().to_string(), enum_desc(e.variants(), e.fallback(), &sname)),
                Definition::Newtype(n) => add(n.name().value().to_string(), format!("newtype({})", ty(n.target_type(), &sname))),
                Definition::Service(svc) => {
                    // inline structs and enums of functions and events become types named after the service and the item
                    let sn = svc.name().value();
                    let mut inline = |t: &TypeNameOrInline, name: String| match t {
                        TypeNameOrInline::TypeName(_) => {}
                        TypeNameOrInline::Struct(s) => add(name, struct_desc(s.fields(), s.fallback(), &sname)),
                        TypeNameOrInline::Enum(e) => add(name, enum_desc(e.variants(), e.fallback(), &sname)),
                    };
                    for item in svc.items() {
                        match item {
                            ServiceItem::Function(f) => {
                                let fname = camel(f.name().value());
                                if let Some(p) = f.args() { inline(p.part_type(), format!("{sn}{fname}Args")); }
                                if let Some(p) = f.ok() { inline(p.part_type(), format!("{sn}{fname}Ok")); }
                                if let Some(p) = f.err() { inline(p.part_type(), format!("{sn}{fname}Error")); }
                            }
                            ServiceItem::Event(e) => {
                                if let Some(t) = e.event_type() { inline(t, format!("{sn}{}Args", camel(e.name().value()))); }
                            }
                        }
                    }
                }
                _ => {}
            }
        }
    }
    writeln!(out, "pub mod gen {{\n    aldrin::generate!({}, {}, introspection = true);\n}}", paths.join(", "), dirs.iter().map(|d| format!("include = {:?}", d.display().to_string())).collect::<Vec<_>>().join(", ")).unwrap();
    writeln!(out, "pub fn registry() -> Vec<TypeEntry> {{\n    vec![\n{}    ]\n}}", reg).unwrap();
    let dest = PathBuf::from(std::env::var("OUT_DIR").unwrap()).join("typed_gen.rs");
    std::fs::write(dest, out).unwrap();
}
