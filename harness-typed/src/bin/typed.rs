//! Correspondence + oracle harness for generated Rust types (C16).
//!
//! build.rs turns the schema corpus (schemas/*.aldrin) into `aldrin::generate!` invocations — so the
//! harness only builds if the code generator's output compiles — and a registry: per generated type a
//! description of its schema type (from the parser's AST) and a deserialize-then-serialize function.
//! Here, for every type, conforming dynamic values are generated from the description (both container
//! encodings), systematically damaged (missing required field, wrongly typed field, unknown field id,
//! unknown variant, wrong variant payload, Option wrapping), pushed through the generated type, and the
//! re-encoded result is printed canonically. The Lean model (`Model/Typed.lean`) answers the same lines.
//!
//! Usage: typed <outdir> <seed> <cases>

use aldrin_core::introspection::ir::LayoutIr;
use aldrin_core::introspection::LexicalId;
use aldrin_core::{Bytes, Enum, ObjectCookie, ObjectId, ObjectUuid, SerializedValue, ServiceCookie, ServiceId, ServiceUuid, Struct, Value};
use std::collections::{BTreeMap, HashMap, HashSet};
use std::fmt::Write as _;
use std::fs::File;
use std::io::{BufWriter, Write};
use std::panic::{catch_unwind, AssertUnwindSafe};

use verif_harness::text::value_text;
use verif_harness::valuegen::{gen_signed, gen_string, gen_tree, gen_unsigned, gen_uuid, ser_v1, ser_v2};
use verif_harness::{hex, Rng};

pub struct TypeEntry {
    pub name: &'static str,
    pub desc: &'static str,
    pub rt: fn(&SerializedValue) -> Result<SerializedValue, String>,
    /// what the type's introspection layout has to be, from the schema (types in `<…>`)
    pub lay: &'static str,
    pub layout: fn() -> LayoutIr,
}

pub struct SvcEntry {
    pub name: &'static str,
    pub lay: &'static str,
    pub layout: fn() -> LayoutIr,
}

thread_local! {
    /// set when serializing a decoded value by reference gives something else than serializing it by value
    static REF_MISMATCH: std::cell::Cell<bool> = const { std::cell::Cell::new(false) };
}

fn rt<T>(sv: &SerializedValue) -> Result<SerializedValue, String>
where
    T: aldrin_core::Deserialize<T> + aldrin_core::Serialize<T> + aldrin_core::tags::PrimaryTag<Tag = T> + aldrin_core::tags::Tag,
    for<'a> &'a T: aldrin_core::Serialize<T>,
{
    let v: T = sv.deserialize_as::<T, T>().map_err(|e| format!("{:?}", e))?;
    let by_ref = SerializedValue::serialize_as::<T>(&v).map_err(|e| format!("ser-ref:{:?}", e));
    let by_val = SerializedValue::serialize_as::<T>(v).map_err(|e| format!("ser:{:?}", e))?;
    let same = match &by_ref {
        Ok(r) => match (r.deserialize::<Value>(), by_val.deserialize::<Value>()) {
            (Ok(a), Ok(b)) => value_text(&a) == value_text(&b),
            _ => false,
        },
        Err(_) => false,
    };
    if !same {
        REF_MISMATCH.with(|c| c.set(true));
    }
    Ok(by_val)
}

include!(concat!(env!("OUT_DIR"), "/typed_gen.rs"));

// ------------------------------------------------------------------------------------------------
// type descriptions

#[derive(Clone, Debug)]
enum Ty {
    Prim(String),
    Opt(Box<Ty>),
    BoxT(Box<Ty>),
    Vec(Box<Ty>),
    Map(Box<Ty>, Box<Ty>),
    Set(Box<Ty>),
    Result(Box<Ty>, Box<Ty>),
    Arr(Box<Ty>, usize),
    Sender(Box<Ty>),
    Receiver(Box<Ty>),
    Ref(String),
}

#[derive(Clone, Debug)]
enum Def {
    Struct(Vec<(u32, bool, String, Ty)>, bool),
    Enum(Vec<(u32, String, Option<Ty>)>, bool),
    Newtype(Ty),
}

struct P<'a> {
    s: &'a [u8],
    i: usize,
}

impl<'a> P<'a> {
    fn word(&mut self) -> String {
        let st = self.i;
        while self.i < self.s.len() && (self.s[self.i].is_ascii_alphanumeric() || self.s[self.i] == b'_' || self.s[self.i] == b'.' || self.s[self.i] == b'@') {
            self.i += 1;
        }
        String::from_utf8(self.s[st..self.i].to_vec()).unwrap()
    }
    fn eat(&mut self, c: u8) {
        assert_eq!(self.s[self.i], c, "expected {} at {} in {}", c as char, self.i, String::from_utf8_lossy(self.s));
        self.i += 1;
    }
    fn ty(&mut self) -> Ty {
        let w = self.word();
        if let Some(r) = w.strip_prefix('@') {
            return Ty::Ref(r.to_string());
        }
        match w.as_str() {
            "opt" | "box" | "vec" | "set" | "sender" | "receiver" => {
                self.eat(b'(');
                let t = Box::new(self.ty());
                self.eat(b')');
                match w.as_str() {
                    "opt" => Ty::Opt(t),
                    "box" => Ty::BoxT(t),
                    "vec" => Ty::Vec(t),
                    "set" => Ty::Set(t),
                    "sender" => Ty::Sender(t),
                    _ => Ty::Receiver(t),
                }
            }
            "map" | "result" => {
                self.eat(b'(');
                let a = Box::new(self.ty());
                self.eat(b',');
                let b = Box::new(self.ty());
                self.eat(b')');
                if w == "map" { Ty::Map(a, b) } else { Ty::Result(a, b) }
            }
            "arr" => {
                self.eat(b'(');
                let a = Box::new(self.ty());
                self.eat(b',');
                let n: usize = self.word().parse().unwrap();
                self.eat(b')');
                Ty::Arr(a, n)
            }
            _ => Ty::Prim(w),
        }
    }
    fn def(&mut self) -> Def {
        let w = self.word();
        match w.as_str() {
            "newtype" => {
                self.eat(b'(');
                let t = self.ty();
                self.eat(b')');
                Def::Newtype(t)
            }
            "struct" => {
                self.eat(b'{');
                let mut fs = vec![];
                while self.s[self.i] != b'}' {
                    let id: u32 = self.word().parse().unwrap();
                    self.eat(b':');
                    let req = self.word() == "r";
                    self.eat(b':');
                    let name = self.word();
                    self.eat(b':');
                    let t = self.ty();
                    self.eat(b';');
                    fs.push((id, req, name, t));
                }
                self.eat(b'}');
                Def::Struct(fs, self.s[self.i..].starts_with(b"fb"))
            }
            "enum" => {
                self.eat(b'{');
                let mut vs = vec![];
                while self.s[self.i] != b'}' {
                    let id: u32 = self.word().parse().unwrap();
                    self.eat(b':');
                    let name = self.word();
                    self.eat(b':');
                    let t = if self.s[self.i] == b'-' { self.i += 1; None } else { Some(self.ty()) };
                    self.eat(b';');
                    vs.push((id, name, t));
                }
                self.eat(b'}');
                Def::Enum(vs, self.s[self.i..].starts_with(b"fb"))
            }
            other => panic!("bad def {}", other),
        }
    }
}

// ------------------------------------------------------------------------------------------------
// conforming values

struct Gen<'a> {
    env: &'a HashMap<String, Def>,
    rng: &'a mut Rng,
}

impl Gen<'_> {
    fn key_value(&mut self, k: &Ty, n: usize) -> Vec<Value> {
        (0..n).map(|_| self.value(k, 6)).collect()
    }

    fn resolve_key<'b>(&self, k: &'b Ty) -> String {
        match k {
            Ty::Prim(p) => p.clone(),
            Ty::Ref(r) => match &self.env[r] {
                Def::Newtype(t) => self.resolve_key(t),
                _ => panic!("key type {} is not a newtype", r),
            },
            _ => panic!("bad key type"),
        }
    }

    fn value(&mut self, t: &Ty, depth: u32) -> Value {
        match t {
            Ty::Prim(p) => self.prim(p),
            Ty::Opt(t) => if depth == 0 || self.rng.chance(1, 3) { Value::None } else { Value::Some(Box::new(self.value(t, depth - 1))) },
            Ty::BoxT(t) => self.value(t, depth.saturating_sub(1)),
            Ty::Vec(t) => {
                if matches!(**t, Ty::Prim(ref p) if p == "u8") {
                    let n = self.rng.below(6) as usize;
                    return Value::Bytes(Bytes::new(self.rng.bytes(n)));
                }
                let n = if depth == 0 { 0 } else { self.rng.below(4) as usize };
                Value::Vec((0..n).map(|_| self.value(t, depth - 1)).collect())
            }
            Ty::Arr(t, n) => Value::Vec((0..*n).map(|_| self.value(t, depth.saturating_sub(1))).collect()),
            Ty::Map(k, t) => {
                let n = if depth == 0 { 0 } else { self.rng.below(4) as usize };
                let keys = self.key_value(k, n);
                let vals: Vec<Value> = (0..n).map(|_| self.value(t, depth - 1)).collect();
                map_of(&self.resolve_key(k), keys, vals)
            }
            Ty::Set(k) => {
                let n = self.rng.below(4) as usize;
                let keys = self.key_value(k, n);
                set_of(&self.resolve_key(k), keys)
            }
            Ty::Result(a, b) => {
                if self.rng.chance(1, 2) { Value::Enum(Box::new(Enum::new(0, self.value(a, depth.saturating_sub(1))))) }
                else { Value::Enum(Box::new(Enum::new(1, self.value(b, depth.saturating_sub(1))))) }
            }
            Ty::Sender(_) => Value::Sender(aldrin_core::ChannelCookie(gen_uuid(self.rng))),
            Ty::Receiver(_) => Value::Receiver(aldrin_core::ChannelCookie(gen_uuid(self.rng))),
            Ty::Ref(r) => {
                let def = self.env[r].clone();
                self.def_value(&def, depth)
            }
        }
    }

    fn def_value(&mut self, d: &Def, depth: u32) -> Value {
        match d {
            Def::Newtype(t) => self.value(t, depth),
            Def::Struct(fields, _) => {
                let mut m = HashMap::new();
                for (id, req, _, t) in fields {
                    if *req {
                        m.insert(*id, self.value(t, depth.saturating_sub(1)));
                    } else if depth > 0 && self.rng.chance(2, 3) {
                        // optional fields travel as `Some(value)`
                        m.insert(*id, Value::Some(Box::new(self.value(t, depth - 1))));
                    } else if self.rng.chance(1, 4) {
                        m.insert(*id, Value::None);
                    }
                }
                Value::Struct(Struct(m))
            }
            Def::Enum(vars, _) => {
                // prefer variants without recursion when out of depth
                let cands: Vec<&(u32, String, Option<Ty>)> = if depth == 0 { vars.iter().filter(|v| v.2.is_none() || matches!(v.2, Some(Ty::Prim(_)))).collect() } else { vars.iter().collect() };
                let cands = if cands.is_empty() { vars.iter().collect() } else { cands };
                let (id, _, t) = (*self.rng.pick(&cands)).clone();
                let payload = match t {
                    Some(t) => self.value(&t, depth.saturating_sub(1)),
                    None => Value::None,
                };
                Value::Enum(Box::new(Enum::new(id, payload)))
            }
        }
    }

    fn prim(&mut self, p: &str) -> Value {
        let r = &mut *self.rng;
        match p {
            "bool" => Value::Bool(r.chance(1, 2)),
            "u8" => Value::U8(gen_unsigned(r, 1) as u8),
            "i8" => Value::I8(gen_signed(r, 1) as i8),
            "u16" => Value::U16(gen_unsigned(r, 2) as u16),
            "i16" => Value::I16(gen_signed(r, 2) as i16),
            "u32" => Value::U32(gen_unsigned(r, 4) as u32),
            "i32" => Value::I32(gen_signed(r, 4) as i32),
            "u64" => Value::U64(gen_unsigned(r, 8)),
            "i64" => Value::I64(gen_signed(r, 8)),
            "f32" => Value::F32(f32::from_bits(r.next() as u32)),
            "f64" => Value::F64(f64::from_bits(r.next())),
            "string" => Value::String(gen_string(r)),
            "uuid" => Value::Uuid(gen_uuid(r)),
            "object_id" => Value::ObjectId(ObjectId::new(ObjectUuid(gen_uuid(r)), ObjectCookie(gen_uuid(r)))),
            "service_id" => Value::ServiceId(ServiceId::new(ObjectId::new(ObjectUuid(gen_uuid(r)), ObjectCookie(gen_uuid(r))), ServiceUuid(gen_uuid(r)), ServiceCookie(gen_uuid(r)))),
            "bytes" => { let n = r.below(6) as usize; Value::Bytes(Bytes::new(r.bytes(n))) }
            "unit" => Value::None,
            "lifetime" => Value::ObjectId(ObjectId::new(ObjectUuid(gen_uuid(r)), ObjectCookie(gen_uuid(r)))),
            "value" => { let mut budget = 6; gen_tree(r, 2, &mut budget) }
            other => panic!("unknown primitive {}", other),
        }
    }
}

fn map_of(k: &str, keys: Vec<Value>, vals: Vec<Value>) -> Value {
    macro_rules! m { ($variant:ident, $pat:ident) => { Value::$variant(keys.into_iter().zip(vals).filter_map(|(k, v)| if let Value::$pat(x) = k { Some((x, v)) } else { None }).collect()) } }
    match k {
        "u8" => m!(U8Map, U8), "i8" => m!(I8Map, I8), "u16" => m!(U16Map, U16), "i16" => m!(I16Map, I16),
        "u32" => m!(U32Map, U32), "i32" => m!(I32Map, I32), "u64" => m!(U64Map, U64), "i64" => m!(I64Map, I64),
        "string" => m!(StringMap, String), "uuid" => m!(UuidMap, Uuid),
        other => panic!("bad key type {}", other),
    }
}

fn set_of(k: &str, keys: Vec<Value>) -> Value {
    macro_rules! s { ($variant:ident, $pat:ident) => { Value::$variant(keys.into_iter().filter_map(|k| if let Value::$pat(x) = k { Some(x) } else { None }).collect::<HashSet<_>>()) } }
    match k {
        "u8" => s!(U8Set, U8), "i8" => s!(I8Set, I8), "u16" => s!(U16Set, U16), "i16" => s!(I16Set, I16),
        "u32" => s!(U32Set, U32), "i32" => s!(I32Set, I32), "u64" => s!(U64Set, U64), "i64" => s!(I64Set, I64),
        "string" => s!(StringSet, String), "uuid" => s!(UuidSet, Uuid),
        other => panic!("bad key type {}", other),
    }
}

// ------------------------------------------------------------------------------------------------
// damage

fn damage(rng: &mut Rng, v: &Value) -> (Value, &'static str) {
    match v {
        Value::Struct(Struct(m)) => {
            let mut m = m.clone();
            match rng.below(6) {
                0 if !m.is_empty() => {
                    let k = *rng.pick(&m.keys().cloned().collect::<Vec<_>>());
                    m.remove(&k);
                    (Value::Struct(Struct(m)), "field-removed")
                }
                1 => {
                    let k = *rng.pick(&[9u32, 99, 250, 251, 70000, u32::MAX - 1]);
                    let mut b = 4;
                    m.entry(k).or_insert_with(|| gen_tree(rng, 2, &mut b));
                    (Value::Struct(Struct(m)), "unknown-field-added")
                }
                2 if !m.is_empty() => {
                    let k = *rng.pick(&m.keys().cloned().collect::<Vec<_>>());
                    let mut b = 4;
                    m.insert(k, gen_tree(rng, 2, &mut b));
                    (Value::Struct(Struct(m)), "field-retyped")
                }
                3 if !m.is_empty() => {
                    let k = *rng.pick(&m.keys().cloned().collect::<Vec<_>>());
                    let old = m.remove(&k).unwrap();
                    let (nv, _) = damage(rng, &old);
                    m.insert(k, nv);
                    (Value::Struct(Struct(m)), "nested")
                }
                4 if !m.is_empty() => {
                    let k = *rng.pick(&m.keys().cloned().collect::<Vec<_>>());
                    let old = m.remove(&k).unwrap();
                    let nv = match old {
                        Value::Some(x) => *x,
                        other => Value::Some(Box::new(other)),
                    };
                    m.insert(k, nv);
                    (Value::Struct(Struct(m)), "option-wrapping")
                }
                _ => (Value::U32Map(m.into_iter().collect()), "struct-as-map"),
            }
        }
        Value::Enum(e) => match rng.below(4) {
            0 => (Value::Enum(Box::new(Enum::new(*rng.pick(&[6u32, 8, 99, 252, 65537]), e.value.clone()))), "unknown-variant"),
            1 => { let mut b = 4; (Value::Enum(Box::new(Enum::new(e.id, gen_tree(rng, 2, &mut b)))), "payload-retyped") }
            2 => { let (nv, _) = damage(rng, &e.value); (Value::Enum(Box::new(Enum::new(e.id, nv))), "nested") }
            _ => (e.value.clone(), "enum-unwrapped"),
        },
        Value::Some(x) => { let (nv, w) = damage(rng, x); (Value::Some(Box::new(nv)), w) }
        Value::Vec(xs) if !xs.is_empty() => {
            let mut xs = xs.clone();
            let i = rng.below(xs.len() as u64) as usize;
            let (nv, w) = damage(rng, &xs[i]);
            xs[i] = nv;
            (Value::Vec(xs), w)
        }
        _ => { let mut b = 4; (gen_tree(rng, 2, &mut b), "replaced") }
    }
}

fn out_text(e: &TypeEntry, v: &Value, v2: bool) -> Option<String> {
    let sv = (if v2 { ser_v2(v) } else { ser_v1(v) }).ok()?;
    let back = (e.rt)(&sv).ok()?;
    back.deserialize::<Value>().ok().map(|x| value_text(&x))
}

/// What must happen to `v` (a copy of the conforming `v0` with one change) by the statement of the property.
fn top_level_expectation(def: &Def, v0: &Value, v: &Value, out: &str, e: &TypeEntry, v2: bool) -> Option<String> {
    match (def, v0, v) {
        (Def::Struct(fields, fb), Value::Struct(Struct(m0)), Value::Struct(Struct(m))) => {
            let removed: Vec<u32> = m0.keys().filter(|k| !m.contains_key(k)).cloned().collect();
            let added: Vec<u32> = m.keys().filter(|k| !m0.contains_key(k)).cloned().collect();
            let same_rest = m0.iter().all(|(k, x)| m.get(k).map_or(true, |y| value_text(x) == value_text(y)));
            if removed.iter().any(|k| fields.iter().any(|f| f.0 == *k && f.1)) {
                return if out != "err" { Some("a value without a required field was accepted".into()) } else { None };
            }
            if !same_rest || !removed.is_empty() {
                return None;
            }
            if added.len() == 1 && !fields.iter().any(|f| f.0 == added[0]) {
                if out == "err" {
                    return Some(format!("an unknown field id {} was not tolerated", added[0]));
                }
                let base = out_text(e, v0, v2)?;
                let got = out.strip_prefix("ok ")?;
                if *fb {
                    // kept intact: the output is the output for v0 plus exactly this field
                    let mut with = match (e.rt)(&(if v2 { ser_v2(v0) } else { ser_v1(v0) }).ok()?).ok()?.deserialize::<Value>().ok()? {
                        Value::Struct(Struct(mm)) => mm,
                        _ => return Some("a struct was written back as something else".into()),
                    };
                    with.insert(added[0], m[&added[0]].clone());
                    if value_text(&Value::Struct(Struct(with))) != got {
                        return Some(format!("unknown field {} did not survive a struct with fallback", added[0]));
                    }
                } else if base != got {
                    return Some(format!("unknown field {} changed what a struct without fallback wrote back", added[0]));
                }
            }
            None
        }
        (Def::Enum(vars, fb), Value::Enum(_), Value::Enum(en)) => {
            if vars.iter().any(|x| x.0 == en.id) {
                return None;
            }
            if *fb {
                if out != format!("ok {}", value_text(v)) {
                    return Some(format!("unknown variant {} did not survive an enum with fallback", en.id));
                }
            } else if out != "err" {
                return Some(format!("unknown variant {} was accepted by an enum without fallback", en.id));
            }
            None
        }
        _ => None,
    }
}

// ------------------------------------------------------------------------------------------------
// introspection layouts (C20): what the derive / `service!` macros say about a type against its schema

fn lex(t: &Ty) -> LexicalId {
    match t {
        Ty::Prim(p) => match p.as_str() {
            "bool" => LexicalId::BOOL, "u8" => LexicalId::U8, "i8" => LexicalId::I8, "u16" => LexicalId::U16, "i16" => LexicalId::I16,
            "u32" => LexicalId::U32, "i32" => LexicalId::I32, "u64" => LexicalId::U64, "i64" => LexicalId::I64, "f32" => LexicalId::F32,
            "f64" => LexicalId::F64, "string" => LexicalId::STRING, "uuid" => LexicalId::UUID, "object_id" => LexicalId::OBJECT_ID,
            "service_id" => LexicalId::SERVICE_ID, "value" => LexicalId::VALUE, "bytes" => LexicalId::BYTES, "lifetime" => LexicalId::LIFETIME,
            "unit" => LexicalId::UNIT,
            other => panic!("unknown primitive {} in a layout description", other),
        },
        Ty::Opt(t) => LexicalId::option(lex(t)),
        Ty::BoxT(t) => LexicalId::box_ty(lex(t)),
        // the code generator gives `vec<u8>` the Rust type of `bytes` (codegen/src/rust.rs `type_name`)
        Ty::Vec(t) if matches!(&**t, Ty::Prim(p) if p == "u8") => LexicalId::BYTES,
        Ty::Vec(t) => LexicalId::vec(lex(t)),
        Ty::Map(k, t) => LexicalId::map(lex(k), lex(t)),
        Ty::Set(t) => LexicalId::set(lex(t)),
        Ty::Result(a, b) => LexicalId::result(lex(a), lex(b)),
        Ty::Arr(t, n) => LexicalId::array(lex(t), *n as u32),
        Ty::Sender(t) => LexicalId::sender(lex(t)),
        Ty::Receiver(t) => LexicalId::receiver(lex(t)),
        Ty::Ref(r) => {
            let (schema, name) = r.split_once('.').unwrap();
            LexicalId::custom(schema, name)
        }
    }
}

/// the expected layout with every `<type>` replaced by its lexical id
fn expand_layout(lay: &str) -> String {
    let mut out = String::new();
    let mut rest = lay;
    while let Some(i) = rest.find('<') {
        out.push_str(&rest[..i]);
        // types nest `<`-free; the matching `>` is the next one
        let j = rest[i..].find('>').unwrap() + i;
        let t = P { s: rest[i + 1..j].as_bytes(), i: 0 }.ty();
        write!(out, "<{}>", lex(&t)).unwrap();
        rest = &rest[j + 1..];
    }
    out.push_str(rest);
    out
}

fn opt_lex(l: Option<LexicalId>) -> String {
    l.map_or("-".to_string(), |l| format!("<{}>", l))
}

fn render_layout(l: &LayoutIr) -> String {
    match l {
        LayoutIr::BuiltIn(b) => format!("builtin {:?}", b),
        LayoutIr::Struct(s) => format!("struct {}.{} {{{}}} fb={}", s.schema(), s.name(),
            s.fields().values().map(|f| format!("{}:{}:{}:<{}>;", f.id(), f.name(), if f.is_required() { "r" } else { "o" }, f.field_type())).collect::<String>(),
            s.fallback().map_or("-", |f| f.name())),
        LayoutIr::Enum(e) => format!("enum {}.{} {{{}}} fb={}", e.schema(), e.name(),
            e.variants().values().map(|v| format!("{}:{}:{};", v.id(), v.name(), opt_lex(v.variant_type()))).collect::<String>(),
            e.fallback().map_or("-", |f| f.name())),
        LayoutIr::Newtype(n) => format!("newtype {}.{} <{}>", n.schema(), n.name(), n.target_type()),
        LayoutIr::Service(s) => format!("service {}.{} uuid={} version={} fns{{{}}} evs{{{}}} fnfb={} evfb={}", s.schema(), s.name(), s.uuid().0, s.version(),
            s.functions().values().map(|f| format!("{}:{}:{}:{}:{};", f.id(), f.name(), opt_lex(f.args()), opt_lex(f.ok()), opt_lex(f.err()))).collect::<String>(),
            s.events().values().map(|e| format!("{}:{}:{};", e.id(), e.name(), opt_lex(e.event_type()))).collect::<String>(),
            s.function_fallback().map_or("-", |f| f.name()), s.event_fallback().map_or("-", |f| f.name())),
    }
}

/// every generated type and service: the layout the generated code reports is the one its schema describes
fn check_layouts(oracle: &mut impl Write, dist: &mut BTreeMap<String, u64>) -> usize {
    let mut fails = 0;
    let mut one = |name: &str, lay: &str, layout: fn() -> LayoutIr, dist: &mut BTreeMap<String, u64>| {
        let want = expand_layout(lay);
        let got = catch_unwind(AssertUnwindSafe(|| render_layout(&layout()))).unwrap_or_else(|_| "PANIC".to_string());
        *dist.entry(format!("layout.{}", want.split(' ').next().unwrap())).or_insert(0) += 1;
        if want != got {
            writeln!(oracle, "FAIL C20 line=0 the introspection layout of the generated code differs from its schema: expected `{}` ({}), generated `{}` type={} input=-", want, lay, got, name).unwrap();
            fails += 1;
        }
    };
    for e in registry() {
        one(e.name, e.lay, e.layout, dist);
    }
    for s in services() {
        one(s.name, s.lay, s.layout, dist);
    }
    fails
}

fn main() {
    let args: Vec<String> = std::env::args().collect();
    if args.len() < 4 {
        eprintln!("usage: typed <outdir> <seed> <cases>");
        std::process::exit(2);
    }
    let outdir = &args[1];
    let seed: u64 = args[2].parse().expect("seed");
    let cases: u64 = args[3].parse().expect("cases");
    std::fs::create_dir_all(outdir).unwrap();
    let mk = |n: &str| BufWriter::new(File::create(format!("{}/{}", outdir, n)).unwrap());
    let (mut req, mut rust, mut oracle) = (mk("req.txt"), mk("rust.txt"), mk("oracle.txt"));
    let reg = registry();
    let mut env = HashMap::new();
    for e in &reg {
        env.insert(e.name.to_string(), P { s: e.desc.as_bytes(), i: 0 }.def());
    }
    let env_line: Vec<String> = reg.iter().map(|e| format!("{}={}", e.name, e.desc)).collect();
    writeln!(req, "tenv {}", env_line.join(" ")).unwrap();
    writeln!(rust, "ok").unwrap();
    let mut rng = Rng::new(seed);
    let mut dist: BTreeMap<String, u64> = BTreeMap::new();
    let mut samples = vec![];
    let mut lines = 1usize;
    let mut fails = check_layouts(&mut oracle, &mut dist);
    for case in 0..cases {
        let e = &reg[(case as usize) % reg.len()];
        let def = env[e.name].clone();
        let mut r = rng.fork();
        let v0 = Gen { env: &env, rng: &mut r }.def_value(&def, 3);
        let (v, what) = match r.below(3) {
            0 => damage(&mut r, &v0),
            _ => (v0.clone(), "conforming"),
        };
        let v2 = r.chance(1, 2);
        let sv = match if v2 { ser_v2(&v) } else { ser_v1(&v) } {
            Ok(sv) => sv,
            Err(_) => continue,
        };
        REF_MISMATCH.with(|c| c.set(false));
        let res = catch_unwind(AssertUnwindSafe(|| (e.rt)(&sv)));
        if REF_MISMATCH.with(|c| c.get()) {
            writeln!(oracle, "FAIL C16 line={} serializing the decoded value by reference differs from serializing it by value type={} input={}", lines, e.name, hex(&sv)).unwrap();
            fails += 1;
        }
        let out = match res {
            Err(_) => {
                writeln!(oracle, "FAIL C16 line={} panic in generated code type={} input={}", lines, e.name, hex(&sv)).unwrap();
                fails += 1;
                "PANIC".to_string()
            }
            Ok(Err(_)) => "err".to_string(),
            Ok(Ok(back)) => match back.deserialize::<Value>() {
                Ok(bv) => {
                    // oracle: a conforming value survives (what comes back re-encodes to what the type accepted)
                    if what == "conforming" {
                        match (e.rt)(&back) {
                            Ok(again) if again.deserialize::<Value>().ok().map(|x| value_text(&x)) == Some(value_text(&bv)) => {}
                            _ => {
                                writeln!(oracle, "FAIL C16 line={} decode/encode is not stable type={} input={}", lines, e.name, hex(&sv)).unwrap();
                                fails += 1;
                            }
                        }
                    }
                    format!("ok {}", value_text(&bv))
                }
                Err(_) => {
                    writeln!(oracle, "FAIL C16 line={} re-encoded to undecodable bytes type={} input={}", lines, e.name, hex(&sv)).unwrap();
                    fails += 1;
                    "ok <undecodable>".to_string()
                }
            },
        };
        // oracles for systematic damage at the top level of the definition (what the property names:
        // missing required field, unknown field ids, unknown variants, with and without fallback)
        if let Some(msg) = top_level_expectation(&def, &v0, &v, &out, e, v2) {
            writeln!(oracle, "FAIL C16 line={} {} type={} input={}", lines, msg, e.name, hex(&sv)).unwrap();
            fails += 1;
        }
        if what == "conforming" && out == "err" {
            writeln!(oracle, "FAIL C16 line={} conforming value rejected type={} input={}", lines, e.name, hex(&sv)).unwrap();
            fails += 1;
        }
        writeln!(req, "tyv {} {}", e.name, hex(&sv)).unwrap();
        writeln!(rust, "{}", out).unwrap();
        lines += 1;
        *dist.entry(format!("{}.{}", what, if out == "err" { "rejected" } else { "accepted" })).or_insert(0) += 1;
        *dist.entry(format!("enc.{}", if v2 { "v2" } else { "v1" })).or_insert(0) += 1;
        if samples.len() < 8 && lines % 173 == 7 {
            samples.push(format!("tyv {} {} => {}", e.name, hex(&sv), &out[..out.len().min(120)]));
        }
    }
    // old/new schema pairs: data written by `<stem>_new.T` passes through `<stem>_old.T` and is read by the new type again
    let pairs: Vec<(&TypeEntry, &TypeEntry)> = reg.iter().filter_map(|n| {
        let (schema, ty) = n.name.split_once('.')?;
        let stem = schema.strip_suffix("_new")?;
        let old_name = format!("{}_old.{}", stem, ty);
        reg.iter().find(|o| o.name == old_name).map(|o| (o, n))
    }).collect();
    if !pairs.is_empty() {
        for case in 0..cases / 4 {
            let (o, n) = pairs[(case as usize) % pairs.len()];
            let def = env[n.name].clone();
            let mut r = rng.fork();
            let v = Gen { env: &env, rng: &mut r }.def_value(&def, 3);
            let v2 = r.chance(1, 2);
            let sv = match if v2 { ser_v2(&v) } else { ser_v1(&v) } { Ok(sv) => sv, Err(_) => continue };
            let line_of = |res: &Result<SerializedValue, String>| match res {
                Err(_) => "err".to_string(),
                Ok(b) => match b.deserialize::<Value>() { Ok(x) => format!("ok {}", value_text(&x)), Err(_) => "ok <undecodable>".to_string() },
            };
            let through_old = (o.rt)(&sv);
            writeln!(req, "tyv {} {}", o.name, hex(&sv)).unwrap();
            writeln!(rust, "{}", line_of(&through_old)).unwrap();
            lines += 1;
            let direct = line_of(&(n.rt)(&sv));
            match through_old {
                Err(_) => {
                    writeln!(oracle, "FAIL C16 line={} data of {} was rejected by the older type type={} input={}", lines - 1, n.name, o.name, hex(&sv)).unwrap();
                    fails += 1;
                    *dist.entry("evolve.rejected-by-old".into()).or_insert(0) += 1;
                }
                Ok(mid) => {
                    let back = line_of(&(n.rt)(&mid));
                    writeln!(req, "tyv {} {}", n.name, hex(&mid)).unwrap();
                    writeln!(rust, "{}", back).unwrap();
                    lines += 1;
                    if back != direct {
                        writeln!(oracle, "FAIL C16 line={} data of {} did not survive passing through the older type type={} input={}", lines - 1, n.name, o.name, hex(&sv)).unwrap();
                        fails += 1;
                    }
                    *dist.entry("evolve.survived".into()).or_insert(0) += 1;
                }
            }
        }
    }
    req.flush().unwrap();
    rust.flush().unwrap();
    oracle.flush().unwrap();
    let mut stats = String::from("{\n");
    write!(stats, "  \"lines\": {},\n  \"oracle_fails\": {},\n  \"cases\": {},\n  \"types\": {},\n", lines, fails, cases, reg.len()).unwrap();
    write!(stats, "  \"samples\": [{}],\n", samples.iter().map(|s| format!("{:?}", s)).collect::<Vec<_>>().join(", ")).unwrap();
    write!(stats, "  \"distribution\": {{{}}}\n}}\n", dist.iter().map(|(k, v)| format!("{:?}: {}", k, v)).collect::<Vec<_>>().join(", ")).unwrap();
    std::fs::write(format!("{}/stats.json", outdir), stats).unwrap();
}
