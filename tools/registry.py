"""
Per-property registry used by ./check: which Lean module holds the property theorems, which
harness binary produces the correspondence stream, how lines are canonicalised and which
implementation-only oracle failures count for the property.
"""
import concurrent.futures
import json
import os
import re
import subprocess

ROOT = os.path.dirname(os.path.dirname(os.path.abspath(__file__)))
HARNESS_BIN = os.path.join(ROOT, "harness", "target", "release")
DRIVER = os.path.join(ROOT, "lean", ".lake", "build", "bin", "driver")
WORK = os.path.join(ROOT, "work")


def _run(cmd, timeout=7200, stdin=None, stdout=None):
    return subprocess.run(cmd, stdin=stdin, stdout=stdout, stderr=subprocess.PIPE, timeout=timeout)


def run_shard(binary, outdir, seed, cases, extra):
    os.makedirs(outdir, exist_ok=True)
    p = _run([os.path.join(HARNESS_BIN, binary), outdir, str(seed), str(cases)] + extra)
    if p.returncode != 0:
        return {"error": f"{binary} exited with {p.returncode}: {p.stderr.decode(errors='replace')[-800:]}"}
    with open(os.path.join(outdir, "req.txt"), "rb") as fin, open(os.path.join(outdir, "lean.txt"), "wb") as fout:
        q = _run([DRIVER], stdin=fin, stdout=fout)
    if q.returncode != 0:
        return {"error": f"lean driver exited with {q.returncode}: {q.stderr.decode(errors='replace')[-800:]}"}
    return {"dir": outdir}


def err_class(line, keep=("depth", "version")):
    """`err <name>` -> `err <name>` only for the error kinds a property speaks about."""
    if line.startswith("err "):
        name = line[4:].strip()
        return "err " + (name if name in keep else "other")
    return line


def canon_pair(canon, q, a, b):
    """Canonical forms of the implementation's answer `a` and the model's answer `b`. The broker driver marks a turn in
    which the model removed a connection with a trailing ` #rm`: both answers of such a turn are compared as multisets
    per receiver (`canon.loose`)."""
    loose = b.endswith(" #rm")
    if loose:
        b = b[:-4]
    if canon is None:
        return a, b
    f = getattr(canon, "loose", None) if loose else None
    f = f or canon
    return f(q, a), f(q, b)


def generic_run(binary, relevant_cmds, oracle_tags, sizes, canon=None, extra_args=None, corpus=None,
                rule="", nontrivial=None, scenario_cmd=None, full_canon=None, subdir=""):
    """Builds the `run` function of a property served by a req/rust/lean line-protocol binary."""

    def run(pid, spec, tier, seed, replay):
        thorough = tier == "thorough"
        cases, shards = sizes["thorough" if thorough else "quick"]
        base = os.path.join(WORK, f"{pid}-{tier}{subdir}")
        subprocess.run(["rm", "-rf", base])
        os.makedirs(base, exist_ok=True)
        extra = list(extra_args or [])
        corpus_path = os.path.join(ROOT, "corpus", corpus) if corpus else None
        jobs = []
        with concurrent.futures.ThreadPoolExecutor(max_workers=min(shards, 14)) as ex:
            for s in range(shards):
                ex_extra = list(extra)
                if s == 0 and corpus_path and os.path.exists(corpus_path):
                    ex_extra = extra + [corpus_path]
                if replay and s == 0:
                    ex_extra = ["--replay", replay]
                jobs.append(ex.submit(run_shard, binary, os.path.join(base, f"s{s}"), seed * 1000 + s, cases, ex_extra))
                if replay:
                    break
        results = [j.result() for j in jobs]
        cov = {"evaluations": 0, "disagreements": 0, "oracle_failures": 0, "distribution": {},
               "samples": [], "rule": rule, "distinct_nontrivial": 0, "shards": len(results)}
        violations = []
        diffs = []
        oracle = []
        distinct = set()
        for r in results:
            if "error" in r:
                violations.append(("harness-run", r["error"], "broken tie: " + r["error"], False))
                continue
            d = r["dir"]
            with open(os.path.join(d, "req.txt"), encoding="utf-8", errors="replace") as f:
                reqs = f.read().split("\n")
            with open(os.path.join(d, "rust.txt"), encoding="utf-8", errors="replace") as f:
                rust = f.read().split("\n")
            with open(os.path.join(d, "lean.txt"), encoding="utf-8", errors="replace") as f:
                lean = f.read().split("\n")
            if len(lean) != len(rust):
                violations.append(("harness-run", f"output length mismatch {len(rust)} vs {len(lean)}",
                                   "broken tie: driver produced a different number of lines", False))
            diverged = False
            for i, (q, a) in enumerate(zip(reqs, rust)):
                if not q:
                    continue
                cmd = q.split(" ", 1)[0]
                if scenario_cmd is not None:
                    # stateful scenarios: once implementation and model have diverged their states differ and
                    # later lines of the scenario say nothing; only the first diverging line is attributed
                    if cmd == scenario_cmd or (isinstance(scenario_cmd, (set, tuple)) and cmd in scenario_cmd):
                        diverged = False
                    if diverged:
                        continue
                    bfull = lean[i] if i < len(lean) else "<missing>"
                    fa, fb = canon_pair(full_canon, q, a, bfull)
                    if fa != fb:
                        diverged = True
                if relevant_cmds is not None and cmd not in relevant_cmds:
                    continue
                if a in ("skipped",):
                    continue
                b = lean[i] if i < len(lean) else "<missing>"
                cov["evaluations"] += 1
                ca, cb = canon_pair(canon, q, a, b)
                if nontrivial is None or nontrivial(q, a):
                    distinct.add(hash(q))
                if ca != cb:
                    cov["disagreements"] += 1
                    if len(diffs) < 50:
                        diffs.append((q, a, b))
            with open(os.path.join(d, "oracle.txt"), encoding="utf-8", errors="replace") as f:
                for line in f:
                    m = re.match(r"FAIL (\S+) ", line)
                    if m and m.group(1) in oracle_tags:
                        cov["oracle_failures"] += 1
                        if len(oracle) < 50:
                            oracle.append(line.rstrip("\n"))
            try:
                with open(os.path.join(d, "stats.json")) as f:
                    st = json.load(f)
                for k, v in st.get("distribution", {}).items():
                    cov["distribution"][k] = cov["distribution"].get(k, 0) + v
                if len(cov["samples"]) < 8:
                    cov["samples"].extend(st.get("samples", [])[: 8 - len(cov["samples"])])
            except (OSError, ValueError):
                pass
        cov["distinct_nontrivial"] = len(distinct)
        if replay:
            for (q, a, b) in diffs:
                print(f"REQ  {q[:300]}\nRUST {a[:300]}\nLEAN {b[:300]}")
            for o in oracle:
                print(o[:400])
            if not diffs and not oracle:
                print("replay: implementation and model agree and every oracle holds")
        if oracle:
            # shortest failing input first: a concrete violation of the property by the implementation
            oracle.sort(key=len)
            text = (f"property {pid}: the implementation alone violates the property\n"
                    f"seed={seed} tier={tier}\n\n" + "\n".join(o[:4000] for o in oracle[:10]) + "\n")
            if diffs:
                text += "\nmodel/implementation disagreements (first few):\n" + "\n".join(
                    f"REQ: {q[:2000]}\n  rust: {a[:2000]}\n  lean: {b[:2000]}" for (q, a, b) in diffs[:5]) + "\n"
            text += "\nreplay lines:\n" + "\n".join("REQ: " + req_of_oracle(o) for o in oracle[:10] if req_of_oracle(o)) + "\n"
            violations.append(("oracle", oracle[0][:300], text, True))
        elif diffs:
            diffs.sort(key=lambda t: len(t[0]))
            text = (f"property {pid}: correspondence between the Lean model and the implementation broke;\n"
                    f"no input was found on which the implementation itself violates the property.\n"
                    f"relation that no longer checks: outputs of `{binary}` vs. the Lean driver on commands {sorted(relevant_cmds) if relevant_cmds else 'all'}\n"
                    f"seed={seed} tier={tier}\n\n" + "\n".join(
                        f"REQ: {q[:4000]}\n  rust: {a[:4000]}\n  lean: {b[:4000]}" for (q, a, b) in diffs[:10]) + "\n")
            violations.append(("correspondence", f"model and implementation disagree on {cov['disagreements']} lines", text, False))
        return {"coverage": cov, "violations": violations}

    return run


def req_of_oracle(line):
    m = re.search(r"input=(\S+)", line)
    if not m:
        return ""
    if m.group(1).startswith("cid_") or m.group(1).startswith("cch_"):
        return m.group(1).replace("_", " ")
    t = re.search(r"type=(\S+)", line)
    if t:
        return f"tyv {t.group(1)} {m.group(1)}   (after the `tenv` line of the run, req.txt line 1)"
    return "dec " + m.group(1)


def codec_canon(q, line):
    return err_class(line)


# ---------------------------------------------------------------------------------------------
# broker: one `bev` line per broker event; the answer lists what every client received

BROKER_KEEP = {
    "ALL": set(),
    "C02": {"callFunction", "callFunction2", "callFunctionReply", "abortFunctionCall"},
    "C03": {"createObjectReply", "destroyObjectReply", "createServiceReply", "destroyServiceReply", "queryServiceVersionReply",
            "queryServiceInfoReply", "subscribeEventReply", "subscribeServiceReply", "callFunctionReply:invalidService"},
    "C04": {"subscribeEvent", "unsubscribeEvent", "subscribeAllEvents", "unsubscribeAllEvents", "emitEvent", "serviceDestroyed",
            "subscribeEventReply", "subscribeAllEventsReply", "unsubscribeAllEventsReply", "subscribeServiceReply"},
    "C05": {"createChannelReply", "closeChannelEndReply", "channelEndClosed", "claimChannelEndReply", "channelEndClaimed",
            "itemReceived", "addChannelCapacity"},
    "C09": {"shutdown"},
    "C10": {"createBusListenerReply", "destroyBusListenerReply", "startBusListenerReply", "stopBusListenerReply", "emitBusEvent",
            "busListenerCurrentFinished"},
    "C11": {"syncReply", "createObjectReply", "queryIntrospection", "queryIntrospectionReply"},
    "C12": {"callFunction", "callFunction2", "abortFunctionCall", "callFunctionReply", "emitEvent", "itemReceived",
            "queryIntrospectionReply", "queryServiceInfoReply", "createServiceReply", "subscribeAllEventsReply",
            "unsubscribeAllEventsReply", "subscribeAllEvents", "unsubscribeAllEvents"},
}
BROKER_END_EVENTS = ("bev cshut", "bev kshut", "bev drop", "bev ishut", "bev bshut")


def _msg_key(m):
    w = m.split(" ")
    if w[0] == "emitBusEvent" and len(w) > 2:
        return w[0] + " " + w[1] + " " + w[2]
    return w[0]


def broker_canon_for(pid):
    keep = BROKER_KEEP[pid]

    def canon(q, line, loose=False):
        if line.startswith("PANIC") or line.startswith("panic"):
            return "PANIC"   # a panic (of the implementation or a panic site reached by the model) concerns every property
        if not line.startswith("fin="):
            return line
        parts = line.split(" | ")
        everything = pid == "ALL" or (pid == "C09" and q.startswith(BROKER_END_EVENTS))
        out = [parts[0]] if pid in ("C09", "C11", "ALL") else []
        for p in parts[1:]:
            conn, _, msgs = p.partition(": ")
            ms = msgs.split(" ; ")
            # the broker iterates hash maps/sets: runs of messages of one kind have no defined order
            res, run, key = [], [], None
            for m in ms:
                k = _msg_key(m)
                if k != key:
                    res.extend(sorted(run))
                    run, key = [], k
                run.append(m)
            res.extend(sorted(run))
            if not everything:
                res = [m for m in res if m.split(" ", 1)[0] in keep
                       or (m.startswith("callFunctionReply ") and m.endswith(" invalidService") and "callFunctionReply:invalidService" in keep)]
            if loose or q.startswith(BROKER_END_EVENTS):
                # the clean-up of a connection walks several hash maps and sets (its objects, its calls in both
                # directions, its subscriptions); in which order the different kinds of notification reach a third
                # connection depends on their iteration order, which no property speaks about
                res = sorted(res)
            if res:
                out.append(conn + ": " + " ; ".join(res))
        return " | ".join(out)

    canon.loose = lambda q, line: canon(q, line, True)
    return canon


def broker_nontrivial_for(pid):
    c = broker_canon_for(pid)

    def nt(q, a):
        r = c(q, a)
        return ":" in r or q == "bstats"

    return nt


BROKER_SIZES = {"quick": (150, 4), "thorough": (1500, 14)}
BROKER_RULE = ("scenarios of 60-400 broker events against the real Broker::run / BrokerHandle::connect / Connection::run futures on a "
               "deterministic executor: 2-6 connections with negotiated versions 1.14-1.20 (plus rejected handshakes), requests drawn "
               "state-aware from live/stale/never-issued cookie and serial pools over 4 object/service UUIDs, 3 event ids, channel "
               "capacities {0,1,3,4,5,6,9,2^32-2,2^32-1}; three profiles (normal, faults: frequent termination in the four ways incl. "
               "requests still queued when the connection task is dropped, abuse: wrong-direction and version-gated kinds); every "
               "scenario ends by closing everything and an idle shutdown; one request line = one broker event; compared after projecting "
               "on the message kinds the property speaks about and sorting runs of same-kind messages (hash iteration order)")
BROKER_TRUSTED = [
    "modelled, not verified: HashMap/HashSet as association lists (iteration order is unspecified in Rust; compared after sorting runs); "
    "Uuid::new_v4 cookies as a counter (freshness of v4 UUIDs is assumed); the bounded mpsc between connections and broker as the "
    "sequence of events in the order the broker dequeues them; unbounded per-connection send queues whose only failure is "
    "'connection task gone'; tokio/futures scheduling is replaced by the harness executor",
    "the random choice of the connection asked for introspection is pinned by registering each type on at most one connection",
    "SerialMap::insert with 2^32 entries (the implementation does not return, the model hands out a serial in use): the "
    "reachable-state theorems of C02 assume fewer than 2^32 pending calls",
]


def combine_runs(*runs):
    """A property served by several harness runs: coverage is added up (distribution keys of later runs are prefixed),
    violations are concatenated."""

    def run(pid, spec, tier, seed, replay):
        total = None
        violations = []
        todo = [(t[0], t[1]) for t in runs]
        if replay:
            # a replay goes to the run whose marker (third element) occurs in the replay file, else to the first run
            try:
                with open(replay, encoding="utf-8", errors="replace") as f:
                    text = f.read()
            except OSError:
                text = ""
            marked = [(t[0], t[1]) for t in runs if len(t) > 2 and t[2] in text]
            todo = marked[:1] or todo[:1]
        for i, (prefix, r) in enumerate(todo):
            res = r(pid, spec, tier, seed, replay)
            cov = res["coverage"]
            violations.extend(res["violations"])
            if total is None:
                total = cov
                continue
            for k in ("evaluations", "disagreements", "oracle_failures", "distinct_nontrivial", "shards"):
                total[k] = total.get(k, 0) + cov.get(k, 0)
            for k, v in cov.get("distribution", {}).items():
                total["distribution"][prefix + k] = v
            total["rule"] = total.get("rule", "") + " | " + prefix + cov.get("rule", "")
        return {"coverage": total, "violations": violations}

    return run


# C04 also looks at the owner's side of event delivery: the client library of the owner filters what it emits by what
# the broker told it to produce. Scenario B of the `sys` harness (real broker, real clients, PRNG schedule) ends with a
# probe round: after further subscriptions and unsubscriptions every live service emits one event of each id and every
# proxy subscribed to it (individually or to all events) must receive it.
C04_SYS_RULE = ("sys scenario B (real broker, 2-4 real clients under a PRNG-chosen schedule): after random subscribe / "
                "unsubscribe / subscribe-all operations of all proxies every live service emits one event of each id; "
                "implementation-only oracle: every proxy subscribed to that id or to all events of the service receives it")


C05_SYS_RULE = ("sys scenario B (real broker, 2-4 real clients, real Sender / Receiver): items carry their sequence number and must arrive "
                "in order; seven closing rounds in which every idle sender sends if it may, every idle receiver takes what has arrived, and "
                "every sender polls receiver_closed; implementation-only oracle: in the end a sender whose receiver is alive and has taken "
                "every item is allowed to send (the receiver's remaining capacity is positive and has been announced)")


C05_CHAN_RULE = ("real Sender / Receiver of two real clients on a real broker vs. the composed model Model/ClientChan.lean: random schedules "
                 "of send-if-ready / take / poll receiver_closed / poll send_ready with capacities 1..12, 16..35 and 100, the system at "
                 "rest after every operation; every observation and the private fields `capacity` / `cur_capacity` at the end must agree; "
                 "implementation-only oracle: items in order, nothing closed, never more outstanding than the capacity, a sender whose "
                 "receiver has taken everything is ready")


C10_SYS_RULE = ("sys scenario B (real broker, 2-4 real clients, several bus listeners per client with different filters, "
                "started and stopped at random points): implementation-only oracle: whatever a listener yields matches one of the "
                "filters it has ever been given (the broker sends a new event once per connection; the client library must match "
                "it against every listener's own filters)")


C12_CONV_RULE = ("payload interop rests on `convert` (core/src/convert_value.rs), which the connection task applies to every forwarded "
                 "payload: the conversion lines of the codec harness (all version pairs, valid encodings of both epochs incl. segmented "
                 "byte strings, mutants, random bytes) against Model/Codec.lean, with the conversion oracles of C13 (value preserved, old "
                 "peers get only old kinds)")


CONNID_RULE = ("allocator of connection ids (real ConnectionIdManager through the verif-hooks feature of aldrin-broker vs. "
               "Model/ConnId.lean): random histories of connects, clones and drops in oldest-first / newest-first / random order; the "
               "numbers handed out and the final `next` / free list must agree; implementation-only oracle: no number is handed out "
               "while a connection with that number is alive, and neither debug_assert! of Inner::release fires")


def broker_prop(pid, module):
    if pid == "C04":
        base = broker_prop("C04*", module)
        base["run"] = combine_runs(("", base["run"]),
                                   ("sys.", generic_run("sys", set(), {"C04"}, {"quick": (300, 4), "thorough": (3000, 14)},
                                                        canon=None, scenario_cmd="cnew", full_canon=lambda q, line: line,
                                                        extra_args=["B"], rule=C04_SYS_RULE, subdir="-sys")))
        base["trusted"] = list(base["trusted"]) + ["the owner's client-side subscription record (aldrin/src/client/broker_subscriptions.rs) is "
                                                   "not modelled; it is exercised by the probe round of sys scenario B only"]
        return base
    if pid == "C05":
        base = broker_prop("C05*", module)
        base["run"] = combine_runs(("", base["run"]),
                                   ("sys.", generic_run("sys", set(), {"C05"}, {"quick": (300, 4), "thorough": (3000, 14)},
                                                        canon=None, scenario_cmd="cnew", full_canon=lambda q, line: line,
                                                        extra_args=["B"], rule=C05_SYS_RULE, subdir="-sys")),
                                   ("chan.", generic_run("chan", {"cch"}, {"C05"}, {"quick": (1500, 4), "thorough": (40000, 14)},
                                                         rule=C05_CHAN_RULE, subdir="-chan"), "cch "))
        base["trusted"] = list(base["trusted"]) + ["the client library's Sender / Receiver (aldrin/src/low_level/channel/established.rs: the sender's count "
                                                   "of announced capacity, the receiver's replenishment at the low-water mark) is not modelled; it is "
                                                   "exercised by the channel rounds of sys scenario B; their capacity bookkeeping is modelled in Model/ClientChan.lean "
                                                   "(composed with the broker's Channel, the system at rest between operations: schedules in which an operation "
                                                   "overtakes messages in flight are covered by sys only) and tied by the chan harness"]
        return base
    if pid == "C10":
        base = broker_prop("C10*", module)
        base["run"] = combine_runs(("", base["run"]),
                                   ("sys.", generic_run("sys", set(), {"C10"}, {"quick": (300, 4), "thorough": (3000, 14)},
                                                        canon=None, scenario_cmd="cnew", full_canon=lambda q, line: line,
                                                        extra_args=["B"], rule=C10_SYS_RULE, subdir="-sys")))
        base["trusted"] = list(base["trusted"]) + ["the client library's fan-out of untagged bus events to the listeners of one client "
                                                   "(aldrin/src/bus_listener.rs) is not modelled; it is exercised by sys scenario B only"]
        return base
    if pid == "C12":
        base = broker_prop("C12*", module)
        base["run"] = combine_runs(("", base["run"]),
                                   ("conv.", generic_run("codec", {"conv"}, {"C13"}, {"quick": (1200, 4), "thorough": (12000, 14)},
                                                         canon=codec_canon, corpus="codec.txt", rule=C12_CONV_RULE, subdir="-conv"), "conv "))
        return base
    if pid in ("C09", "C11"):
        base = broker_prop(pid + "*", module)
        base["run"] = combine_runs(("", base["run"]),
                                   ("connid.", generic_run("connid", {"cid"}, {pid}, {"quick": (3000, 4), "thorough": (60000, 14)},
                                                           rule=CONNID_RULE, subdir="-connid"), "cid a"))
        base["trusted"] = list(base["trusted"]) + [
            "the allocator of connection ids (broker/src/conn_id.rs) is modelled with usize as Nat; that the broker acquires one id "
            "per connection and that the id is released exactly once, when the last Arc clone is dropped, is Rust's ownership "
            "discipline and is taken as given (the harness clones and drops ids in random orders through the verif-hooks wrapper)"]
        return base
    pid = pid.rstrip("*")
    return {
        "props_module": module,
        "namespace": "Aldrin.Broker",
        "level": "proof",
        "run": generic_run("broker", {"bev", "bstats"} if pid == "C09" else ({"bev", "hs"} if pid == "C12" else {"bev"}), {pid}, BROKER_SIZES,
                           canon=broker_canon_for(pid), rule=BROKER_RULE, nontrivial=broker_nontrivial_for(pid),
                           scenario_cmd="breset", full_canon=broker_canon_for("ALL")),
        "trusted": BROKER_TRUSTED,
    }


CODEC_SIZES = {"quick": (2500, 4), "thorough": (12000, 14)}
CODEC_TRUSTED = [
    "modelled, not verified: HashMap/HashSet as lists in wire order (last duplicate wins, compared after sorting); "
    "BytesMut as a byte list; f32/f64 as bit patterns; String::from_utf8 as the model's validUtf8 (differentially tested)",
]

# ---------------------------------------------------------------------------------------------
# C16: the typed harness is its own cargo package (harness-typed) because it only builds when the code
# generator's output for the schema corpus compiles. Quick: the committed corpus. Thorough: additionally
# fresh batches of grammar-generated schemas (tools/gen_schemas.py), each compiled and run.

TYPED_DIR = os.path.join(ROOT, "harness-typed")
C16_RULE = ("schema corpus = harness-typed/schemas (hand-written: all primitives, nested generics, arrays, keys by newtype, "
            "recursion through box/vec/option, fallbacks, Rust keywords as names, documentation with quotes and backslashes, "
            "imports, a service with inline structs / enums; plus committed generated schemas and old/new pairs) and, in the "
            "thorough tier, fresh batches from the grammar-directed generator tools/gen_schemas.py; the build script parses every "
            "schema with aldrin-parser, has rustc compile `aldrin::generate!` for all of them (client, server, introspection) and "
            "derives a type description per struct / enum / newtype / inline type from the AST. Per generated type: conforming "
            "dynamic values from the description in both container encodings (2/3), and values damaged in one place (1/3): "
            "required or optional field removed, unknown field id added, field retyped, Option wrapping changed, struct sent as "
            "map, unknown variant, payload retyped, enum unwrapped, nested damage, value replaced. Each value goes through "
            "deserialize-as-T / serialize-again of the generated type; the result (or `err`) is compared with the model's "
            "`accept`. Implementation-only oracles: conforming values are accepted, decode/encode is stable, a missing required "
            "field is rejected, an unknown field id is tolerated and kept exactly when the struct has a fallback, an unknown "
            "variant is kept or rejected by fallback, generated code does not panic; per old/new pair, data of the new type "
            "survives a pass through the old type")


def _cargo_lock():
    import fcntl
    os.makedirs(WORK, exist_ok=True)
    f = open(os.path.join(WORK, "cargo.lock"), "w")
    fcntl.flock(f, fcntl.LOCK_EX)
    return f


def c16_build_failure(out):
    """cargo build of harness-typed failed: generated code that does not compile is the violation itself."""
    gen = ("typed_gen.rs" in out or "generate!" in out or "aldrin_macros" in out or "schema corpus:" in out
           or "in this macro invocation" in out)
    i = out.find("error")
    tail = (out[i:i + 4000] + "\n[...]\n" + out[-1500:]) if 0 <= i < len(out) - 5500 else out[-6000:]
    if gen:
        return ("codegen-compile", "the code generated for the schema corpus does not compile (or a valid schema is rejected)",
                "property C16: rustc rejects what `aldrin::generate!` produces for the schema corpus in harness-typed/schemas "
                "(or the parser rejects a valid schema of the corpus).\nreplay: cd /verif/harness-typed && cargo build --offline --release\n\n" + tail, True)
    return ("harness", "typed harness no longer builds against /repo",
            "broken tie: cargo build of harness-typed failed\n" + tail, False)


def c16_run(pid, spec, tier, seed, replay):
    thorough = tier == "thorough"
    batches = [None]
    if thorough and not replay:
        batches += [seed * 100 + k for k in range(1, 4)]
    total = {"evaluations": 0, "disagreements": 0, "oracle_failures": 0, "distribution": {}, "samples": [],
             "rule": C16_RULE, "distinct_nontrivial": 0, "shards": 0, "schema_batches": [], "generated_types": 0}
    violations = []
    for bi, b in enumerate(batches):
        wd = os.path.join(WORK, f"{pid}-{tier}-b{bi}")
        subprocess.run(["rm", "-rf", wd])
        os.makedirs(wd, exist_ok=True)
        env = dict(os.environ)
        env["CARGO_NET_OFFLINE"] = "true"
        env.pop("TYPED_SCHEMA_DIR", None)
        if b is not None:
            sdir = os.path.join(wd, "schemas")
            g = _run(["python3", os.path.join(ROOT, "tools", "gen_schemas.py"), str(b), sdir, "10", "4"])
            if g.returncode != 0:
                violations.append(("harness-run", "schema generator failed", "broken tie: tools/gen_schemas.py failed\n" + g.stderr.decode(errors="replace")[-2000:], False))
                continue
            env["TYPED_SCHEMA_DIR"] = sdir
        binary = os.path.join(wd, "typed")
        lock = _cargo_lock()
        try:
            p = subprocess.run(["cargo", "build", "--offline", "--release"], cwd=TYPED_DIR, env=env, stdout=subprocess.PIPE,
                               stderr=subprocess.STDOUT, text=True, timeout=3600)
            if p.returncode == 0:
                subprocess.run(["cp", os.path.join(HARNESS_BIN, "typed"), binary], check=True)
        finally:
            lock.close()
        if p.returncode != 0:
            v = c16_build_failure(p.stdout)
            if b is not None:
                # keep the schemas that do not compile next to the replay
                keep = os.path.join(ROOT, "replays", f"C16-schemas-batch{b}")
                subprocess.run(["rm", "-rf", keep])
                subprocess.run(["cp", "-r", env["TYPED_SCHEMA_DIR"], keep])
                v = (v[0], v[1], v[2].replace("cd /verif/harness-typed && cargo build", f"cd /verif/harness-typed && TYPED_SCHEMA_DIR={keep} cargo build"), v[3])
            violations.append(v)
            continue
        sizes = {"quick": (2500, 4), "thorough": (6000, 14)}
        run = generic_run(binary, {"tyv"}, {"C16"}, sizes, canon=None, rule=C16_RULE, subdir=f"-b{bi}-run")
        res = run(pid, spec, tier, seed + bi, replay)
        c = res["coverage"]
        for k in ("evaluations", "disagreements", "oracle_failures", "distinct_nontrivial", "shards"):
            total[k] += c.get(k, 0)
        for k, v in c.get("distribution", {}).items():
            total["distribution"][k] = total["distribution"].get(k, 0) + v
        total["samples"] = (total["samples"] + c.get("samples", []))[:8]
        try:
            with open(os.path.join(WORK, f"{pid}-{tier}-b{bi}-run", "s0", "stats.json")) as f:
                ntypes = json.load(f).get("types", 0)
        except (OSError, ValueError):
            ntypes = 0
        total["generated_types"] += ntypes
        total["schema_batches"].append({"batch": "committed corpus" if b is None else f"gen_schemas.py seed {b} (10 schemas, 4 old/new pairs) + committed corpus",
                                        "types_compiled": ntypes})
        violations += res["violations"]
        if b is not None:
            subprocess.run(["rm", "-rf", os.path.join(wd, "schemas")])
        subprocess.run(["rm", "-f", binary])
    return {"coverage": total, "violations": violations}


def c20_run(pid, spec, tier, seed, replay):
    """type ids over hand-built IR (typeid harness, against the model) and, for the schema corpus of harness-typed, the
    layouts that the derive / service macros and the code generator produce against the schema (oracle of the typed harness)"""
    base = generic_run("typeid", {"tid"}, {"C20"}, {"quick": (400, 4), "thorough": (6000, 14)},
                       canon=lambda q, line: line.split(" ")[0], rule=C20_RULE)
    res = base(pid, spec, tier, seed, replay)
    if replay:
        return res
    env = dict(os.environ)
    env["CARGO_NET_OFFLINE"] = "true"
    env.pop("TYPED_SCHEMA_DIR", None)
    wd = os.path.join(WORK, f"{pid}-{tier}-layouts")
    subprocess.run(["rm", "-rf", wd])
    os.makedirs(wd, exist_ok=True)
    binary = os.path.join(wd, "typed")
    lock = _cargo_lock()
    try:
        p = subprocess.run(["cargo", "build", "--offline", "--release"], cwd=TYPED_DIR, env=env, stdout=subprocess.PIPE,
                           stderr=subprocess.STDOUT, text=True, timeout=3600)
        if p.returncode == 0:
            subprocess.run(["cp", os.path.join(HARNESS_BIN, "typed"), binary], check=True)
    finally:
        lock.close()
    if p.returncode != 0:
        res["violations"].append(("harness", "typed harness no longer builds against /repo (layouts of generated code not compared)",
                                  "broken tie: cargo build of harness-typed failed\n" + p.stdout[-3000:], False))
        return res
    lay = generic_run(binary, set(), {"C20"}, {"quick": (0, 1), "thorough": (0, 1)}, canon=None, subdir="-layouts-run")
    r2 = lay(pid, spec, tier, seed, None)
    res["coverage"]["oracle_failures"] += r2["coverage"].get("oracle_failures", 0)
    for k, v in r2["coverage"].get("distribution", {}).items():
        res["coverage"]["distribution"][k] = res["coverage"]["distribution"].get(k, 0) + v
    res["coverage"]["generated_layouts_compared"] = sum(v for k, v in r2["coverage"].get("distribution", {}).items() if k.startswith("layout."))
    res["violations"] += r2["violations"]
    subprocess.run(["rm", "-f", binary])
    return res


C20_RULE = ("random type graphs of 1-8 types (structs, enums, newtypes, services, generic built-ins incl. "
            "map/result/array, cycles through custom types, field ids at varint boundaries, docs with quotes / "
            "newlines / non-ASCII) built through the public IR builders and computed by TypeId::compute_from_dyn; "
            "per case the same graph again with fresh docs, shuffled builder calls and shuffled / duplicated "
            "reference lists, and once more after one semantic edit of a reachable type; one request line = one "
            "(graph, root) pair, answered with the final id. Generated code: for every struct, enum, newtype, inline type and "
            "service of the schema corpus (harness-typed/schemas, compiled through `aldrin::generate!` with introspection) the "
            "layout reported by `Introspectable::layout()` is compared with the one derived from the parser's AST (ids, names, "
            "required flags, lexical ids of all types, function / event parts, fallbacks of both kinds, uuid, version)")


PROPS = {
    "C01": {
        "props_module": "Aldrin.Props.C01",
        "level": "proof",
        "run": generic_run("codec", {"encv", "rt", "dec"}, {"C01"}, CODEC_SIZES, canon=codec_canon, corpus="codec.txt",
                           rule="random Value trees (bushy, spines of every nesting kind at depths 1..40, large flat containers, "
                                "integer/varint boundaries, NaN payloads) serialised by the real code in both epochs; each request line "
                                "is one (command, bytes/value) pair; distinct = distinct request lines"),
        "trusted": CODEC_TRUSTED,
    },
    "C07": {
        "props_module": "Aldrin.Props.C07",
        "level": "proof",
        "run": generic_run("codec", {"dec", "skip", "kind"}, {"C07"}, CODEC_SIZES, canon=codec_canon, corpus="codec.txt",
                           rule="valid encodings of generated values (both epochs), 1-3 byte-level mutations/truncations of them, and random "
                                "bytes; per input: decode, skip length, kind; distinct = distinct request lines"),
        "trusted": CODEC_TRUSTED + ["no-panic / bounded-allocation of the Rust code is observed (catch_unwind), not proved"],
    },
    "C13": {
        "props_module": "Aldrin.Props.C13",
        "level": "proof",
        "run": generic_run("codec", {"conv"}, {"C13"}, CODEC_SIZES, canon=codec_canon, corpus="codec.txt",
                           rule="convert(from, to) over versions {none, 1.13, 1.14, 1.17, 1.19, 1.20, 1.21, 0.20, 2.14} on valid encodings of both "
                                "epochs, mutants and random bytes; distinct = distinct request lines"),
        "trusted": CODEC_TRUSTED,
    },
    "C08": {
        "props_module": "Aldrin.Props.C08",
        "level": "proof",
        "run": generic_run("msg", {"frame"}, {"C08"}, {"quick": (20000, 4), "thorough": (150000, 14)}, canon=None, corpus="msg.txt",
                           rule="Arbitrary-generated messages of all 63 kinds (boundary-biased raw material) serialised by the real code, "
                                "1-3 byte-level mutations of such frames with and without a repaired length prefix, and random frames; per frame: "
                                "accept/reject class and the canonical re-serialisation; distinct = distinct frames"),
        "trusted": ["modelled, not verified: BytesMut as a byte list; the typed Rust message structs are represented generically as "
                    "(kind, wire fields in order, value) — the mapping of struct fields to wire positions is what the translator reads from the source"],
    },
    "C14": {
        "props_module": "Aldrin.Props.C14",
        "level": "proof",
        "run": generic_run("frame", {"pk", "tp"}, {"C14"}, {"quick": (2000, 4), "thorough": (20000, 14)}, canon=None, corpus=None,
                           rule="packetizer: 1-8 serialised messages (5 bytes .. 200 KB) fed in chunks under 7 chunking policies (single bytes, "
                                "random, aligned / just past / just short of frame boundaries, up to 70 KB) through extend_from_slice, "
                                "spare_capacity_mut+bytes_written or a mix, with 4 drain patterns; transport: TokioTransport over a scripted "
                                "AsyncRead+AsyncWrite object (short reads/writes, Pending, errors, EOF, zero-length writes) under random "
                                "send/flush/receive sequences; distinct = distinct request lines"),
        "trusted": ["modelled, not verified: BytesMut as a byte list plus an abstract capacity (reserve(n) guarantees capacity >= len + n; "
                    "split_to(n) reduces it by n); the I/O object is a script of results; wakers are not modelled"],
    },
    "C02": broker_prop("C02", "Aldrin.Props.C02"),
    "C03": broker_prop("C03", "Aldrin.Props.C03"),
    "C04": broker_prop("C04", "Aldrin.Props.C04"),
    "C05": broker_prop("C05", "Aldrin.Props.C05"),
    "C09": broker_prop("C09", "Aldrin.Props.C09"),
    "C10": broker_prop("C10", "Aldrin.Props.C10"),
    "C11": broker_prop("C11", "Aldrin.Props.C11"),
    "C12": broker_prop("C12", "Aldrin.Props.C12"),
    "C20": {
        "props_module": "Aldrin.Props.C20",
        "namespace": "Aldrin.TypeIdM",
        "level": "proof",
        "run": c20_run,
        "trusted": ["SHA-1 / UUIDv5 are evaluated by the model's own implementation and compared with the uuid crate on every case; "
                    "collision resistance is assumed", "that the closure loop reaches exactly the reachable types is tied by the "
                    "correspondence, not proved",
                    "the AST-to-layout translation of harness-typed/build.rs (it follows the code generator in giving `vec<u8>` the "
                    "lexical id of `bytes`); that macro-generated layouts are the schema's is an implementation-only oracle on the corpus"],
    },
    "C16": {
        "props_module": "Aldrin.Props.C16",
        "namespace": "Aldrin.Typed",
        "level": "proof",
        "harness_dir": "harness-typed",
        "build_failure": c16_build_failure,
        "run": c16_run,
        "trusted": ["modelled, not verified: the model works on the dynamic value the bytes decode to (C01's decoder), not on the "
                    "typed deserializers' byte walk; depth limits of the typed deserializers and serialization errors are not modelled",
                    "that generated code compiles is established by rustc on the corpus and on generated schemas (a test over "
                    "sampled schemas, not a theorem)",
                    "harness-typed/build.rs derives the type descriptions from the parser's AST and the names of inline types "
                    "from the service and item names"],
    },
    "C18": {
        "props_module": "Aldrin.Props.C18",
        "namespace": "Aldrin.Schema",
        "level": "proof",
        "run": generic_run("fmtc", {"sast", "sfmt", "sval"}, {"C18"}, {"quick": (1500, 4), "thorough": (20000, 14)},
                           canon=None, corpus="fmt.txt",
                           rule="random schema sources as text: every construct of the grammar (imports, structs, enums, newtypes, "
                                "consts of all kinds, services with functions / events in all body forms, inline structs and enums, "
                                "fallbacks in both orders, attributes, file / item / inline doc strings, comments wherever the grammar "
                                "allows them) with random layout (all kinds of Unicode white space, CRLF, missing or excessive blanks), "
                                "odd but legal spellings (keywords as names, names that start with type keywords, negative / huge / "
                                "zero-padded ids, mixed-case uuids, escapes in strings, empty and blank comments, 4-slash docs); 1 in 4 "
                                "sources damaged by one edit (delete / insert / replace a character, truncate). Per source two request "
                                "lines: canonical AST dump (parser) and formatted text (formatter), `err` for syntax errors. "
                                "Implementation-only oracles for every source that parses: the formatted text parses, to the same "
                                "schema with imports as a sorted list, formatting it again changes nothing, the errors and warnings "
                                "(titles of the rendered diagnostics) are the same, nothing panics"),
        "trusted": ["modelled, not verified: identifiers are ASCII only (XID_START / XID_CONTINUE outside ASCII are not modelled; the "
                    "generator does not produce them); validation (errors, warnings) is not modelled, the clause about equal "
                    "diagnostics is an implementation-only oracle", "pest's PEG semantics (ordered choice, greedy repetition without "
                    "backtracking, implicit white space between sequence elements of non-atomic rules) as read from its documentation"],
    },
    "C06": {
        "props_module": "Aldrin.Props.C06",
        "namespace": "Aldrin.Client",
        "level": "proof",
        "run": generic_run("sys", {"cs", "cr", "cend", "cfail"}, {"C06"}, {"quick": (700, 6), "thorough": (9000, 14)},
                           canon=None, scenario_cmd="cnew", full_canon=lambda q, line: line, extra_args=["A", "B", "A", "B", "F"],
                           rule="real Clients driven through the public API (objects, services with a serving task, proxies, calls with and "
                                "without abort, event subscriptions, channels created / shared / claimed / established / used / closed / "
                                "dropped at any point, bus listeners, sync, introspection queries; pending operations dropped at random "
                                "points) by a deterministic executor whose next task is chosen by the PRNG. Scenario A: one client, the harness plays the broker and answers correctly or "
                                "not and injects unsolicited messages; every message given to the client is one line whose answer is what "
                                "the client did (ok / unexpected / panic / shutdown). Scenarios B, F: a real broker, 2-4 clients on bounded "
                                "(1..16) or unbounded transports, operations started at random points of a random schedule, every message "
                                "crossing a client's transport replayed through the model. Implementation-only oracles: no client stops "
                                "with an error, nothing panics, whenever the system is quiescent every operation that only waits for the "
                                "broker is complete (lost wake-up / deadlock), a call returns the value computed for that call, channel "
                                "items arrive in order, every proxy subscribed to an event of a live service gets what its owner emits, "
                                "no task polls its transport 300000 times without returning (busy loop), everything completes once all handles are gone, the broker counts nothing and "
                                "stops when idle"),
        "trusted": ["the harness' executor (a task is polled only when woken; a lost wake-up therefore shows as an incomplete operation "
                    "at quiescence); the fake broker of scenario A; which operations count as waiting for the broker only",
                    "the composed system of the serial-reply theorems assumes order-preserving queues per connection and no reuse of an open serial "
                    "(the latter is checked on every `cs` line); "
                    "the composed invariant for calls and subscriptions, and the client's assertions about its own maps, are sampled by "
                    "scenarios B and F, not proved"],
    },
    "C15": {
        "props_module": "Aldrin.Props.C15",
        "namespace": "Aldrin.Client",
        "level": "proof",
        "run": generic_run("sys", {"cs", "cr", "cend", "cfail"}, {"C15"}, {"quick": (700, 6), "thorough": (9000, 14)},
                           canon=None, scenario_cmd="cnew", full_canon=lambda q, line: line, extra_args=["F", "A", "F"],
                           rule="scenario F: a real broker and 2-4 real clients under a PRNG-chosen schedule; one client is stopped by one of "
                                "handle.shutdown(), dropping every handle, BrokerHandle::shutdown, BrokerHandle::shutdown_connection, or by "
                                "its transport failing at its k-th transport operation (each receive, send, flush counted; k uniform in "
                                "0..70, so also during the handshake and the drain) in one of four ways: error, end of stream, send side "
                                "only (sends fail, nothing arrives any more), receive side only. Checked: the run future returns "
                                "(the model's `cend` answer: clean for the clean causes, transport otherwise), every operation task of "
                                "every client is complete at quiescence, operations started on the stopped client complete at once, the "
                                "other clients end cleanly, the broker counts no connection / object / service / channel / listener and "
                                "stops when idle. Scenario A: the same for one client whose broker is the harness (including messages "
                                "sent while the client drains)"),
        "trusted": ["the harness' executor and transport wrapper (fault = the transport object is dropped and every later operation fails)",
                    "completion of pending operations is drop semantics of futures-channel; observed, not proved"],
    },
    "C17": {
        "props_module": "Aldrin.Props.C17",
        "namespace": "Aldrin.Schema.Span",
        "level": "other",
        "explanation": "proof obligations (Lean theorems about the doc-link position arithmetic, kernel-checked) plus differential runs of the grammar model and implementation-only panic / determinism oracles over the whole pipeline; see rule",
        "run": generic_run("front", {"sast", "slc"}, {"C17"}, {"quick": (1500, 6), "thorough": (25000, 14)},
                           canon=None, extra_args=["/repo"],
                           rule="sources: token soups over the grammar's alphabet (keywords, punctuation, literals, comments, odd white space, "
                                "NUL, BOM, astral characters), mutations of every .aldrin file of the repository (character edits, spliced "
                                "lines, duplicated tails, one identifier renamed throughout - also to names of underscores only; the 83 files also "
                                "unmodified), small random type graphs (newtypes, structs, enums referring to each other, used as map / set keys: "
                                "cycles with and without indirection), generated valid schemas with adversarial markdown in "
                                "every doc position (all link forms, carriage returns, tabs, multi-byte characters next to brackets), some "
                                "damaged; imports provided as valid schemas, as the source itself (cycles), as garbage, or missing. The whole "
                                "pipeline (parse, render every error and warning with two renderer configurations, format, generate Rust "
                                "with introspection when there are no errors) runs twice under catch_unwind, watched by a thread that reports the "
                                "input if a case does not come back within 30 s; a panic, a different set of "
                                "diagnostics (title lines as multisets), different formatted text or generated code is a violation. Lines for "
                                "the model: sast (grammar model: accept / reject and AST of the main schema) and slc (every evaluation of the "
                                "doc-link position arithmetic recorded by the parser's verif-hooks feature); sources with non-ASCII letters outside "
                                "comments and strings are not put to the grammar model (ASCII identifiers only)"),
        "trusted": ["that comrak reports columns >= 1 and start <= end (every column 0 seen is reported as a violation)",
                    "which schema a cross-schema diagnostic names first follows hash-map order and differs between runs; compared are "
                    "title lines (kind, names, ids)"],
    },
    "C19": {
        "props_module": "Aldrin.Props.C19",
        "namespace": "Aldrin.Disc",
        "level": "proof",
        "run": generic_run("disc", {"ddrain", "dstate", "dbus", "lft"}, {"C19"}, {"quick": (160, 4), "thorough": (2000, 14)},
                           canon=None, scenario_cmd=("dnew", "lft"), full_canon=lambda q, line: line,
                           rule="scenarios against a real broker (aldrin-test TestBroker on a current-thread tokio runtime): one client "
                                "creating / destroying objects and services over pools of 3 object and 3 service UUIDs (re-creation under "
                                "new cookies, partial service sets, destruction of objects with services), one client with a Discoverer "
                                "of 1-3 entries of all four kinds, built before or after the bus is populated, restarted (all / current "
                                "only) at random points; after every bus operation the discoverer is drained and its events compared, "
                                "its found-set is dumped at random points and at the end, where it is also checked against the bus "
                                "(implementation-only oracle), and `find_object` for the first entry's request is checked against the bus; every "
                                "fourth scenario: one object UUID created and destroyed under fresh cookies, 1-3 `Lifetime`s bound by "
                                "the other client at a random point to the living id, an id of the past or one that never existed, "
                                "polled after every further operation (answer ended / pending, compared with the model and, as an "
                                "implementation-only oracle, with whether the scope lives); one request line = one bus event / drain / "
                                "dump / lifetime poll"),
        "trusted": ["the harness derives the bus events an operation stands for (object destruction reports its services first) from the "
                    "results of the client API; the order of the discoverer's events for one bus operation is compared as a multiset "
                    "(entries are iterated in hash order)"],
    },
}
