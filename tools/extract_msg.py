"""
Translator for the message layer: derives, for each of the message kinds, the wire layout *twice* —
from `serialize_message` (a set of paths) and from `deserialize_message` (a decision tree) — out of
the Rust source, and emits both as Lean data (`Generated/Msg.lean`). That the two agree is then a
Lean proof obligation, and the generic codec theorems are instantiated with the generated trees.

The bodies are straight-line sequences of `put_varint_u32_le | put_uuid | put_discriminant_u8` /
`try_get_varint_u32_le | try_get_uuid | try_get_discriminant_u8`, `match`es and two helper calls
(`serialize_into_message` / `deserialize_from_message` of `BusListenerFilter`), which is all this
mini-parser understands; anything else is a hard error.
"""
import os
import re

from extract import ExtractError, read, strip_comments, match_block, enum_table, lean_header

TOKEN = re.compile(r"\s*(=>|::|->|[A-Za-z_][A-Za-z0-9_]*|[0-9]+|.)", re.S)


def tokenize(src):
    toks = []
    i = 0
    while i < len(src):
        m = TOKEN.match(src, i)
        if not m:
            break
        t = m.group(1)
        if t.strip():
            toks.append(t)
        i = m.end()
    return toks


OPEN = {"(": ")", "{": "}", "[": "]"}
CLOSE = {")", "}", "]"}


def find_close(toks, i):
    """toks[i] is an opener -> index of the matching closer"""
    depth = 0
    j = i
    while j < len(toks):
        if toks[j] in OPEN:
            depth += 1
        elif toks[j] in CLOSE:
            depth -= 1
            if depth == 0:
                return j
        j += 1
    raise ExtractError("unbalanced tokens")


SER_CALLS = {"put_varint_u32_le": "u32", "put_uuid": "uuid"}
DE_CALLS = {"try_get_varint_u32_le": "u32", "try_get_uuid": "uuid"}


class Ctx:
    def __init__(self, side, helpers, what):
        self.side = side        # "ser" | "de"
        self.helpers = helpers  # name -> node list (already parsed helper bodies)
        self.what = what


def parse_seq(toks, ctx):
    """Token list -> list of nodes in evaluation (= textual) order.
    node = ("item", "u32"|"uuid") | ("disc", Enum, Variant) | ("ctor", mode) | ("fin", mode|None)
         | ("match", head_nodes, [(pattern_tokens, nodes)])"""
    nodes = []
    i = 0
    n = len(toks)
    while i < n:
        t = toks[i]
        if t == "match":
            # head: up to the '{' at depth 0
            j = i + 1
            depth = 0
            while j < n:
                if toks[j] in ("(", "["):
                    depth += 1
                elif toks[j] in (")", "]"):
                    depth -= 1
                elif toks[j] == "{" and depth == 0:
                    break
                j += 1
            if j >= n:
                raise ExtractError(f"{ctx.what}: match without body")
            head = parse_seq(toks[i + 1:j], ctx)
            end = find_close(toks, j)
            arms = parse_arms(toks[j + 1:end], ctx)
            nodes.append(("match", head, arms))
            i = end + 1
            continue
        # method / path calls of interest: name followed by '('
        if i + 1 < n and toks[i + 1] == "(" and re.fullmatch(r"[A-Za-z_]\w*", t):
            close = find_close(toks, i + 1)
            args = toks[i + 2:close]
            name = t
            prev = toks[i - 1] if i > 0 else ""
            if ctx.side == "ser":
                if name in SER_CALLS and prev == ".":
                    nodes.append(("item", SER_CALLS[name]))
                elif name == "put_discriminant_u8" and prev == ".":
                    if len(args) == 3 and args[1] == "::":
                        nodes.append(("disc", args[0], args[2]))
                    elif len(args) == 3 and args[0] == "self" and args[1] == ".":
                        nodes.append(("enumfield", args[2]))
                    else:
                        raise ExtractError(f"{ctx.what}: unrecognised discriminant {' '.join(args)}")
                elif name in ("without_value", "with_value", "with_none_value") and prev == "::":
                    nodes.extend(parse_seq(args, ctx))
                    nodes.append(("ctor", name))
                elif name == "finish" and prev == ".":
                    nodes.append(("fin", None))
                elif name == "serialize_into_message":
                    nodes.extend(ctx.helpers["serialize_into_message"])
                elif name in ("put_u8", "put_slice", "put_u32_le", "extend_from_slice"):
                    raise ExtractError(f"{ctx.what}: raw buffer write `{name}` is not understood")
                else:
                    nodes.extend(parse_seq(args, ctx))
            else:
                if name in DE_CALLS and prev == ".":
                    nodes.append(("item", DE_CALLS[name]))
                elif name == "try_get_discriminant_u8" and prev == ".":
                    if i >= 5 and toks[i - 3] == "=" and toks[i - 5] == "let" and toks[i - 2] == "deserializer":
                        nodes.append(("enumfield", toks[i - 4]))
                    else:
                        nodes.append(("getdisc",))
                elif name == "new" and prev == "::" and i >= 2 and toks[i - 2] in (
                        "MessageWithValueDeserializer", "MessageWithoutValueDeserializer"):
                    nodes.append(("ctor", "with_value" if toks[i - 2] == "MessageWithValueDeserializer" else "without_value"))
                elif name == "finish" and prev == ".":
                    nodes.append(("fin", "keep"))
                elif name == "finish_discard_value" and prev == ".":
                    nodes.append(("fin", "discard"))
                elif name == "deserialize_from_message":
                    nodes.extend(ctx.helpers["deserialize_from_message"])
                elif name in ("try_get_u8", "try_copy_to_slice", "get_u32_le", "advance"):
                    raise ExtractError(f"{ctx.what}: raw buffer read `{name}` is not understood")
                else:
                    nodes.extend(parse_seq(args, ctx))
            i = close + 1
            continue
        if t in OPEN:
            close = find_close(toks, i)
            nodes.extend(parse_seq(toks[i + 1:close], ctx))
            i = close + 1
            continue
        i += 1
    return nodes


def parse_arms(toks, ctx):
    arms = []
    i = 0
    n = len(toks)
    while i < n:
        # pattern until '=>' at depth 0
        depth = 0
        j = i
        while j < n:
            if toks[j] in OPEN:
                depth += 1
            elif toks[j] in CLOSE:
                depth -= 1
            elif toks[j] == "=>" and depth == 0:
                break
            j += 1
        if j >= n:
            break
        pat = toks[i:j]
        k = j + 1
        if k < n and toks[k] == "{":
            end = find_close(toks, k)
            body = toks[k + 1:end]
            k = end + 1
            if k < n and toks[k] == ",":
                k += 1
        else:
            depth = 0
            e = k
            while e < n:
                if toks[e] in OPEN:
                    depth += 1
                elif toks[e] in CLOSE:
                    depth -= 1
                elif toks[e] == "," and depth == 0:
                    break
                e += 1
            body = toks[k:e]
            k = e + 1
        arms.append((pat, parse_seq(body, ctx)))
        i = k
    return arms


def fn_body(src, name, what):
    m = re.search(r"fn\s+" + name + r"\s*(?:<[^>]*>)?\s*\(", src)
    if not m:
        raise ExtractError(f"{what}: fn {name} not found")
    b = src.index("{", m.end())
    return src[b + 1:match_block(src, b) - 1]


def ser_paths(nodes, what):
    """All serializer paths: list of (mode, [items])."""
    paths = [(None, [], False)]  # (mode, items, finished)
    for nd in nodes:
        new = []
        for (mode, items, fin) in paths:
            if nd[0] == "item":
                new.append((mode, items + [nd[1]], fin))
            elif nd[0] == "disc":
                new.append((mode, items + [("disc", nd[1], nd[2])], fin))
            elif nd[0] == "enumfield":
                new.append((mode, items + [("enumfield", nd[1])], fin))
            elif nd[0] == "ctor":
                if mode is not None:
                    raise ExtractError(f"{what}: two serializer constructors on one path")
                new.append((nd[1], items, fin))
            elif nd[0] == "fin":
                new.append((mode, items, True))
            elif nd[0] == "match":
                sub0 = ser_paths(nd[1], what) if nd[1] else [(None, [], False)]
                for (m0, i0, f0) in sub0:
                    for (_pat, body) in nd[2]:
                        for (m1, i1, f1) in ser_paths(body, what):
                            mm = mode
                            for cand in (m0, m1):
                                if cand is not None:
                                    if mm is not None:
                                        raise ExtractError(f"{what}: two serializer constructors on one path")
                                    mm = cand
                            new.append((mm, items + i0 + i1, fin or f0 or f1))
            else:
                raise ExtractError(f"{what}: unexpected node {nd[0]} in serializer")
        paths = new
    return paths


def de_tree(nodes, cont, what):
    """Decision tree of the deserializer. `cont` = tree continuation (as a function of mode) after
    `nodes`. Returns a tree:
      ("u32", k) | ("uuid", k) | ("tag", [(Enum, Variant, k)]) | ("fin", "keep"|"discard"|"none") | ("open",)"""
    if not nodes:
        return cont
    nd, rest = nodes[0], nodes[1:]
    if nd[0] == "item":
        return (nd[1], de_tree(rest, cont, what))
    if nd[0] == "enumfield":
        return ("enumfield", nd[1], de_tree(rest, cont, what))
    if nd[0] == "ctor":
        return ("ctor", nd[1], de_tree(rest, cont, what))
    if nd[0] == "fin":
        k = de_tree(rest, cont, what)
        return ("fin", nd[1], k)
    if nd[0] == "match":
        head = nd[1]
        after = de_tree(rest, cont, what)
        if head and head[-1] == ("getdisc",):
            alts = []
            for (pat, body) in nd[2]:
                if len(pat) == 3 and pat[1] == "::":
                    alts.append((pat[0], pat[2], de_tree(body, after, what)))
                else:
                    raise ExtractError(f"{what}: discriminant arm with unrecognised pattern {' '.join(pat)}")
            return de_tree(head[:-1], ("tag", alts), what)
        # a match on something else must not read
        for (_pat, body) in nd[2]:
            if any(x[0] in ("item", "getdisc", "match", "fin", "ctor", "enumfield") for x in body):
                raise ExtractError(f"{what}: reads inside a match that is not on a discriminant")
        return de_tree(head, after, what)
    if nd[0] == "getdisc":
        raise ExtractError(f"{what}: discriminant read outside a match head")
    raise ExtractError(f"{what}: unexpected node {nd[0]} in deserializer")


def finalize_tree(t, what):
    """Strip ctor/fin bookkeeping: returns (has_value_ctor, tree) where leaves are ("fin", mode)."""
    ctor = [None]

    def go(t):
        if t == ("end",):
            raise ExtractError(f"{what}: deserializer path without finish()")
        if t[0] in ("u32", "uuid"):
            return (t[0], go(t[1]))
        if t[0] == "enumfield":
            return ("enumfield", t[1], go(t[2]))
        if t[0] == "ctor":
            ctor[0] = t[1]
            return go(t[2])
        if t[0] == "fin":
            # everything after finish must not read
            k = t[2]
            if k != ("end",):
                k2 = go_nofin(k)
            return ("fin", t[1])
        if t[0] == "tag":
            return ("tag", [(e, v, go(k)) for (e, v, k) in t[1]])
        raise ExtractError(f"{what}: bad tree node {t[0]}")

    def go_nofin(t):
        if t == ("end",):
            return t
        raise ExtractError(f"{what}: reads after finish()")

    tree = go(t)
    return ctor[0], tree


def tree_paths(tree):
    if tree[0] in ("u32", "uuid"):
        return [(m, [tree[0]] + p) for (m, p) in tree_paths(tree[1])]
    if tree[0] == "enumfield":
        return [(m, [("enumfield", tree[1])] + p) for (m, p) in tree_paths(tree[2])]
    if tree[0] == "fin":
        return [(tree[1], [])]
    if tree[0] == "tag":
        out = []
        for (e, v, k) in tree[1]:
            out.extend((m, [("disc", e, v)] + p) for (m, p) in tree_paths(k))
        return out
    raise ExtractError("bad tree")


def enum_vals(field, fields, enums, what):
    if field not in fields:
        raise ExtractError(f"{what}: cannot find the type of field `{field}`")
    ty = fields[field]
    if ty not in enums:
        raise ExtractError(f"{what}: field `{field}` has type {ty}, which is not a repr(u8) enum")
    return "[" + ", ".join(str(v) for _, v in enums[ty]) + "]"


def lean_item(it, enums, what, fields=None):
    if it == "u32":
        return ".u32"
    if it == "uuid":
        return ".uuid"
    if it[0] == "enumfield":
        return f"(.enumv {enum_vals(it[1], fields, enums, what)})"
    _, e, v = it
    if e not in enums or v not in dict(enums[e]):
        raise ExtractError(f"{what}: unknown discriminant {e}::{v}")
    return f"(.disc {dict(enums[e])[v]})"


def lean_tree(tree, enums, what, ind=2, fields=None):
    pad = " " * ind
    if tree[0] in ("u32", "uuid"):
        return f"(.{tree[0]} {lean_tree(tree[1], enums, what, ind, fields)})"
    if tree[0] == "enumfield":
        return f"(.enumv {enum_vals(tree[1], fields, enums, what)} {lean_tree(tree[2], enums, what, ind, fields)})"
    if tree[0] == "fin":
        return f"(.fin .{tree[1]})"
    if tree[0] == "tag":
        alts = []
        for (e, v, k) in tree[1]:
            if e not in enums or v not in dict(enums[e]):
                raise ExtractError(f"{what}: unknown discriminant {e}::{v}")
            alts.append(f"({dict(enums[e])[v]}, {lean_tree(k, enums, what, ind + 2, fields)})")
        return "(.tag [\n" + pad + "  " + (",\n" + pad + "  ").join(alts) + "])"
    raise ExtractError("bad tree")


def file_repr_enums(repo, rel):
    src = strip_comments(read(repo, rel))
    enums = {}
    for m in re.finditer(r"#\[repr\(u8\)\]\s*(?:#\[[^\]]*\]\s*)*(?:pub(?:\([a-z]+\))?\s+)?enum\s+(\w+)", src):
        enums[m.group(1)] = enum_table(src, m.group(1), rel)
    return enums


def all_repr_enums(repo):
    """Crate-visible repr(u8) enums by name. Names defined in more than one file (private per-file
    enums) are ambiguous here and must be resolved file-locally."""
    enums = {}
    seen = {}
    files = [os.path.join("core/src/message", f) for f in sorted(os.listdir(os.path.join(repo, "core/src/message"))) if f.endswith(".rs")]
    files += ["core/src/bus_listener.rs", "core/src/channel_end.rs", "core/src/message.rs"]
    for rel in files:
        src = strip_comments(read(repo, rel))
        for m in re.finditer(r"#\[repr\(u8\)\]\s*(?:#\[[^\]]*\]\s*)*(?:pub(?:\([a-z]+\))?\s+)?enum\s+(\w+)", src):
            name = m.group(1)
            if name in seen and seen[name] != rel:
                enums.pop(name, None)      # ambiguous: only resolvable inside its own file
                seen[name] = None
                continue
            if seen.get(name, rel) is None:
                continue
            seen[name] = rel
            enums[name] = enum_table(src, name, rel)
    return enums


def gen_msg(repo):
    out = lean_header("messages: kinds, has_value, and the wire layout of every kind derived from serialize_message AND deserialize_message")
    out += ("/-- Wire items after the frame header: a `u32` varint, a 16-byte uuid, a fixed discriminant byte, or a\n"
            "byte that must be one of the discriminants of a `repr(u8)` enum field. -/\n"
            "inductive Item where\n  | u32 | uuid | disc (n : Nat) | enumv (vals : List Nat)\n  deriving DecidableEq, Repr\n\n")
    out += ("/-- How the value slot of a frame is used: `none` = frame without value; `keep` = value carried\n"
            "(`with_value` / `finish()`); `discard` = a `None` value is written and any value is accepted and dropped\n"
            "(`with_none_value` / `finish_discard_value()`). -/\n"
            "inductive VMode where\n  | none | keep | discard\n  deriving DecidableEq, Repr\n\n")
    out += ("/-- Decision tree of a `deserialize_message` body. -/\n"
            "inductive L where\n  | u32 (k : L)\n  | uuid (k : L)\n  | enumv (vals : List Nat) (k : L)\n  | tag (alts : List (Nat × L))\n  | fin (m : VMode)\n  deriving Repr\n\n")
    kind_src = strip_comments(read(repo, "core/src/message/kind.rs"))
    kinds = enum_table(kind_src, "MessageKind", "message kinds")
    out += "def messageKinds : List (String × Nat) := [\n" + ",\n".join(f'  ("{n}", {v})' for n, v in kinds) + "]\n\n"
    # has_value
    hv = fn_body(kind_src, "has_value", "kind.rs")
    m = re.search(r"match\s+self\s*\{(.*)\}", hv, re.S)
    if not m:
        raise ExtractError("has_value: match not found")
    has_value = {}
    for arm in re.finditer(r"((?:\|?\s*Self::\w+\s*)+)=>\s*(true|false)", m.group(1)):
        for k in re.findall(r"Self::(\w+)", arm.group(1)):
            has_value[k] = arm.group(2) == "true"
    for n, _ in kinds:
        if n not in has_value:
            raise ExtractError(f"has_value: no arm for {n}")
    out += "def hasValueTable : List (Nat × Bool) := [\n" + ",\n".join(
        f"  ({v}, {'true' if has_value[n] else 'false'})" for n, v in kinds) + "]\n\n"

    global_enums = all_repr_enums(repo)
    enums = dict(global_enums)
    enums.update(file_repr_enums(repo, "core/src/bus_listener.rs"))
    # helpers from bus_listener.rs
    bl = strip_comments(read(repo, "core/src/bus_listener.rs"))
    helpers = {}
    helpers["serialize_into_message"] = parse_seq(
        tokenize(fn_body(bl, "serialize_into_message", "bus_listener.rs")), Ctx("ser", {}, "BusListenerFilter::serialize_into_message"))
    helpers["deserialize_from_message"] = parse_seq(
        tokenize(fn_body(bl, "deserialize_from_message", "bus_listener.rs")), Ctx("de", {}, "BusListenerFilter::deserialize_from_message"))

    # Message::deserialize_message dispatch table
    msg_src = strip_comments(read(repo, "core/src/message.rs"))
    dispatch = {}
    for mm in re.finditer(r"MessageKind::(\w+)\s*=>\s*\{?\s*(\w+)::deserialize_message\(buf\)\s*\.map\(Self::(\w+)\)", msg_src):
        dispatch[mm.group(1)] = (mm.group(2), mm.group(3))
    for n, _ in kinds:
        if n not in dispatch or dispatch[n][0] != n or dispatch[n][1] != n:
            raise ExtractError(f"Message::deserialize_message: no straightforward dispatch arm for {n}")
    # Message::serialize_message / kind dispatch
    for fn in ("serialize_message",):
        for n, _ in kinds:
            if not re.search(r"Self::" + n + r"\(msg\)\s*=>\s*msg\." + fn + r"\(\)", msg_src):
                raise ExtractError(f"Message::{fn}: no arm for {n}")

    def snake(name):
        s = re.sub(r"(?<!^)(?=[A-Z])", "_", name).lower()
        return re.sub(r"(\D)_(\d)", r"\1\2", s)

    trees = []
    for n, v in kinds:
        rel = f"core/src/message/{snake(n)}.rs"
        src = strip_comments(read(repo, rel))
        mm = re.search(r"impl\s+MessageOps\s+for\s+" + n + r"\s*\{", src)
        if not mm:
            raise ExtractError(f"{rel}: impl MessageOps for {n} not found")
        impl = src[mm.end():match_block(src, mm.end() - 1)]
        what = f"{n}"
        enums = dict(global_enums)
        enums.update(file_repr_enums(repo, "core/src/bus_listener.rs"))
        enums.update(file_repr_enums(repo, rel))     # file-local definitions win
        fields = {}
        sm = re.search(r"pub\s+struct\s+" + n + r"\s*\{", src)
        if sm:
            sbody = src[sm.end():match_block(src, sm.end() - 1) - 1]
            sbody = re.sub(r"#\[[^\]]*\]", "", sbody)
            for fm in re.finditer(r"pub\s+(\w+)\s*:\s*([A-Za-z_][\w:<>]*)", sbody):
                fields[fm.group(1)] = fm.group(2)
        # kind()
        km = re.search(r"fn\s+kind\s*\(&self\)\s*->\s*MessageKind\s*\{\s*MessageKind::(\w+)\s*\}", impl)
        if not km or km.group(1) != n:
            raise ExtractError(f"{what}: kind() does not return MessageKind::{n}")
        ser_nodes = parse_seq(tokenize(fn_body(impl, "serialize_message", what)), Ctx("ser", helpers, what + "::serialize_message"))
        de_nodes = parse_seq(tokenize(fn_body(impl, "deserialize_message", what)), Ctx("de", helpers, what + "::deserialize_message"))
        # kind constants used by the constructors
        for side, body in (("serialize_message", fn_body(impl, "serialize_message", what)), ("deserialize_message", fn_body(impl, "deserialize_message", what))):
            ks = set(re.findall(r"MessageKind::(\w+)", body))
            if ks != {n}:
                raise ExtractError(f"{what}::{side}: uses MessageKind {sorted(ks)} instead of {n}")
        sp = ser_paths(ser_nodes, what + "::serialize_message")
        spaths = []
        for (mode, items, fin) in sp:
            if not fin:
                raise ExtractError(f"{what}::serialize_message: path without finish()")
            if mode is None:
                raise ExtractError(f"{what}::serialize_message: path without MessageSerializer constructor")
            vm = {"without_value": "none", "with_value": "keep", "with_none_value": "discard"}[mode]
            spaths.append((vm, items))
        ctor, tree = finalize_tree(de_tree(de_nodes, ("end",), what + "::deserialize_message"), what + "::deserialize_message")
        if ctor is None:
            raise ExtractError(f"{what}::deserialize_message: no deserializer constructor")

        # normalise fin modes by constructor: without_value + finish() = none
        def norm(t):
            if t[0] in ("u32", "uuid"):
                return (t[0], norm(t[1]))
            if t[0] == "enumfield":
                return ("enumfield", t[1], norm(t[2]))
            if t[0] == "tag":
                return ("tag", [(e, vv, norm(k)) for (e, vv, k) in t[1]])
            if t[0] == "fin":
                if ctor == "without_value":
                    if t[1] != "keep":
                        raise ExtractError(f"{what}: finish_discard_value on a frame without value")
                    return ("fin", "none")
                return ("fin", t[1])
            raise ExtractError("bad tree")
        tree = norm(tree)
        trees.append((n, v, ctor, tree, spaths))
        out += f"/-- `{n}::deserialize_message` ({rel}) -/\n"
        out += f"def deTree{n} : L :=\n  {lean_tree(tree, enums, what, 2, fields)}\n"
        out += f"/-- `{n}::serialize_message`: every path through the body -/\n"
        out += f"def serPaths{n} : List (VMode × List Item) := [\n" + ",\n".join(
            "  (." + vm + ", [" + ", ".join(lean_item(it, enums, what, fields) for it in items) + "])" for (vm, items) in spaths) + "]\n\n"
    out += "def deTrees : List (Nat × L) := [\n" + ",\n".join(f"  ({v}, deTree{n})" for (n, v, _, _, _) in trees) + "]\n\n"
    out += "def serPaths : List (Nat × List (VMode × List Item)) := [\n" + ",\n".join(f"  ({v}, serPaths{n})" for (n, v, _, _, _) in trees) + "]\n\n"
    out += "def deCtorHasValue : List (Nat × Bool) := [\n" + ",\n".join(
        f"  ({v}, {'true' if c == 'with_value' else 'false'})" for (n, v, c, _, _) in trees) + "]\n\n"
    out += "end Aldrin.Generated\n"
    return out
