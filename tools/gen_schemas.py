#!/usr/bin/env python3
"""Grammar-directed generator of valid Aldrin schemas for the C16 harness.

usage: gen_schemas.py <seed> <outdir> <schemas> [<pairs>]

Writes <schemas> schema files g<seed>x<k>.aldrin (structs, enums, newtypes, consts, services with inline
types; all built-in types, nested generics, arrays, optional / required fields, fallbacks, imports of
earlier files of the batch, Rust keywords as names) and <pairs> old/new pairs p<seed>x<k>_old.aldrin /
p<seed>x<k>_new.aldrin in which the new version only adds optional fields and variants and every struct and
enum has a fallback. Every random choice derives from the seed.
"""
import os
import random
import sys

PRIMS = ["bool", "u8", "i8", "u16", "i16", "u32", "i32", "u64", "i64", "f32", "f64", "string", "uuid",
         "object_id", "service_id", "value", "bytes", "unit", "lifetime"]
KEYS = ["u8", "i8", "u16", "i16", "u32", "i32", "u64", "i64", "string", "uuid"]
KW_FIELDS = ["type", "match", "loop", "fn", "struct", "async", "dyn", "mod", "use", "impl", "trait", "ref", "move", "box", "where"]
KW_VARIANTS = ["Box", "Option", "Vec", "String", "Result", "Some", "None", "Ok", "Err"]
IDS = [0, 1, 2, 3, 4, 5, 7, 127, 128, 255, 256, 300, 65535, 65536, 70000, 2 ** 31, 2 ** 32 - 2]
DOCS = ['Plain documentation.', 'Says "hello" to `everyone`.', 'A back\\slash and a [link](https://example.com).',
        "Umlaut ä, euro € and 'single' quotes.", 'Ends with a quote "', '{braces} and #[attr] look-alikes']


class Gen:
    def __init__(self, rng, name, earlier):
        self.r = rng
        self.name = name
        self.earlier = earlier          # [(schema, [(type name, kind, is_key)])]
        self.defs = []                  # (name, kind, is_key)  kind in struct/enum/newtype
        self.imports = set()
        self.lines = []
        self.used_names = set()

    def fresh(self, prefix):
        while True:
            n = f"{prefix}{self.r.randrange(1000)}"
            if n not in self.used_names:
                self.used_names.add(n)
                return n

    def key_type(self):
        cands = [n for (n, k, is_key) in self.defs if is_key]
        ext = [(s, n) for (s, ds) in self.earlier for (n, k, is_key) in ds if is_key]
        c = self.r.random()
        if cands and c < 0.15:
            return self.r.choice(cands)
        if ext and c < 0.25:
            s, n = self.r.choice(ext)
            self.imports.add(s)
            return f"{s}::{n}"
        return self.r.choice(KEYS)

    def ref_type(self):
        """a reference to an already complete definition (never the one being defined: no recursion by value)"""
        ext = [(s, n) for (s, ds) in self.earlier for (n, k, _) in ds]
        if self.defs and (not ext or self.r.random() < 0.7):
            return self.r.choice(self.defs)[0]
        if ext:
            s, n = self.r.choice(ext)
            self.imports.add(s)
            return f"{s}::{n}"
        return None

    def ty(self, depth, self_name=None):
        r = self.r
        c = r.random()
        if depth <= 0 or c < 0.30:
            return r.choice(PRIMS)
        if c < 0.42:
            t = self.ref_type()
            if t:
                return t
        if c < 0.50:
            return f"option<{self.ty(depth - 1, self_name)}>"
        if c < 0.55:
            return f"box<{self.ty(depth - 1, self_name)}>"
        if c < 0.65:
            return f"vec<{self.ty(depth - 1, self_name)}>"
        if c < 0.73:
            return f"map<{self.key_type()} -> {self.ty(depth - 1, self_name)}>"
        if c < 0.78:
            return f"set<{self.key_type()}>"
        if c < 0.84:
            return f"result<{self.ty(depth - 1, self_name)}, {self.ty(depth - 1, self_name)}>"
        if c < 0.90:
            return f"[{self.ty(depth - 1, self_name)}; {r.choice([1, 2, 3, 4])}]"
        if c < 0.93:
            return f"sender<{self.ty(depth - 1)}>"
        if c < 0.96:
            return f"receiver<{self.ty(depth - 1)}>"
        if self_name:
            # recursion only behind an indirection
            return r.choice([f"vec<{self_name}>", f"option<box<{self_name}>>", f"map<string -> {self_name}>", f"vec<box<{self_name}>>"])
        return r.choice(PRIMS)

    def doc(self, indent):
        if self.r.random() < 0.25:
            return [f"{indent}/// {self.r.choice(DOCS)}"]
        return []

    def struct_body(self, indent, self_name, force_fb=False, fields=None):
        r = self.r
        out = []
        n = r.choice([0, 1, 2, 3, 4, 6]) if fields is None else fields
        ids = r.sample(IDS, n)
        names = set()
        for i in range(n):
            nm = r.choice(KW_FIELDS) if r.random() < 0.15 else f"f{r.randrange(100)}"
            while nm in names:
                nm = f"f{r.randrange(1000)}"
            names.add(nm)
            out += self.doc(indent)
            req = "required " if r.random() < 0.45 else ""
            out.append(f"{indent}{req}{nm} @ {ids[i]} = {self.ty(3, self_name)};")
        if force_fb or r.random() < 0.4:
            out.append(f"{indent}{r.choice(['unknown', 'rest', 'other_fields'])} = fallback;")
        return out

    def enum_body(self, indent, self_name, force_fb=False):
        r = self.r
        out = []
        n = r.choice([1, 2, 3, 5])
        ids = r.sample(IDS, n)
        names = set()
        for i in range(n):
            nm = r.choice(KW_VARIANTS) if r.random() < 0.15 else f"V{r.randrange(100)}"
            while nm in names:
                nm = f"V{r.randrange(1000)}"
            names.add(nm)
            out += self.doc(indent)
            if r.random() < 0.35:
                out.append(f"{indent}{nm} @ {ids[i]};")
            else:
                out.append(f"{indent}{nm} @ {ids[i]} = {self.ty(3, self_name)};")
        if force_fb or r.random() < 0.4:
            out.append(f"{indent}{r.choice(['Unknown', 'Other', 'Fallback'])} = fallback;")
        return out

    def definition(self):
        r = self.r
        c = r.random()
        if c < 0.40:
            name = self.fresh("S")
            self.lines += self.doc("") + [f"struct {name} {{"] + self.struct_body("    ", name) + ["}", ""]
            self.defs.append((name, "struct", False))
        elif c < 0.70:
            name = self.fresh("E")
            self.lines += self.doc("") + [f"enum {name} {{"] + self.enum_body("    ", name) + ["}", ""]
            self.defs.append((name, "enum", False))
        elif c < 0.90:
            name = self.fresh("N")
            if r.random() < 0.4:
                t = self.key_type()
                is_key = True
            else:
                t = self.ty(3)
                is_key = t in KEYS
            self.lines += self.doc("") + [f"newtype {name} = {t};", ""]
            self.defs.append((name, "newtype", is_key))
        else:
            name = self.fresh("C").upper() if False else f"CONST_{r.randrange(1000)}"
            if name in self.used_names:
                return
            self.used_names.add(name)
            kind = r.choice(["u8", "i8", "u16", "i16", "u32", "i32", "u64", "i64", "string", "uuid"])
            if kind == "string":
                val = '"' + r.choice(["", "abc", "with \\\"quotes\\\"", "back\\\\slash"]) + '"'
            elif kind == "uuid":
                val = "%08x-%04x-%04x-%04x-%012x" % (r.getrandbits(32), r.getrandbits(16), r.getrandbits(16), r.getrandbits(16), r.getrandbits(48))
            elif kind.startswith("u"):
                val = str(r.randrange(0, 2 ** (int(kind[1:])) - 1))
            else:
                b = int(kind[1:])
                val = str(r.randrange(-(2 ** (b - 1)), 2 ** (b - 1) - 1))
            self.lines += [f"const {name} = {kind}({val});", ""]

    def part(self, indent):
        r = self.r
        c = r.random()
        if c < 0.4:
            return [self.ty(2) + ";"]
        if c < 0.7:
            return ["struct {"] + self.struct_body(indent + "    ", None) + [indent + "}"]
        return ["enum {"] + self.enum_body(indent + "    ", None) + [indent + "}"]

    def service(self):
        r = self.r
        name = self.fresh("Svc")
        uuid = "%08x-%04x-%04x-%04x-%012x" % (r.getrandbits(32), r.getrandbits(16), r.getrandbits(16), r.getrandbits(16), r.getrandbits(48))
        out = [f"service {name} {{", f"    uuid = {uuid};", f"    version = {r.randrange(1, 100)};", ""]
        fids = r.sample(IDS, 4)
        for i in range(r.randrange(1, 4)):
            fn = f"fun_{'abcdefgh'[i]}{r.choice(['', '_more', '_x'])}"
            c = r.random()
            if c < 0.15:
                out.append(f"    fn {fn} @ {fids[i]};")
            elif c < 0.3:
                p = self.part("    ")
                out.append(f"    fn {fn} @ {fids[i]} = {p[0]}")
                out += p[1:]
            else:
                out.append(f"    fn {fn} @ {fids[i]} {{")
                for what in ("args", "ok", "err"):
                    if r.random() < 0.6:
                        p = self.part("        ")
                        out.append(f"        {what} = {p[0]}")
                        out += p[1:]
                out.append("    }")
            out.append("")
        eids = r.sample(IDS, 3)
        for i in range(r.randrange(0, 3)):
            ev = f"ev_{'abc'[i]}{r.choice(['', '_changed'])}"
            if r.random() < 0.2:
                out.append(f"    event {ev} @ {eids[i]};")
            else:
                p = self.part("    ")
                out.append(f"    event {ev} @ {eids[i]} = {p[0]}")
                out += p[1:]
            out.append("")
        if r.random() < 0.3:
            out.append("    fn unknown_function = fallback;")
        out += ["}", ""]
        self.lines += out

    def render(self):
        head = [f"import {s};" for s in sorted(self.imports)]
        if head:
            head.append("")
        return "\n".join(head + self.lines) + "\n"


def gen_schema(rng, name, earlier):
    g = Gen(rng, name, earlier)
    for _ in range(rng.randrange(3, 8)):
        g.definition()
    if rng.random() < 0.5:
        g.service()
    return g


def gen_pair(rng, stem):
    """old/new versions of the same schema: new adds optional fields / variants; everything has a fallback"""
    old_lines, new_lines = [], []
    names = []
    for k in range(rng.randrange(2, 5)):
        g = Gen(rng, stem, [])
        g.defs = list(names)
        if rng.random() < 0.6:
            name = f"R{k}"
            base = [l for l in g.struct_body("    ", name, force_fb=True)]
            fb = base.pop()
            used = {int(l.split("@")[1].split("=")[0]) for l in base if "@" in l}
            extra = []
            free = [i for i in IDS if i not in used]
            for j, i in enumerate(rng.sample(free, rng.randrange(1, 3))):
                extra.append(f"    added{j} @ {i} = {g.ty(2, name)};")
            old_lines += [f"struct {name} {{"] + base + [fb, "}", ""]
            new_lines += [f"struct {name} {{"] + base + extra + [fb, "}", ""]
            names.append((name, "struct", False))
        else:
            name = f"K{k}"
            base = [l for l in g.enum_body("    ", name, force_fb=True)]
            fb = base.pop()
            used = {int(l.split("@")[1].split("=")[0].rstrip(";")) for l in base if "@" in l}
            free = [i for i in IDS if i not in used]
            extra = []
            for j, i in enumerate(rng.sample(free, rng.randrange(1, 3))):
                if rng.random() < 0.3:
                    extra.append(f"    Added{j} @ {i};")
                else:
                    extra.append(f"    Added{j} @ {i} = {g.ty(2, name)};")
            old_lines += [f"enum {name} {{"] + base + [fb, "}", ""]
            new_lines += [f"enum {name} {{"] + base + extra + [fb, "}", ""]
            names.append((name, "enum", False))
    return "\n".join(old_lines) + "\n", "\n".join(new_lines) + "\n"


def main():
    seed = int(sys.argv[1])
    outdir = sys.argv[2]
    count = int(sys.argv[3])
    pairs = int(sys.argv[4]) if len(sys.argv) > 4 else 0
    os.makedirs(outdir, exist_ok=True)
    rng = random.Random(seed)
    earlier = []
    for k in range(count):
        name = f"g{seed}x{k}"
        g = gen_schema(rng, name, earlier[-2:])
        with open(os.path.join(outdir, name + ".aldrin"), "w", encoding="utf-8") as f:
            f.write(g.render())
        earlier.append((name, g.defs))
    for k in range(pairs):
        stem = f"p{seed}x{k}"
        old, new = gen_pair(rng, stem)
        with open(os.path.join(outdir, stem + "_old.aldrin"), "w", encoding="utf-8") as f:
            f.write(old)
        with open(os.path.join(outdir, stem + "_new.aldrin"), "w", encoding="utf-8") as f:
            f.write(new)


if __name__ == "__main__":
    main()
