#!/bin/bash
# Run checks against a seeded change: tools/seedtest.sh <seeded-dir> <property-id>...
# Applies <seeded-dir>/patch.diff to /repo, runs the quick checks (evidence goes to work/seed-evidence),
# and always reverts /repo afterwards.
set -u
dir="$1"; shift
cd "$(dirname "$0")/.."
git -C /repo apply "$PWD/$dir/patch.diff" || { echo "patch does not apply"; exit 2; }
trap 'git -C /repo checkout -- . ; git -C /repo clean -fdq -- . 2>/dev/null' EXIT
rc=0
for p in "$@"; do
  VERIF_EVIDENCE_DIR="$PWD/work/seed-evidence" ./check "$p" --tier "${TIER:-quick}" || rc=1
done
exit $rc
