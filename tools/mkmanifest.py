#!/usr/bin/env python3
"""Regenerates MANIFEST.json from tools/manifest_data.py (kept in one place so it is always valid)."""
import json, os, sys
ROOT = os.path.dirname(os.path.dirname(os.path.abspath(__file__)))
sys.path.insert(0, os.path.join(ROOT, "tools"))
from manifest_data import CLAIMS, NOT_APPLICABLE, HOOK_COMMITS

all_ids = [json.loads(l)["id"] for l in open(os.path.join(ROOT, "properties.jsonl"))]
checks = []
for pid in all_ids:
    if pid in CLAIMS:
        c = CLAIMS[pid]
        checks.append({
            "property_id": pid,
            "quick_cmd": f"./check {pid} --tier quick",
            "thorough_cmd": f"./check {pid} --tier thorough",
            "evidence_file": f"/verif/evidence/{pid}.json",
            "replay_cmd_template": f"./check {pid} --replay {{path}}",
            "engine": "lean4+correspondence",
            "level_claimed": {"category": c.get("category", "proof"), "text": c["text"], "design_ref": c.get("design_ref", "DESIGN.md section 6")},
            "level_note": c["note"],
            "technique": c.get("technique", "Lean 4 theorems about an executable model + differential correspondence with the Rust code"),
        })
na = [{"property_id": pid, "reason": NOT_APPLICABLE.get(pid, "not claimed yet: model and theorems for this property are still under construction (see DESIGN.md section 9)")}
      for pid in all_ids if pid not in CLAIMS]
m = {
    "version": 1,
    "setup_cmd": "./check --setup",
    "hooks": {
        "guard": "cargo feature `verif-hooks` (aldrin-broker, aldrin-parser)",
        "enable": "the harness crate depends on the /repo crates by path and enables their `verif-hooks` feature",
        "baseline_off_cmd": "cd /repo && cargo test --workspace --no-fail-fast --offline",
        "source_commits": HOOK_COMMITS,
        "add_only": True,
    },
    "engines": [
        {"name": "lean4+correspondence", "path": "/verif/check",
         "serves_properties": sorted(CLAIMS.keys()),
         "kind_free_text": "Lean 4 models and theorems (lean/), tables regenerated from the Rust source by tools/extract.py, Rust differential harness (harness/) against a compiled Lean driver"},
    ],
    "checks": checks,
    "not_applicable": na,
    "notes": "Single entry point ./check <ID> --tier quick|thorough; see DESIGN.md. Known findings: known_findings.json.",
}
with open(os.path.join(ROOT, "MANIFEST.json"), "w") as f:
    json.dump(m, f, indent=1)
    f.write("\n")
print("MANIFEST.json:", len(checks), "claimed,", len(na), "not claimed")
