#!/bin/bash
# tools/ingest_seed.sh <worktree> <mN> <seed-id> <crate> <property-id>...
# 1. confirm in the scratch worktree that the demo fails with the patch and passes without it,
# 2. store the seed under seeded/<seed-id>/, 3. run the given checks against it (repo is reverted afterwards).
set -u
wt="$1"; m="$2"; id="$3"; crate="$4"; shift 4
cd "$(dirname "$0")/.."
src="$wt/out/$m"
dst="seeded/$id"
mkdir -p "$dst" work/seedlogs
cp "$src/patch.diff" "$dst/patch.diff"
cp "$src/demo.rs" "$dst/demo.rs"
[ -f "$src/notes.txt" ] && cp "$src/notes.txt" "$dst/notes.txt"
log="work/seedlogs/$id.log"
: > "$log"
export CARGO_TARGET_DIR="$wt/target" CARGO_NET_OFFLINE=true
cdir="$wt/$crate"
if [ "$crate" = aldrin ]; then pkg=aldrin; else pkg="aldrin-${crate#aldrin-}"; fi
mkdir -p "$cdir/tests"
cp "$src/demo.rs" "$cdir/tests/seed_demo.rs"
git -C "$wt" apply "$PWD/$dst/patch.diff" || { echo "patch does not apply in worktree" | tee -a "$log"; exit 2; }
( cd "$wt" && cargo test --offline -p "$pkg" --test seed_demo ${SEED_FEATURES:-} >> "$OLDPWD/$log" 2>&1 ); with=$?
git -C "$wt" checkout -- . 
( cd "$wt" && cargo test --offline -p "$pkg" --test seed_demo ${SEED_FEATURES:-} >> "$OLDPWD/$log" 2>&1 ); without=$?
rm -f "$cdir/tests/seed_demo.rs"
rmdir "$cdir/tests" 2>/dev/null
unset CARGO_TARGET_DIR
echo "CONFIRM $id demo_with_patch_rc=$with demo_clean_rc=$without" | tee -a "$log"
res=""
for p in "$@"; do
  out=$(tools/seedtest.sh "$dst" "$p" 2>&1); rc=$?
  echo "$out" >> "$log"
  v=$(echo "$out" | grep -m1 '^VIOLATION' || true)
  echo "SEEDTEST $id $p rc=$rc ${v}" | tee -a "$log"
done
