"""
Translator for the broker tables: per-handler protocol-version gates, the other version-dependent
branches, channel / acceptor constants, the deferred-work priority order of
`process_loop_result`, and the list of message kinds the broker rejects outright.
"""
import re

from extract import ExtractError, read, strip_comments, match_block, const_int, lean_header


def fn_body(src, name, what, nth=0):
    ms = list(re.finditer(r"fn\s+" + name + r"\s*(?:<[^>]*>)?\s*\(", src))
    if len(ms) <= nth:
        raise ExtractError(f"{what}: fn {name} not found")
    b = src.index("{", ms[nth].end())
    return src[b + 1:match_block(src, b) - 1]


def version_const(tok, what):
    m = re.fullmatch(r"ProtocolVersion::V(\d+)_(\d+)", tok.strip())
    if not m:
        raise ExtractError(f"{what}: unrecognised version constant {tok!r}")
    if m.group(1) != "1":
        raise ExtractError(f"{what}: major version {m.group(1)} is not modelled")
    return int(m.group(2))


def camel(name):
    return "".join(p.capitalize() for p in name.split("_"))


def gen_broker(repo):
    out = lean_header("broker: version gates, version-dependent branches, constants, work order")
    br = strip_comments(read(repo, "broker/src/broker.rs"))
    # drop the not(feature = "introspection") variants: the harness builds with the feature on
    br_i = re.sub(r"#\[cfg\(not\(feature = \"introspection\"\)\)\]\s*fn\s+\w+[^{]*\{", lambda m: "fn __disabled_" + m.group(0).split("fn ", 1)[1], br)
    gated = ["call_function2", "abort_function_call", "register_introspection", "query_introspection",
             "query_introspection_reply", "create_service2", "query_service_info", "subscribe_service",
             "unsubscribe_service", "subscribe_all_events", "unsubscribe_all_events"]
    ungated = ["create_object", "destroy_object", "create_service", "destroy_service", "call_function",
               "call_function_reply", "subscribe_event", "unsubscribe_event", "emit_event",
               "query_service_version", "create_channel", "close_channel_end", "claim_channel_end",
               "add_channel_capacity", "send_item", "sync", "create_bus_listener", "destroy_bus_listener",
               "add_bus_listener_filter", "remove_bus_listener_filter", "clear_bus_listener_filters",
               "start_bus_listener", "stop_bus_listener"]
    gate_re = re.compile(r"if\s+conn\.version\(\)\s*<\s*(ProtocolVersion::V\d+_\d+)\s*\{\s*return\s+Err\(\(\)\);\s*\}")
    for h in gated:
        body = fn_body(br_i, h, "broker.rs")
        ms = gate_re.findall(body)
        if len(ms) != 1:
            raise ExtractError(f"broker.rs::{h}: expected exactly one version gate, found {len(ms)}")
        out += f"/-- `{h}`: connections below 1.{version_const(ms[0], h)} are closed -/\n"
        out += f"def gate{camel(h)} : Nat := {version_const(ms[0], h)}\n"
    for h in ungated:
        body = fn_body(br_i, h, "broker.rs")
        if gate_re.search(body):
            raise ExtractError(f"broker.rs::{h}: unexpected version gate")
    out += "\n"
    # other version-dependent branches
    body = fn_body(br_i, "call_function_impl", "broker.rs")
    m = re.search(r"if\s+callee_conn\.version\(\)\s*>=\s*(ProtocolVersion::V\d+_\d+)\s*\{", body)
    if not m:
        raise ExtractError("call_function_impl: callee version branch not found")
    out += f"/-- callee connections from this version on receive `CallFunction2`, older ones `CallFunction` -/\ndef callFunction2MinCallee : Nat := {version_const(m.group(1), 'call_function_impl')}\n"
    body = fn_body(br_i, "abort_call", "broker.rs")
    m = re.search(r"if\s+conn\.version\(\)\s*>=\s*(ProtocolVersion::V\d+_\d+)\s*\{", body)
    if not m:
        raise ExtractError("abort_call: callee version branch not found")
    out += f"/-- `AbortFunctionCall` is forwarded only to callees from this version on -/\ndef abortMinCallee : Nat := {version_const(m.group(1), 'abort_call')}\n"
    for h in ("subscribe_all_events", "unsubscribe_all_events"):
        body = fn_body(br_i, h, "broker.rs")
        m = re.search(r"if\s+target_conn\.version\(\)\s*<\s*(ProtocolVersion::V\d+_\d+)\s*\{", body)
        if not m:
            raise ExtractError(f"{h}: owner version branch not found")
        out += f"/-- `{h}`: owners below this version answer NotSupported -/\ndef {''.join([h.split('_')[0]] + [p.capitalize() for p in h.split('_')[1:]])}MinOwner : Nat := {version_const(m.group(1), h)}\n"
    body = fn_body(br_i, "create_service2", "broker.rs")
    m = re.search(r"if\s+conn\.version\(\)\s*<\s*(ProtocolVersion::V\d+_\d+)\s*\{\s*info\s*=\s*info\.set_subscribe_all\(false\);\s*\}", body)
    if not m:
        raise ExtractError("create_service2: subscribe_all downgrade not found")
    out += f"/-- `create_service2`: `subscribe_all` is forced off for owners below this version -/\ndef subscribeAllMinOwnerAtCreate : Nat := {version_const(m.group(1), 'create_service2')}\n\n"

    # create_channel: is the gauge updated before the (fallible) reply, or only after it succeeded?
    body = fn_body(br_i, "create_channel", "broker.rs")
    i_send = body.find("CreateChannelReply")
    i_stat = body.find("num_channels.saturating_add(1)")
    i_ins = body.find("self.channels.insert(")
    if i_send < 0 or i_stat < 0 or i_ins < 0 or i_ins > i_send:
        raise ExtractError("create_channel: unrecognised shape")
    out += "/-- `create_channel`: is `num_channels` incremented before the reply is sent (true) or only after the send succeeded (false)? -/\n"
    out += f"def createChannelCountsBeforeReply : Bool := {'true' if i_stat < i_send else 'false'}\n\n"

    ch = strip_comments(read(repo, "broker/src/broker/channel.rs"))
    out += f"def brokerLowCapacity : Nat := {const_int(ch, 'LOW_CAPACITY', 'channel.rs')}\n"
    out += f"def brokerFifoSize : Nat := {const_int(br, 'FIFO_SIZE', 'broker.rs')}\n"
    est = strip_comments(read(repo, "aldrin/src/low_level/channel/established.rs"))
    out += "/-- the client-side `Receiver` tops its capacity up to the maximum when it is at or below this mark -/\n"
    out += f"def clientLowCapacity : Nat := {const_int(est, 'LOW_CAPACITY', 'established.rs')}\n\n"

    # process_loop_result: order of the pop_* calls
    body = fn_body(br, "process_loop_result", "broker.rs")
    order = re.findall(r"state\.pop_(\w+)\(\)", body)
    expected = ["remove_conn", "unsubscribe_event", "unsubscribe_all_events", "services_destroyed",
                "remove_function_call", "create_object", "create_service", "destroy_service",
                "destroy_object", "abort_function_call"]
    out += "/-- priority order of the deferred work classes in `process_loop_result` -/\n"
    out += "def workOrder : List String := [" + ", ".join(f'"{o}"' for o in order) + "]\n"
    out += "def workOrderExpected : List String := [" + ", ".join(f'"{o}"' for o in expected) + "]\n\n"

    # kinds rejected outright by handle_message
    body = fn_body(br, "handle_message", "broker.rs")
    m = re.search(r"((?:\|?\s*Message::\w+\(_\)\s*)+)=>\s*return\s+Err\(\(\)\)", body)
    if not m:
        raise ExtractError("handle_message: rejected kinds arm not found")
    rejected = re.findall(r"Message::(\w+)\(_\)", m.group(1))
    out += "def rejectedKinds : List String := [" + ", ".join(f'"{k}"' for k in rejected) + "]\n\n"

    # acceptor
    ac = strip_comments(read(repo, "broker/src/acceptor.rs"))
    body = fn_body(ac, "select_protocol_version", "acceptor.rs")
    mn = re.search(r"const\s+MIN\s*:\s*ProtocolVersion\s*=\s*(ProtocolVersion::V\d+_\d+)\s*;", body)
    mx = re.search(r"const\s+MAX\s*:\s*ProtocolVersion\s*=\s*(ProtocolVersion::V\d+_\d+)\s*;", body)
    if not mn or not mx:
        raise ExtractError("select_protocol_version: MIN/MAX not found")
    shape = re.sub(r"\s+", " ", body)
    want = ("if version.major() != MIN.major() { None } else if connect2 { if version.minor() >= MIN.minor() { "
            "let minor = version.minor().min(MAX.minor()); Some(ProtocolVersion::new(MIN.major(), minor)) } else { None } } "
            "else if version.minor() == ProtocolVersion::V1_14.minor() { Some(ProtocolVersion::V1_14) } else { None }")
    if want not in shape:
        raise ExtractError("select_protocol_version has an unrecognised shape")
    out += f"def acceptMinMinor : Nat := {version_const(mn.group(1), 'acceptor MIN')}\n"
    out += f"def acceptMaxMinor : Nat := {version_const(mx.group(1), 'acceptor MAX')}\n"
    out += "def acceptLegacyMinor : Nat := 14\n"
    out += "\nend Aldrin.Generated\n"
    return out
