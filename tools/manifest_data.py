HOOK_COMMITS = ["233a917 parser: optional verif-hooks feature recording doc-link position arithmetic",
                "7df6383 broker: optional verif-hooks feature exposing the allocator of connection ids"]

CODEC_NOTE = ("Trusted: Lean kernel + axioms propext/Classical.choice/Quot.sound; tools/extract.py; the differential harness. "
              "Modelled rather than verified: HashMap/HashSet as lists in wire order, BytesMut as byte lists, floats as bit patterns, "
              "String::from_utf8 as the model's validUtf8, integer arithmetic on unbounded Nat/Int with explicit range hypotheses.")

CLAIMS = {
    "C01": {
        "text": "Machine-checked proof (Lean 4) over the executable codec model: round trip for both container encodings for every "
                "well-formed value of depth <= 32 (roundtrip, roundtrip_prefix), rejection with the nesting error by serialization and by "
                "deserialization for every deeper value (too_deep_ser, too_deep_de), serialization fails only for that reason, and the decoder "
                "never exhausts its recursion budget on any input (decode_terminates). Kind bytes, key tables and the depth limit are "
                "regenerated from the Rust source on every run; the model is tied to the code by differential runs of the real serializer/"
                "deserializer against the compiled model (both epochs, depths 1..40, every nesting kind, varint boundaries).",
        "note": CODEC_NOTE + " Real stack usage and allocation of the Rust code are not modelled.",
        "design_ref": "DESIGN.md section 6 C01, section 5 M1/M2",
    },
}

CLAIMS["C07"] = {
    "text": "Machine-checked proof (Lean 4) over the executable model, for ALL byte strings: whenever decoding succeeds, skipping succeeds "
            "and stops at exactly the same byte (skip_of_decode, len_eq); skipping succeeds exactly when decoding without UTF-8 validation "
            "does (skip_iff_decode_no_utf8), nesting errors coincide (skip_tooDeep_iff); decode/skip/kind never exhaust their recursion budget "
            "on any input (decode_total, skip_total, kind_total); a decoded value is never larger than the bytes it came from (decode_size). "
            "The skip widths/modes of Deserializer::skip and KeyTagImpl::skip are regenerated from the source on every run and are proof "
            "obligations (key_skip_table, skipKey_restOf). Tie: differential runs of decode / len / kind / opaque split of the real code "
            "against the compiled model on valid encodings, mutants, truncations and random bytes.",
    "note": CODEC_NOTE + " Absence of panics, out-of-bounds reads and the actual allocation behaviour of the Rust code are observed by the "
            "harness (catch_unwind on every case), not proved: partial on that clause.",
    "design_ref": "DESIGN.md section 6 C07",
}
CLAIMS["C13"] = {
    "text": "Machine-checked proof (Lean 4): the converter equals 'decode without UTF-8 validation, then write the legacy encoding' "
            "(conv_dec_all, convert_is_reencode); hence converting a well-formed value to a pre-1.20 version succeeds and the result decodes "
            "to the same value both with the current decoder and with a decoder to which kinds 43..65 do not exist (convert_preserves), "
            "same-or-newer epoch is the identity (convert_same_or_newer), conversion is idempotent (convert_idem), fails only for bad "
            "versions / undecodable input (convert_fails_only_if, convert_bad_version) and never exhausts its budget (convert_total). The epoch "
            "table is regenerated from convert_value.rs (epoch_table). Tie: SerializedValueSlice::convert of the real code vs. the model over "
            "9 from/to versions on valid encodings of both epochs, mutants and random bytes.",
    "note": CODEC_NOTE + " Hypothesis bs.length <= u32::MAX mirrors the Overflow branch of the code (element count >= 2^32).",
    "design_ref": "DESIGN.md section 6 C13",
}

CLAIMS["C08"] = {
    "text": "Translation + machine-checked proof (Lean 4). tools/extract_msg.py translates, on every run, each of the 63 "
            "serialize_message bodies into its set of wire paths and each deserialize_message body into a decision tree; Lean then proves "
            "(by kernel evaluation over the generated tables) that for every kind the two describe the same set of layouts (ser_de_agree), "
            "that the kind table is 0..62 without gaps and matches the dispatcher (kind_table, tables_ok), and — generically for any such "
            "tree — the frame round trip with correct length prefix and identical payload (msg_roundtrip), strict acceptance (msg_strict: "
            "length >= 5, prefix = length, known kind, fields follow the layout, nothing left over) and that whatever is accepted "
            "re-serialises to a frame that parses to the same message (msg_reserialize). Tie for the frame header logic and the varint/uuid "
            "readers: differential runs of Message::deserialize_message/serialize_message against the compiled model.",
    "note": "Trusted: Lean kernel (+propext, Classical.choice, Quot.sound), the translator (a mini-parser for the straight-line Rust subset used "
            "by the message bodies; anything it does not understand is a hard error), the differential harness. No-panic of the Rust parser "
            "is observed (catch_unwind), not proved.",
    "design_ref": "DESIGN.md section 6 C08",
    "technique": "source-to-Lean translation of the 63 message layouts + Lean 4 proofs + differential correspondence",
}

CLAIMS["C14"] = {
    "text": "Machine-checked proof (Lean 4) over executable models of Packetizer and of TokioTransport against a scripted I/O object: for "
            "every list of length-prefixed frames and EVERY sequence of extend / fill / next_message operations the frames handed out are "
            "exactly a prefix of the original frames, in order, none early or twice, and buffered + unfed bytes are exactly the remaining "
            "frames (packetizer_prefix); once everything is fed, draining yields exactly the original frames (packetizer_chunking); the "
            "slice offered for filling is never empty (spare_slice_nonempty — the shape of that code is read from the source); for every "
            "script of write results written ++ buffered = frames sent (transport_send_conserves), a flush succeeds only with everything "
            "written (flush_done), zero-length writes and end-of-stream are errors (write_zero_is_error, eof_is_error), and every "
            "receive_poll is a packetizer run on the pending input, so received frames are the input stream's frames once and in order "
            "(transport_recv). Tie: the real Packetizer and the real TokioTransport (over a scripted AsyncRead+AsyncWrite mock) vs. the "
            "compiled model, plus implementation-only oracles.",
    "note": "Trusted: Lean kernel (+propext, Classical.choice, Quot.sound), tools/extract.py, the harness. Partial on real I/O: waker "
            "registration, real sockets and the tokio reactor are outside the model (the I/O object is a script of poll results).",
    "design_ref": "DESIGN.md section 6 C14",
}


BROKER_NOTE = ("Trusted: Lean kernel + axioms propext/Classical.choice/Quot.sound; tools/extract_broker.py (version gates, version-"
               "dependent branches, low-water mark, work-queue order, accept range, counting order in create_channel are regenerated "
               "from broker.rs / acceptor.rs / channel.rs on every run and fail closed); the broker correspondence harness (real "
               "Broker::run, BrokerHandle::connect and Connection::run on a deterministic executor vs. the compiled model, all message "
               "kinds, four ways of ending a connection, 1.14..1.20 peers). Modelled rather than verified: HashMap/HashSet as "
               "association lists (hash iteration order compared after sorting runs of same-kind messages), v4 UUID cookies as a "
               "counter (freshness of random UUIDs is assumed), the mpsc queues as the event order the broker sees, sends fail exactly "
               "when the connection task is gone. The proofs are about the model function for function; statements over whole histories "
               "are proved where DESIGN.md section 6 says so and are otherwise tied only by the correspondence runs (partial).")

def _b(text, ref):
    return {"text": text, "note": BROKER_NOTE, "design_ref": ref,
            "technique": "Lean 4 theorems about an executable model of the broker state machine (per handler, per component, and "
                         "inductive invariants over all event histories) + translator-extracted constants + differential "
                         "correspondence with the real broker on a deterministic executor"}

CLAIMS["C02"] = _b(
    "Machine-checked proofs (Lean 4). For ALL histories of the broker model, from any state: for a connection c that is still served "
    "and a caller serial n, replies with serial n put into c's queue + (1 if a call (c, n) is pending) = (1 if one was pending at the "
    "start) + calls (c, n) taken (call_replies_balance; no invariant assumed), hence never more replies than calls whatever owners, "
    "other connections and c itself do (replies_never_exceed_calls), and for a caller that reuses a serial only after its call was "
    "answered replies + pending = calls: exactly one reply per call (well_behaved_caller_exactly_once; serial reuse after a reply or an "
    "abort covered). For ALL reachable states (fewer than 2^32 calls pending at a time), by a cross-reference invariant of the "
    "per-connection call tables, function_calls and the two deferred lists: an entry n -> bs of c is the pending, not aborted call bs "
    "of (c, n) and every not aborted call is in the table of its connected caller (pending_entry_is_live_call, "
    "live_call_is_pending_at_its_caller); the reply of the owner of the called object puts exactly CallFunctionReply(n, r) - caller's "
    "serial, owner's result and payload - into c's queue and clears both tables (owner_reply_delivered); a reply of any other "
    "connection puts nothing into any queue (foreign_reply_not_delivered); when c aborts its pending call and is still served after "
    "the turn, exactly one CallFunctionReply(n) was queued for it in that turn and it says Aborted (abort_is_answered). Per handler, every state: no_service, "
    "owner_reply_forwarded, unknown_reply_ignored, foreign_reply_ignored, abort_answers_once, abort_twice_silent, "
    "reply_after_abort_is_dropped. Callee side, every reachable state, by the invariant between function_calls and "
    "Service::function_calls together with the registry invariant of C03: every call in the table is held by the service entry it is "
    "for, that service is registered, its object exists and its owner is connected (pending_call_has_live_callee); hence a call that "
    "is still pending at its caller has a live callee - once the service or its object is destroyed or the owner has disconnected in "
    "any way the entry is gone (pending_entry_has_live_callee) and, with the balance theorem, exactly one reply has been delivered "
    "(ended_callee_means_answered). That this synthesized reply says InvalidService: remove_service, from any state in which it succeeds, "
    "takes every call of the service's set out of the call table and defers exactly one (caller serial, caller, InvalidService) per call "
    "that was not aborted (destroyed_service_answers_invalid_service), and the work loop sends a deferred item as CallFunctionReply to the "
    "caller if it is still connected (deferred_reply_is_sent). The correspondence runs cover overlapping calls, serial reuse also right "
    "after an abort, aborts, destruction, all four disconnect modes, mixed versions.", "DESIGN.md section 6 C02 and 10.2")
CLAIMS["C03"] = _b(
    "Machine-checked proofs (Lean 4), for every broker state, that create/destroy object and create service answer ok / duplicate / "
    "invalid-object / foreign-object exactly by registry state and ownership, register the entity under both keys for the sender, and "
    "take cookies from a counter that is advanced on every issue (create_object_*, destroy_object_*, create_service_*); version "
    "queries succeed exactly while the cookie is live (query_version_live). Uniqueness per uuid holds by construction (maps keyed by "
    "uuid in code and model). For ALL histories the registry cross-reference invariant holds between two events "
    "(registry_cross_references_all_histories): cookie map and uuid map of objects and of services name each other, the owner of every "
    "object is a connected connection that lists it, a connection lists only objects it owns, every service hangs off a live object "
    "that lists it; hence cascading destruction (services_of_a_dead_object_are_dead, destroy_object_unregisters, "
    "destroy_service_unregisters) and cleanup on disconnect in any of the four ways (objects_of_a_gone_connection_are_gone). The bus "
    "events of the cascade, from any state: remove_service of a registered cookie defers one ServiceDestroyed with the service's id and "
    "unregisters exactly that cookie (destroyed_service_is_announced); remove_object defers ObjectDestroyed and one ServiceDestroyed per "
    "listed service, none skipped in a consistent registry (destroyed_object_cascade_is_announced, listed_services_are_announced); the "
    "work loop emits them, services first (deferred_destructions_are_emitted). Partial: that an object's list names no service twice is "
    "a hypothesis there; who receives an emitted event is C10; whole histories of these messages are decided by the correspondence runs "
    "over a pool of 4 uuids (collisions, re-creation, foreign access, disconnects, connections coming back to services they had "
    "subscribed to).", "DESIGN.md section 6 C03 and 10.2")
CLAIMS["C04"] = _b(
    "Machine-checked proofs (Lean 4): emit_event's fan-out for every broker state is exactly one copy, payload unchanged, per connection "
    "subscribed to the event id or to all events (fanout_exact), non-owner emits are dropped (foreign_emit_dropped); for ALL histories of "
    "subscribe/unsubscribe on an event id the first/last flags that make the broker notify the owner are raised exactly when the "
    "subscriber set changes between empty and non-empty, membership changes only for the acting connection and no empty entry is kept "
    "(subscribe_transition, unsubscribe_transition, transitions_all_histories; likewise for all-events subscriptions); when a service is "
    "destroyed exactly the connections subscribed to one of its events or to the service itself are queued for a ServiceDestroyed "
    "notification, each once (service_destroyed_audience, service_destroyed_queued_once). Agreement of the "
    "per-connection mirror and ServiceDestroyed fan-out under disconnects is decided by the correspondence runs, and the owner's "
    "client-side record of what it was told to produce (which filters what it emits) by scenario B of the sys harness with real "
    "clients (every proxy subscribed to an event id or to all events of a live service must get what the owner emits): partial there.",
    "DESIGN.md section 6 C04 and 10.6")
CLAIMS["C05"] = _b(
    "Machine-checked proofs (Lean 4): an inductive invariant over ALL histories of broker events shows every stored channel has a "
    "claimed end, sender credit <= receiver credit, and equal credits at or below the low-water mark (chan_inv_all_histories); credit "
    "accounting for ALL histories of sends and grants: forwarded <= announced <= granted with the stored capacities being the unspent "
    "parts and no panic site of channel.rs reached (credit_accounting, forwarded_le_granted); a sender within its credit is never "
    "refused, one without credit gets CapacityExhausted (send_within_credit, send_beyond_credit); exactly one ItemReceived, payload "
    "unchanged, in send order (send_delivers_once); a grant is refused exactly on u32 overflow (grant_overflow); claim-once and close "
    "permission tables (claim_*_once, close_permission, close_no_panic); for ALL histories a claimed end is claimed by a connection that "
    "is still there and lists the channel, and what a connection lists is an end it has claimed "
    "(claimed_end_is_listed_by_its_connected_owner, connection_lists_only_ends_it_claimed), so a disconnect closes exactly the "
    "claimed ends of that connection. The broker's low-water constant is regenerated from channel.rs. "
    "Client level (client_channel_all_schedules): the capacity bookkeeping of the real Sender / Receiver composed with the broker's "
    "Channel, for every capacity 1..u32::MAX and every schedule of send-if-ready / take / poll receiver_closed / poll send_ready with the "
    "system at rest in between: no debug_assert! fails, the broker refuses no item and no grant, waiting items = sent - taken, the three "
    "parties' counts agree, a sender whose receiver has taken everything may send; tied to two real clients on a real broker by the chan "
    "harness (observations and the private capacity / cur_capacity fields); client_channel_all_interleavings: the same with every message "
    "in one of four FIFO queues which the schedule moves (any interleaving; counts agree once what is in flight is added in, no item without "
    "credit, no overflowing grant, forwarded - taken <= capacity); the driver answers the harness from both models, which must agree. "
    "Partial: the in-flight model is tied through at-rest schedules only; real interleavings and the client-side claim/close paths are "
    "exercised by sys scenario B (real clients under a PRNG schedule; "
    "in-order items; a sender whose receiver is alive and has taken everything must be allowed to send).", "DESIGN.md section 6 C05 and 10.2")
CLAIMS["C09"] = _b(
    "Machine-checked proof (Lean 4) of an inductive invariant over ALL histories of broker events, including every way and point of "
    "ending a connection: the channel and bus-listener gauges equal the sizes of the maps, map keys are unique and below the cookie "
    "counter (channel_listener_gauges_all_histories) — using the translator fact that create_channel counts before replying, which is "
    "where the defect fixed in 2be3d48 breaks the proof; run-loop exit condition and shutdown events (finished_iff, "
    "broker_shutdown_queues_all, idle_shutdown_sets_flag); the turn that handles a broker shutdown ends, from any state, with no "
    "connection left, nothing deferred and the exit condition of Broker::run true (broker_shutdown_completes); a connection removed with notice whose task still takes messages is sent Shutdown first (removal_with_notice_sends_shutdown_first); gauges for connections/objects/services (registry_gauges_all_histories); in "
    "every reachable state a call whose caller is no longer connected is marked aborted, so nothing is delivered for it any more "
    "(calls_of_a_removed_connection_are_ended, no_connections_no_live_call; cross-reference invariant of C02); for ALL histories, once "
    "no connection is left all four registry maps, the channel map and the listener map are empty "
    "(no_connections_no_objects_no_services, no_connections_no_channels_no_listeners; registry invariant of C03, ownership invariant "
    "of C05) and in every reachable state so is the call table (no_connections_no_calls). Connection ids (conn_id.rs, an anchor of this property): no id is handed out while in use, for ALL histories "
    "of connects and disconnects (C11 connection_ids_are_never_handed_out_twice; real allocator vs. model in every run). That every affected peer is notified is decided "
    "by the correspondence runs: every scenario ends by closing everything (two orders), compares take_statistics with the model, the "
    "model's gauges with its map sizes, and requires Broker::run to finish: partial on those clauses.", "DESIGN.md section 6 C09")
CLAIMS["C10"] = _b(
    "Machine-checked proofs (Lean 4): an inductive invariant over ALL histories shows every stored listener's cached flags equal their "
    "recomputation from a duplicate-free filter set (listener_flags_all_histories, filter_history), hence the unreachable!() arms are dead "
    "and the enumeration strategy depends on the filters alone (specific_*_choice); the specific path lists exactly the uuids/pairs a "
    "matching entity can have, each once, and the scan path is the plain filter predicate (specific_objects_exact, "
    "specific_services_exact, scan_objects_exact, matches_object_is_filter_semantics); only tagged events and the end marker follow a "
    "start (current_msgs_tagged); a new event goes untagged, once per connection, to exactly the connections owning a started matching "
    "listener (new_event_once_per_connection, not_started_matches_nothing). The cookie and uuid views of the registry read by the two "
    "paths agree: for ALL histories the registry is consistent with unique cookies (registry_views_agree_all_histories, from the registry "
    "invariant of C03), and then whichever path is selected a tagged created-event is sent iff the object / service is registered and the "
    "filters match (start_lists_exactly_the_matching_objects, start_lists_exactly_the_matching_services). The client library's fan-out "
    "to several listeners of one client is covered by sys scenario B only.", "DESIGN.md section 6 C10 and 10.2")
CLAIMS["C11"] = _b(
    "Machine-checked proofs (Lean 4) over a model in which every expect/unreachable!/debug_assert! of the broker is an explicit Panic "
    "result. From every reachable state (fewer than 2^32 pending calls), one whole turn of Broker::run on any event - any message of "
    "any connection incl. wrong direction, stale or foreign cookies and serials, duplicates, out-of-state requests; connects; the four "
    "kinds of disconnect; shutdown - with every step of the deferred work and the teardown of connections: if the turn ends in a "
    "panic, that panic is raised by the introspection code (the handler of one of the three introspection requests, or "
    "remove_introspection_conn), or the id of a new connection was already in use, or the model's budget ran out "
    "(turn_panics_only_in_introspection; by the registry invariant of C03, the caller- and callee-side call invariants of C02, the "
    "ownership and channel invariants of C05, the listener invariant of C10 and duplicate-freeness of the per-connection sets, all of "
    "which hold at every intermediate state of a turn); the work loop stops after finitely many items of deferred work from every "
    "state and running out of budget is never what ends it: does not hang (work_loop_terminates, "
    "work_loop_outcome_is_independent_of_the_budget); of the 35 lookup sites of the model only the four of the introspection code "
    "are reachable (inconsistent_state_only_in_introspection); the handler of the 31 request kinds that are not about introspection "
    "returns no panic of any kind (request_does_not_panic); remove_service / remove_object cannot fail "
    "(remove_service_and_object_cannot_fail); wrong-direction and too-new kinds only close the sender "
    "(wrong_direction_closes_sender, C12 gated_message_fails); unknown or foreign cookies/serials are ignored without touching other "
    "state (unknown_*, foreign_listener_untouched). Partial: the four lookups and four debug_assert!s of the introspection code and "
    "that the concrete budget of the model's step suffices are not theorems; that the id of a new connection is not in use is a theorem "
    "about the allocator of connection ids for ALL histories of acquiring and dropping ids, together with its two debug_assert!s "
    "(connection_ids_are_never_handed_out_twice, connection_id_bookkeeping; model of conn_id.rs tied to the real allocator through the "
    "broker's verif-hooks feature), and for broker and allocator composed the duplicate check of NewConnection passes after every "
    "history (new_connection_id_is_never_a_duplicate: ids come from acquire, an id is released only while the broker has no connection "
    "under it, no step of the broker inserts a connection other than NewConnection). These, and 'a well-behaved connection is still served correctly afterwards', are covered by the 'abuse' profile of the "
    "correspondence runs (panics caught around every poll, the model names the site, liveness probe of every surviving connection).",
    "DESIGN.md section 6 C11 and 10.2")
CLAIMS["C12"] = _b(
    "Machine-checked proofs (Lean 4): the handshake decision for all requested versions (handshake_spec, handshake_incompatible; accept "
    "range regenerated from acceptor.rs and its control-flow shape checked by the translator); every message kind newer than the "
    "negotiated version does nothing but fail, which queues exactly the sender for removal (gated_message_fails over all 11 gated kinds "
    "with gates regenerated from broker.rs, failed_handler_queues_removal); forwarding picks CallFunction2 only for 1.19+ callees, "
    "forwards aborts only to 1.16+ callees, forces subscribe_all off for pre-1.18 owners (call_downtranslation, abort_only_to_1_16, "
    "subscribe_all_forced_off); payload interop for all version pairs 1.14..1.20 and all well-formed values (payload_interop, on top of "
    "the C13 theorems; the conversion model is tied to core/src/convert_value.rs in this check too: conversion lines of the codec harness "
    "with the conversion oracles). 'Never sends a kind newer than the receiver's version' is additionally an oracle on every message of every "
    "correspondence run; a global invariant over introspection registrations is not proved: partial there.", "DESIGN.md section 6 C12")

CLAIMS["C20"] = {
    "text": "Translation + machine-checked proof (Lean 4). tools/extract_ir.py reads, on every run, the 17 Serialize impls of the "
            "introspection IR (which declared fields of which record go on the wire, under which id, which only when present), the "
            "variant tables, namespaces, version and the shape of the Compute record; the Lean model serializes a generic IR by that "
            "table, runs the work-list closure, builds the ordered set and the pre-image and (in the driver) the UUIDv5. Proved: doc is "
            "declared but never serialized and is the only such field (facts about the translated tables), so replacing documentation "
            "anywhere leaves the bytes unchanged (docs_do_not_matter); the order in which a record's fields are listed does not matter "
            "(field_order_does_not_matter); the set of referenced layouts and hence the pre-image depends only on which layouts were "
            "collected, not on visiting order or multiplicity (reference_order_does_not_matter); a serialized field whose contribution "
            "changes changes the record's value (serialized_field_matters, ids unique per record from the tables), different well-formed "
            "values have different bytes (encoding_injective, from the C01 round trip), and equal pre-images come from equal root bytes and "
            "equal sets (preimage_injective). Tie: final type ids of the real TypeId::compute_from_dyn vs. the model on random type "
            "graphs; implementation-only oracles for invariance (docs, builder order, reference order/duplicates), sensitivity (one "
            "semantic edit of a reachable type) and the Introspection record round trip; for the schema corpus of harness-typed, the "
            "layout that the code produced by the code generator and the derive / service macros reports for every struct, enum, "
            "newtype, inline type and service against the one derived from the parser's AST.",
    "note": "Trusted: Lean kernel (+propext, Classical.choice, Quot.sound), tools/extract_ir.py, the harness. Assumed: SHA-1 collision "
            "resistance (ids differ when pre-images differ). Partial: that the closure loop collects exactly the reachable types is tied by "
            "correspondence only; that generated layouts are the schema's is an implementation-only oracle over a fixed corpus (the AST-to-layout "
            "translation in harness-typed/build.rs is trusted).",
    "design_ref": "DESIGN.md section 6 C20, section 10",
    "technique": "source-to-Lean translation of the IR serializers + Lean 4 proofs over a generic IR model + differential correspondence on final type ids",
}

CLAIMS["C19"] = {
    "text": "Machine-checked proof (Lean 4) over executable models of the three discoverer entry state machines (any object, specific "
            "object with services, bare object) with every debug_assert! of that code as an explicit failure, and of the bus as the "
            "fold of its events: for ALL admissible histories (creations of what does not exist, destructions of what exists, services "
            "inside their object's lifetime) no assertion can fail and every entry ends as exactly the view of the final bus state "
            "(entry_converges); that view is 'the existing objects that match and have every required service, with current object "
            "and service cookies' for each entry kind (bare_entry_view, services_entry_view, any_entry_view); every emitted event is the "
            "transition of what the entry reports for one object and nothing else changes in that step (events_are_transitions); new "
            "and reset entries are the view of the empty bus (new_entries_related). Lifetimes: a model of the loop of "
            "Lifetime::poll_ended as a fold over its listener's events and of the scope's UUID on the bus (creations under fresh "
            "cookies, destructions); for EVERY such history, every point at which the lifetime is bound and every cookie it is bound to "
            "(living, past, never handed out), once the events so far are handled the lifetime has ended iff its scope does not live "
            "(lifetime_ended_iff_scope_gone; as it holds for every prefix, never while the scope lives). Tie: the real Discoverer on a "
            "real client and broker vs. the model, event by event and found-set by found-set, plus an implementation-only convergence "
            "oracle at the end of every scenario and a find_object oracle; real Lifetimes bound at random points of random histories "
            "of one UUID, polled after every operation, compared with the model and with whether the scope lives.",
    "note": "Trusted: Lean kernel (+propext, Classical.choice, Quot.sound), the harness. Partial: find_object / wait_for_object are "
            "one-shot uses of a discoverer and are only checked by an oracle on the real code; that the bus listener delivers an admissible history to the entries (filters, "
            "current enumeration on restart, draining on stop) is tied by the correspondence runs, not proved; async scheduling is "
            "sampled (current-thread runtime, operations awaited one by one).",
    "design_ref": "DESIGN.md section 6 C19, section 10",
}

CLAIMS["C16"] = {
    "text": "Machine-checked proof (Lean 4) over an executable model of what a generated type does to a dynamic value (deserialize as "
            "the type, serialize again) for EVERY environment of struct / enum / newtype definitions with distinct field ids per struct, "
            "every schema type (all built-ins, nested generics, arrays, box, references, keys by newtype), every value: the type accepts "
            "exactly the values that conform to the schema type, where conformance is a separate declarative definition (unknown field "
            "ids tolerated, required fields present, declared fields / payloads of the declared type, unknown variants only with fallback) "
            "(accepts_exactly_conforming); the rejections named in the property are corollaries (missing_required_field_rejected, "
            "wrongly_typed_field_rejected, unknown_variant_rejected, wrong_payload_rejected); what is written back is accepted again "
            "and written back unchanged and conforms (reencoding_stable, reencoded_conforms); exactly which entries are written: "
            "required / optional declared fields (known_fields_written), every unknown field kept by a struct with fallback and none by "
            "one without (unknown_fields_kept, unknown_fields_dropped_without_fallback), unknown variants kept intact by an enum with "
            "fallback (unknown_variant_kept); and for ANY two environments where the new one keeps every definition, field and variant of the old "
            "one (adding fields, variants, definitions) and old structs / enums have a fallback, the new type reads what the old type "
            "wrote back exactly as it reads the original value, at every nesting level (newer_data_survives_older_type). Tie: rustc compiles aldrin::generate! for the schema corpus on every run (thorough: "
            "plus fresh grammar-generated schema batches), and every generated struct / enum / newtype / inline service type is driven "
            "with conforming and systematically damaged values in both encodings against the model; implementation-only oracles for "
            "acceptance, stability, required fields, unknown fields and variants with / without fallback, and old/new schema pairs.",
    "note": "Trusted: Lean kernel (+propext, Classical.choice, Quot.sound), harness-typed (build script and value generator), the C01 "
            "decoder model that turns bytes into the dynamic value. Partial: 'the generated code compiles for every valid schema' is a "
            "statement about rustc and is tested on the corpus and on generated schemas, not proved; typed depth limits and serialization errors are not "
            "modelled; the model acts on the decoded dynamic value, not on the typed deserializers' byte walk.",
    "design_ref": "DESIGN.md section 6 C16, section 10",
    "technique": "Lean 4 proofs over an executable model of the derive semantics + rustc on generated schemas + differential correspondence against the generated types",
}

CLAIMS["C18"] = {
    "text": "Machine-checked proof (Lean 4) over executable models of the parser (grammar.pest read as the PEG pest executes, plus the "
            "AST construction) and of the formatter (fmt.rs function by function, including the blank-line state machine). Proved, with "
            "nothing assumed: for EVERY source text the grammar model accepts, the formatted text of its schema is accepted again (with "
            "the parser model's own fuel) as the same schema in canonical form (same definitions in the same order, names, ids, types, "
            "attributes, comments, docs; imports sorted) and formatting that again gives the same text (parse_format_parse = "
            "parsed_schemas_are_well_formed, one lemma per grammar rule, + formatted_text_carries_its_fuel + format_parses_back + "
            "formatting_again_changes_nothing). In detail: for "
            "EVERY well-formed schema AST (structs, enums, newtypes, consts of all kinds, services with functions in all body forms, "
            "events, inline structs / enums, fallbacks, attributes, comments and doc strings everywhere, file prelude, imports) the "
            "formatted text parses, without syntax error, to exactly the same schema with comment / doc lines in canonical form and "
            "imports in the formatter's stable by-name order (format_parses_back, format_parses_back_checked; per definition: "
            "definition_roundtrip, struct_/enum_/service_/const_/newtype_def_roundtrip; leaves: type_roundtrip, ref_roundtrip, "
            "ident/int/uuid/string_roundtrip, comment/doc/inline_doc_line_roundtrip); the formatter's state (newline, first, last_def, "
            "last_item) only ever decides which blank run is written (definition_written); writing a written line again gives the same "
            "line (line_inner_stable). Well-formedness is an explicit predicate with an executable check proved sound "
            "(validSchemaB_sound). Tie: the real parser and formatter against the models on generated and damaged schema sources "
            "(canonical AST dump, formatted text, syntax errors), the model's evaluation of the theorem's premises and conclusion on "
            "every parsed AST (sval lines), plus implementation-only oracles for the statement itself: formatted text parses, to the "
            "same schema (imports sorted), idempotently, with the same diagnostics.",
    "note": "Trusted: Lean kernel (+propext, Classical.choice, Quot.sound), the harness, the reading of pest's semantics. Partial: the "
            "theorems are about the models; non-ASCII identifiers and the validator (equal errors and warnings: an implementation-only "
            "oracle) are not modelled; the tie to pest and fmt.rs is differential (AST dumps, formatted text, and the sval lines, which "
            "re-evaluate premises and conclusion of the theorems on every parsed input).",
    "design_ref": "DESIGN.md section 6 C18, section 10",
    "technique": "Lean 4 proofs (print/parse round trip) over executable PEG-parser and formatter models + differential correspondence against the real parser and formatter",
}

CLAIMS["C06"] = {
    "category": "proof",
    "text": "Partial. Machine-checked proof (Lean 4) over an executable model of the client's message handling (Client::run's "
            "handle_message and all msg_* functions, one case each; serial maps, channel-end and bus-listener state machines, version "
            "gates, every expect / assert / unreachable as an explicit panic outcome): for histories of ANY length, a serial is in the map "
            "of its request kind iff a request of that kind and serial has been sent and not answered (pending_is_open_requests); a "
            "reply with an unknown serial is refused for each of the 17 checked kinds (unknown_serial_is_refused) and a reply to an "
            "open request is never refused for the 12 kinds that depend on nothing else (reply_to_open_request_is_not_refused), the "
            "other five have their second condition stated; call / destroy replies are never refused; for every serial-less message "
            "(items, capacity, end claimed / closed, current bus events, current-finished) the exact client state that accepts it. "
            "On the composed system (broker model, one client model per connection, two order-preserving queues per connection, EVERY "
            "interleaving of sends, broker turns, other broker events, client turns, clients going away): every serial reply on its way "
            "to a client names a serial in the client's map of that kind (replies_carry_open_serials, 16 kinds), so no reply of the 11 "
            "plain kinds is ever refused (broker_replies_never_refused); this rests on step_msg_reply / step_other_no_reply (one turn of "
            "the broker model answers a request at most once, to the requester, under its kind and serial, and emits no other serial "
            "reply: all 35 handlers, connection clean-up, deferred-work loop) and assumes only that a client does not reuse an open "
            "serial (SerialMap::insert; checked on every trace line of the real client). "
            "Bus listeners on the same composed system: whatever the broker queues for a client about its listeners (the four replies, "
            "tagged created-events, the end-of-current marker) is accepted when the client gets to it, in every interleaving "
            "(listener_messages_never_refused; invariant between the broker's listener table and the client's listener map after the "
            "messages on their way, exact characterisations of the four listener handlers, 'a removed or dead connection never comes "
            "back' and framing for all other handlers, clean-up and the work loop). "
            "Channels on the same composed system: whatever the broker queues for a client about channels (replies to create / close / "
            "claim, end-claimed and end-closed notifications, items, capacity) is accepted when the client gets to it, in every "
            "interleaving incl. close racing claim, flow-control violations and connections that end "
            "(channel_messages_never_refused; invariant: for every live connection and every end it has claimed in the broker's table "
            "the client's map, after the messages on their way, says pending while the other end is unclaimed and established once it "
            "is claimed). "
            "Nothing is left waiting: for a connection the broker still serves, every serial in one of the client's 16 maps belongs to a "
            "request on its way to the broker or a reply on its way to the client, so with both queues empty the maps are empty "
            "(pending_serials_are_on_their_way, quiescent_no_pending; a broker turn for such a request either queues the reply or "
            "removes the connection, step_msg_answers). "
            "The composed statement for calls and NotSupported, and the client's own assert!s about its maps, are NOT theorems: this is "
            "tied by runs of real clients against a real broker under PRNG-chosen schedules on FIFO sizes 1..16 and unbounded, whose "
            "transport traces are replayed through the model, with implementation-only oracles for panics, unexpected-message stops, "
            "completion at quiescence (lost wake-ups, deadlock), call-result consistency and an idle broker stopping.",
    "note": "Trusted: Lean kernel (+propext, Classical.choice, Quot.sound), the harness (executor, fake broker, transport tap). Modelled "
            "rather than verified: the client as seen at its transport (what it remembers is derived from the messages it sends and "
            "receives; HandleRequests are not observed), HashMaps as association lists. Not modelled: futures, wakers, select fairness, "
            "flush tracking, back-pressure of bounded transports, proxies' event routing; these are exercised by the schedule-randomised "
            "runs only (support, not proof). A finding of these runs was repaired (failed claim of a channel end, known_findings.json).",
    "design_ref": "DESIGN.md section 6 C06, section 10",
}

CLAIMS["C15"] = {
    "category": "proof",
    "text": "Partial. Machine-checked proof (Lean 4) over an executable model of Client::run's loop (main loop, drain_transport, "
            "returned) around the message-handling model of C06: wherever in a history of ANY length the transport fails, a client "
            "that had not returned returns the transport error and nothing afterwards changes that "
            "(fault_at_any_point_returns_transport_error, stopped_is_final); the two clean exchanges (own Shutdown then the broker's; "
            "the broker's Shutdown, answer, flush) return Ok whatever arrives in between, because a draining client looks at nothing "
            "but Shutdown (draining_ignores_everything_else); UnexpectedMessageReceived is returned only for a message handle_message "
            "refuses in the main loop. That every pending operation completes when the client has returned is Rust drop semantics and "
            "NOT a theorem: it is checked by fault enumeration on the real code (transport failure at the k-th transport operation, k "
            "random per scenario over the whole life of the connection, both kinds, plus the four clean causes, PRNG-chosen schedules, "
            "real broker): every operation task complete at quiescence, operations started after the stop complete at once, the run "
            "result equal to the model's, the broker left without connections, objects, services, channels, listeners.",
    "note": "Trusted: Lean kernel (+propext, Classical.choice, Quot.sound), the harness (executor, transport wrapper with the fault "
            "point). Modelled rather than verified: the run loop as phases over transport events; flushes are visible only as the "
            "final 'returned' state. Not modelled: oneshot / mpsc drop glue, handle counting (num_handles) — observed through the "
            "'all handles dropped' cause. A finding of these runs was repaired (connection task vs. broker shutdown race, "
            "known_findings.json).",
    "design_ref": "DESIGN.md section 6 C15, section 10",
}

CLAIMS["C17"] = {
    "category": "other",
    "text": "Partial: proof for the index arithmetic the repository owns, differential and oracle runs for everything else. "
            "Machine-checked (Lean 4, for ALL doc comments and positions) about an executable model of BrokenDocLink::linecol_to_index / "
            "sourcepos_to_span with usize wrap-around as an explicit outcome: a column >= 1 never wraps and column 0 is the only way to "
            "(doc_link_offset_never_wraps, wrap_needs_column_zero); a returned offset lies inside its doc string on a character boundary "
            "(doc_link_offset_in_bounds); ordered positions give an ordered span, also for the fallback (doc_link_span_is_ordered, "
            "sourcepos_span_is_a_range) - so the spans handed to the renderer can be sliced. The grammar is the PEG model of C18, a total "
            "function compared with the real parser (accept / reject, AST) on every input. Absence of panics and determinism of the rest "
            "(pest, validation, comrak, annotate-snippets rendering, formatter, code generator) is NOT proved: it is exercised by running "
            "the whole pipeline twice under catch_unwind on token soups, mutations of all repository schemas and generated schemas with "
            "adversarial doc comments, with resolvable, cyclic, broken and missing imports.",
    "note": "Trusted: Lean kernel (+propext, Classical.choice, Quot.sound), the harness, the hook (parser feature verif-hooks: records "
            "inputs and result of linecol_to_index, adds no behaviour). Assumed of comrak and flagged when violated: columns >= 1. A total "
            "Lean function says nothing about panics of the Rust code paths it does not model; that part of the property is sampled, not "
            "proved. Observed and not counted as a violation: the schema a cross-schema diagnostic names first follows hash-map iteration "
            "order and differs between runs (DESIGN.md 10.4).",
    "design_ref": "DESIGN.md section 6 C17, section 10",
    "technique": "Lean 4 theorems about an executable model of the position arithmetic + differential correspondence of the grammar model + implementation-only panic / determinism oracles",
}

NOT_APPLICABLE = {
}
