HOOK_COMMITS = []

CODEC_NOTE = ("Trusted: Lean kernel + axioms propext/Classical.choice/Quot.sound; tools/extract.py; the differential harness. "
              "Modelled rather than verified: HashMap/HashSet as lists in wire order, BytesMut as byte lists, floats as bit patterns, "
              "String::from_utf8 as the model's validUtf8, integer arithmetic on unbounded Nat/Int with explicit range hypotheses.")

CLAIMS = {
    "C01": {
        "text": "Machine-checked proof (Lean 4) over the executable codec model: round trip for both container encodings for every "
                "well-formed value of depth <= 32 (roundtrip, roundtrip_prefix), rejection with the nesting error by serialization and by "
                "deserialization for every deeper value (too_deep_ser, too_deep_de), serialization fails only for that reason, and the decoder "
                "never exhausts its recursion budget on any input (decode_terminates). Kind bytes, key tables and the depth limit are "
                "regenerated from the Rust source on every run; the model is tied to the code by differential runs of the real serializer/"
                "deserializer against the compiled model (both epochs, depths 1..40, every nesting kind, varint boundaries).",
        "note": CODEC_NOTE + " Real stack usage and allocation of the Rust code are not modelled.",
        "design_ref": "DESIGN.md section 6 C01, section 5 M1/M2",
    },
}

NOT_APPLICABLE = {}
